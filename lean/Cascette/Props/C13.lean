/-
Props/C13 — Version-service queries fail over in order and cache only good answers.

Model = `RibbitTactClient::query` as written (Model/Fallback: validation, cache lookup, TCP-only
rule, `query_with_fallback`, `should_retry`, `TactClient` status table, `ProtocolCache` over the
disk / memory back ends) and the Ribbit TCP read loop (Model/TcpRead). Spec = the documented
strategy over an arbitrary ordered list of transports (Spec/Fallback.chain).
Transport outcomes, documents, keys, times, configurations and histories are universally
quantified. Helper lemmas live in Proofs/Fallback, Proofs/TcpRead.

Restated more precisely than DESIGN.md §6 planned (same strength or stronger):
* `fallback_order`, `first_good_wins`, `fails_iff` are proved for chains of ANY length
  (`chain_*`) and then for the three-step Rust code through `fallback_refines_chain`;
  `fails_iff` also says which error is reported.
* `cache_hit_no_traffic` is a statement about arbitrary histories between the store and the
  later query (other keys, other clients, the same client before expiry).
* `failures_never_cached` / `malformed_never_cached` are complemented by the invariant
  `only_good_answers_cached` over all histories.
Three clauses are false of the tree and carry a Lean counter-witness + `_partial` theorem:
`split_independent` (interior blank line at a segment boundary), `ttl_end_refetch` (a second
client on the same cache directory adopts the file without expiry), `fails_only_if_protocol_fails`
(a second client's stale index entry turns a deleted file into a cache error).

Extension (second half of the file):
* `CdnClient::download` (Model/CdnDownload, sharing the `ProtocolCache` model with `query`, retry
  loop imported from C14): `download_*`, `cdn_*` theorems over joint histories of queries,
  downloads and file corruption.
* the `reqwest::Error` predicates `should_retry` asks (`http_class_exact`).
* "malformed" defined by the real parser model (Model/VersionWire on top of C15's Model/Bpsv and
  Model/RibbitFmt): `*_wire` theorems; the old flag-based theorems stay and are their corollaries'
  source.
-/
import Cascette.Proofs.Fallback
import Cascette.Proofs.TcpRead
import Cascette.Proofs.CdnDownload
import Cascette.Model.VersionWire
namespace Cascette.Props.C13
open Cascette.Model.Fallback Cascette.Spec.Fallback Cascette.Proofs.Fallback
open Cascette.Model.TcpRead Cascette.Proofs.TcpRead
open Cascette.Model.CdnDownload Cascette.Proofs.CdnDownload
open Cascette.Model.VersionWire
open Cascette.Model.Retry (Arith Outcome Result execute defaultPolicy classifyStatus)
open Cascette.Proofs.Retry (Retryable)

deriving instance DecidableEq for Except

variable {κ α τ : Type} [DecidableEq κ]

/-! ### classification: which answers count, which failures are transient -/

/-- `TactClient::query` yields a document exactly for status 200 with a body that parses: a
malformed body, and every other status, is a failure. -/
theorem tact_ok_iff (status : Nat) (body : Option α) (d : α) :
    tactClassify status body = .ok d ↔ status = 200 ∧ body = some d := by
  unfold tactClassify
  constructor
  · intro h
    split at h
    · rename_i hs
      cases body with
      | none => cases h
      | some d' => simp only [Except.ok.injEq] at h; exact ⟨hs, by rw [h]⟩
    · repeat' split at h
      all_goals cases h
  · rintro ⟨rfl, rfl⟩; simp

/-- for a non-200 status the failure is transient exactly for 429 and 5xx (with or without a
`Retry-After` header: the header is not read on this path). -/
theorem tact_status_transient_iff (status : Nat) (body : Option α) (e : Err) (hs : status ≠ 200)
    (h : tactClassify status body = .error e) :
    shouldRetry e = true ↔ (status = 429 ∨ (500 ≤ status ∧ status ≤ 599)) := by
  unfold tactClassify at h
  rw [if_neg hs] at h
  by_cases h429 : status = 429
  · rw [if_pos h429] at h; cases h; simp [shouldRetry, h429]
  · rw [if_neg h429] at h
    by_cases h503 : status = 503
    · rw [if_pos h503] at h; cases h; simp [shouldRetry, h503]
    · rw [if_neg h503] at h
      by_cases h5 : 500 ≤ status ∧ status ≤ 599
      · rw [if_pos h5] at h; cases h; simp [shouldRetry, h5]
      · rw [if_neg h5] at h; cases h
        simp only [shouldRetry, Bool.or_eq_true, beq_iff_eq]
        omega

/-- a 200 answer whose body does not parse is a definitive (non-retryable) failure. -/
theorem malformed_is_definitive :
    tactClassify 200 (none : Option α) = .error .parse ∧ shouldRetry .parse = false := by
  simp [tactClassify, shouldRetry]

/-- transport-level failures are transient on every path: refused or dropped connections and
timeouts over HTTP (after fix 71d9709 for `httpDropped`), I/O errors and timeouts over TCP. -/
theorem transport_failures_transient :
    shouldRetry .httpConnect = true ∧ shouldRetry .httpDropped = true ∧
    shouldRetry .httpTimeout = true ∧ shouldRetry .network = true ∧ shouldRetry .timeout = true := by
  simp [shouldRetry]

/-! ### the chain -/

/-- refinement: the three-step Rust code is the generic chain over the permitted protocols. -/
theorem fallback_refines_chain (c : Config) (o : Tr → Except Err α) :
    queryWithFallback c o = chain o none (permitted c) :=
  queryWithFallback_eq_chain c o

/-- `fallback_order`, any chain: the transports contacted are an initial run of the configured
order, and every one of them except the last contacted failed transiently. -/
theorem chain_order (o : τ → Except Err α) (last : Option Err) (ts : List τ) (h : ts ≠ []) :
    ∃ pre t post, ts = pre ++ t :: post ∧ (chain o last ts).1 = pre ++ [t] ∧
      ∀ x ∈ pre, Transient o x := by
  obtain ⟨pre, t, post, h1, h2, h3, _⟩ := chain_decomp o ts last h
  exact ⟨pre, t, post, h1, h3, h2⟩

/-- `first_good_wins`, any chain: the result is the document `d` iff some transport answers `d`
and everything before it failed transiently. -/
theorem chain_ok_iff (o : τ → Except Err α) (last : Option Err) (ts : List τ) (d : α) :
    (chain o last ts).2 = .ok d ↔
      ∃ pre t post, ts = pre ++ t :: post ∧ (∀ x ∈ pre, Transient o x) ∧ o t = .ok d := by
  constructor
  · intro h
    cases ts with
    | nil => simp [chain] at h
    | cons a as =>
      obtain ⟨pre, t, post, h1, h2, _, hres⟩ := chain_decomp o (a :: as) last (by simp)
      rcases hres with ⟨d', hd', hr⟩ | ⟨e, _, _, _, hr⟩ | ⟨e, _, _, hr⟩
      · rw [hr] at h; cases h; exact ⟨pre, t, post, h1, h2, hd'⟩
      · rw [hr] at h; cases h
      · rw [hr] at h; cases h
  · rintro ⟨pre, t, post, rfl, hpre, hd⟩
    rw [(chain_of_decomp o last pre t post hpre).1 d hd]

/-- `fails_iff`, any chain: the result is the error `e` iff either a transport that is not the
last one refused definitively with `e` after transient failures of all earlier ones, or all
transports but the last failed transiently, the last failed too, and `e` is the failure of the
one tried before the last (the last one's own failure when it was the only transport). -/
theorem chain_error_iff (o : τ → Except Err α) (ts : List τ) (hts : ts ≠ []) (e : Err) :
    (chain o none ts).2 = .error e ↔
      (∃ pre t post, ts = pre ++ t :: post ∧ post ≠ [] ∧ (∀ x ∈ pre, Transient o x) ∧
          o t = .error e ∧ shouldRetry e = false) ∨
      (∃ pre t e', ts = pre ++ [t] ∧ (∀ x ∈ pre, Transient o x) ∧ o t = .error e' ∧
          e = (lastErr o none pre).getD e') := by
  constructor
  · intro h
    obtain ⟨pre, t, post, h1, h2, _, hres⟩ := chain_decomp o ts none hts
    rcases hres with ⟨d', _, hr⟩ | ⟨e0, hp, he0, hr0, hr⟩ | ⟨e0, hp, he0, hr⟩
    · rw [hr] at h; cases h
    · rw [hr] at h; cases h; exact Or.inl ⟨pre, t, post, h1, hp, h2, he0, hr0⟩
    · rw [hr] at h; cases h; subst hp; exact Or.inr ⟨pre, t, e0, h1, h2, he0, rfl⟩
  · rintro (⟨pre, t, post, rfl, hp, hpre, he, hr⟩ | ⟨pre, t, e', rfl, hpre, he, rfl⟩)
    · rw [(chain_of_decomp o none pre t post hpre).2.1 e he hr hp]
    · rw [(chain_of_decomp o none pre t [] hpre).2.2 e' he rfl]

/-- `fallback_order` for the Rust code: HTTPS, then HTTP, then TCP, skipping the protocols that
are not configured; a protocol is contacted only if every earlier permitted one failed
transiently. -/
theorem fallback_order (c : Config) (o : Tr → Except Err α) :
    ∃ pre t post, permitted c = pre ++ t :: post ∧ (queryWithFallback c o).1 = pre ++ [t] ∧
      ∀ x ∈ pre, Transient o x := by
  rw [fallback_refines_chain]; exact chain_order o none _ (permitted_ne_nil c)

/-- `first_good_wins` for the Rust code. -/
theorem first_good_wins (c : Config) (o : Tr → Except Err α) (d : α) :
    (queryWithFallback c o).2 = .ok d ↔
      ∃ pre t post, permitted c = pre ++ t :: post ∧ (∀ x ∈ pre, Transient o x) ∧ o t = .ok d := by
  rw [fallback_refines_chain]; exact chain_ok_iff o none _ d

/-- `fails_iff` for the Rust code, including the error that is reported. -/
theorem fails_iff (c : Config) (o : Tr → Except Err α) (e : Err) :
    (queryWithFallback c o).2 = .error e ↔
      (∃ pre t post, permitted c = pre ++ t :: post ∧ post ≠ [] ∧ (∀ x ∈ pre, Transient o x) ∧
          o t = .error e ∧ shouldRetry e = false) ∨
      (∃ pre t e', permitted c = pre ++ [t] ∧ (∀ x ∈ pre, Transient o x) ∧ o t = .error e' ∧
          e = (lastErr o none pre).getD e') := by
  rw [fallback_refines_chain]; exact chain_error_iff o _ (permitted_ne_nil c) e

/-- the property's sentence, as a corollary: the query's network step fails only if a permitted
protocol gave a definitive (non-retryable) refusal or every permitted protocol failed. -/
theorem fails_only_if (c : Config) (o : Tr → Except Err α) (e : Err)
    (h : (queryWithFallback c o).2 = .error e) :
    (∃ t ∈ permitted c, ∃ e', o t = .error e' ∧ shouldRetry e' = false) ∨
    (∀ t ∈ permitted c, ∃ e', o t = .error e') := by
  rcases (fails_iff c o e).1 h with ⟨pre, t, post, hp, _, _, he, hr⟩ | ⟨pre, t, e', hp, hpre, he, _⟩
  · exact Or.inl ⟨t, by rw [hp]; simp, e, he, hr⟩
  · right
    intro x hx
    rw [hp] at hx
    simp only [List.mem_append, List.mem_singleton] at hx
    rcases hx with hx | rfl
    · obtain ⟨e0, he0, _⟩ := hpre x hx; exact ⟨e0, he0⟩
    · exact ⟨e', he⟩

/-- the last permitted protocol is always Ribbit TCP (so in the second disjunct of `fails_iff`
`t = tcp`), and the permitted list is a sub-list of [https, http, tcp] in that order. -/
theorem permitted_shape (c : Config) :
    ∃ pre, permitted c = pre ++ [Tr.tcp] ∧ pre.Sublist [Tr.https, Tr.http] := by
  obtain ⟨a, b⟩ := c
  cases a <;> cases b
  · exact ⟨[], rfl, by simp⟩
  · exact ⟨[Tr.http], rfl, by simp⟩
  · exact ⟨[Tr.https], rfl, by simp⟩
  · exact ⟨[Tr.https, Tr.http], rfl, by simp⟩

/-- `tcp_only_direct`: for `v1/summary`, `v1/certs/…`, `v1/ocsp/…` the TACT clients are never
contacted, and when the network is used the answer is Ribbit's own outcome. -/
theorem tcp_only_direct (cfg : Config) (st : CState κ α) (c now : Nat) (ep : Ep κ)
    (o : Tr → Except Err α) (htcp : ep.tcpOnly = true) :
    ((query cfg st c now ep o).2.1 = [] ∨ (query cfg st c now ep o).2.1 = [Tr.tcp]) ∧
    ((query cfg st c now ep o).2.1 ≠ [] → (query cfg st c now ep o).2.2 = o .tcp) := by
  have hn : net cfg ep o = ([Tr.tcp], o .tcp) := by simp [net, htcp]
  rcases query_exits cfg st c now ep o with ⟨_, hx⟩ | ⟨_, e', _, hx⟩ | ⟨_, d', _, hx⟩ |
      ⟨_, _, ⟨e', he, hx⟩ | ⟨d', hd, hx⟩⟩
  all_goals rw [hx]
  all_goals simp [hn] at *
  · exact he.symm
  · exact hd.symm

/-! ### the cache -/

/-- `cache_hit_no_traffic`. After a query by client `c` at `t0` that went to the network and
succeeded with `d`, and whatever happens in between — queries on other endpoints by anybody,
queries on this endpoint by other clients (old or newly created) at any time, queries on this
endpoint by `c` before `t0 + ttl`, corruption of other files — a query on the endpoint by `c` at
any `t1 < t0 + ttl` returns `d` and contacts no transport. (Hypothesis `hoth`: when the answer
is stored no OTHER client holds an index entry with an expiry for this key; it holds for every
newly created client.) -/
theorem cache_hit_no_traffic (cfg : Config) (st st1 : CState κ α) (c t0 : Nat) (ep : Ep κ)
    (o : Tr → Except Err α) (tr : List Tr) (d : α)
    (hq : query cfg st c t0 ep o = (st1, tr, .ok d)) (hnet : tr ≠ [])
    (hoth : ∀ c', c' ≠ c → alookup st.idx (c', ep.key) = none ∨ alookup st.idx (c', ep.key) = some none)
    (ops : List (Op κ α)) (hquiet : ∀ op ∈ ops, Quiet c ep.key (t0 + ep.ttl) op)
    (t1 : Nat) (ht : t1 < t0 + ep.ttl) (ep' : Ep κ) (hk : ep'.key = ep.key) (hv : ep'.valid = true)
    (o' : Tr → Except Err α) :
    (query cfg (run cfg st1 ops) c t1 ep' o').2 = ([], .ok d) := by
  have h0 := holds_after_store cfg st st1 c t0 ep o tr d hq hnet hoth
  have h1 := holds_run cfg c ep.key d (t0 + ep.ttl) ops st1 h0 hquiet
  exact (holds_query cfg _ c c ep.key d _ t1 ep' o' h1 (Or.inr (Or.inr ht))).2 hk hv (Or.inl rfl)

/-- with a cache directory, ANY other client on the directory (in particular a newly created
one) is served the stored answer without traffic as well — at any time: the adopted entry has
no expiry (this is the positive half of the `ttl_end_refetch` finding below). -/
theorem cache_hit_other_client_disk (cfg : Config) (st st1 : CState κ α) (c t0 : Nat) (ep : Ep κ)
    (o : Tr → Except Err α) (tr : List Tr) (d : α)
    (hq : query cfg st c t0 ep o = (st1, tr, .ok d)) (hnet : tr ≠ [])
    (hoth : ∀ c', c' ≠ c → alookup st.idx (c', ep.key) = none ∨ alookup st.idx (c', ep.key) = some none)
    (ops : List (Op κ α)) (hquiet : ∀ op ∈ ops, Quiet c ep.key (t0 + ep.ttl) op)
    (hdisk : (run cfg st1 ops).disk = true)
    (c' t1 : Nat) (hc : c' ≠ c) (ep' : Ep κ) (hk : ep'.key = ep.key) (hv : ep'.valid = true)
    (o' : Tr → Except Err α) :
    (query cfg (run cfg st1 ops) c' t1 ep' o').2 = ([], .ok d) := by
  have h0 := holds_after_store cfg st st1 c t0 ep o tr d hq hnet hoth
  have h1 := holds_run cfg c ep.key d (t0 + ep.ttl) ops st1 h0 hquiet
  exact (holds_query cfg _ c c' ep.key d _ t1 ep' o' h1 (Or.inr (Or.inl hc))).2 hk hv (Or.inr hdisk)

/-- hypothesis `hoth` of the two theorems above is necessary (replayed on the real code by
corpus/C13/fresh-entry-dropped-by-other-client.case): client 1 stores at 0 (ttl 10); the file is
corrupted; client 0 refetches at 20 and stores document 2 (valid until 30); at 25 client 1's own
expired index entry makes it delete the fresh file and contact the network. -/
theorem cache_hit_other_client_needs_hoth_counterexample :
    let ep : Ep Nat := { key := 0, valid := true, tcpOnly := false, ttl := 10 }
    let cfg : Config := ⟨true, true⟩
    let s1 : CState Nat Nat := (query cfg (CState.empty true) 1 0 ep (fun _ => .ok 1)).1
    let s2 := (corrupt s1 0).1
    let r := query cfg s2 0 20 ep (fun _ => .ok 2)
    r.2 = ([Tr.https], .ok 2) ∧
    (query cfg r.1 1 25 ep (fun _ => .ok 3)).2 = ([Tr.https], .ok 3) := by decide

/-- `ttl_end_refetch`, full statement (FALSE of the tree, see the counter-witness):
    for every client c' on the cache, a query on the endpoint at t1 ≥ t0 + ttl contacts a transport.
`_partial`: it holds for the client that stored the answer (same hypotheses as
`cache_hit_no_traffic`). -/
theorem ttl_end_refetch_partial (cfg : Config) (st st1 : CState κ α) (c t0 : Nat) (ep : Ep κ)
    (o : Tr → Except Err α) (tr : List Tr) (d : α)
    (hq : query cfg st c t0 ep o = (st1, tr, .ok d)) (hnet : tr ≠ [])
    (hoth : ∀ c', c' ≠ c → alookup st.idx (c', ep.key) = none ∨ alookup st.idx (c', ep.key) = some none)
    (ops : List (Op κ α)) (hquiet : ∀ op ∈ ops, Quiet c ep.key (t0 + ep.ttl) op)
    (t1 : Nat) (ht : t0 + ep.ttl ≤ t1) (ep' : Ep κ) (hk : ep'.key = ep.key) (hv : ep'.valid = true)
    (o' : Tr → Except Err α) :
    (query cfg (run cfg st1 ops) c t1 ep' o').2.1 ≠ [] := by
  have h0 := holds_after_store cfg st st1 c t0 ep o tr d hq hnet hoth
  have h1 := holds_run cfg c ep.key d (t0 + ep.ttl) ops st1 h0 hquiet
  have hg := holds_get_expired _ c ep.key d _ t1 h1 ht
  rcases query_exits cfg (run cfg st1 ops) c t1 ep' o' with ⟨hv', _⟩ | ⟨_, e', he, _⟩ | ⟨_, d', hd', _⟩ |
      ⟨_, _, ⟨e', _, hx⟩ | ⟨d', _, hx⟩⟩
  · rw [hv] at hv'; cases hv'
  · rw [hk, hg] at he; cases he
  · rw [hk, hg] at hd'; cases hd'
  · rw [hx]; exact net_trace_ne_nil cfg ep' o'
  · rw [hx]; exact net_trace_ne_nil cfg ep' o'

/-- counter-witness to the full `ttl_end_refetch` (replayed on the real code by
corpus/C13/ttl-lost-second-client.case): client 0 stores at t=0 with ttl 10; client 1, created
on the same directory, looks at t=5; at t=1000 client 1 is still served the old document and no
transport is contacted although they would now answer document 2. -/
theorem ttl_end_refetch_counterexample :
    let ep : Ep Nat := { key := 0, valid := true, tcpOnly := false, ttl := 10 }
    let cfg : Config := ⟨true, true⟩
    let s1 : CState Nat Nat := (query cfg (CState.empty true) 0 0 ep (fun _ => .ok 1)).1
    let s2 := (query cfg s1 1 5 ep (fun _ => .ok 1)).1
    (query cfg s2 1 1000 ep (fun _ => .ok 2)).2 = ([], .ok 1) := by decide

/-- `failures_never_cached`: a query that returns an error leaves in the cache (files of the
directory, memory entries of every client) only blobs that were there before. -/
theorem failures_never_cached (cfg : Config) (st st1 : CState κ α) (c now : Nat) (ep : Ep κ)
    (o : Tr → Except Err α) (tr : List Tr) (e : Err)
    (hq : query cfg st c now ep o = (st1, tr, .error e)) :
    (∀ k b, alookup st1.files k = some b → alookup st.files k = some b) ∧
    (∀ ck v, alookup st1.mem ck = some v → alookup st.mem ck = some v) := by
  have hg := cacheGet_no_new st c ep.key now
  rcases query_exits cfg st c now ep o with ⟨_, hx⟩ | ⟨_, e', _, hx⟩ | ⟨_, d', _, hx⟩ |
      ⟨_, _, ⟨e', _, hx⟩ | ⟨d', _, hx⟩⟩
  all_goals rw [hx] at hq
  all_goals simp only [Prod.mk.injEq] at hq
  · rw [← hq.1]; exact ⟨fun _ _ h => h, fun _ _ h => h⟩
  · rw [← hq.1]; exact hg
  · cases hq.2.2
  · rw [← hq.1]; exact hg
  · cases hq.2.2

/-- `only_good_answers_cached`, over all histories: if every document in the initial cache
satisfies `P` and every document any transport ever returns as a success satisfies `P`, then
after any history every cached document satisfies `P`. (With `P` = "came out of a successful,
well-formed transport answer": nothing else is ever in the cache.) -/
theorem only_good_answers_cached (P : α → Prop) (cfg : Config) :
    ∀ (ops : List (Op κ α)) (st : CState κ α), AllDocs P st →
      (∀ op ∈ ops, match op with
        | .query _ _ _ o => ∀ t d, o t = .ok d → P d
        | .corrupt _ => True) →
      AllDocs P (run cfg st ops) := by
  intro ops
  induction ops with
  | nil => intro st h _; exact h
  | cons op rest ih =>
    intro st h hops
    have hop := hops op (by simp)
    have hstep : AllDocs P (step cfg st op) := by
      cases op with
      | corrupt k => exact allDocs_corrupt P st k h
      | query c now ep o =>
        simp only at hop
        have hg := allDocs_get P st c ep.key now h
        simp only [step]
        rcases query_exits cfg st c now ep o with ⟨_, hx⟩ | ⟨_, e', _, hx⟩ | ⟨_, d', _, hx⟩ |
            ⟨_, _, ⟨e', _, hx⟩ | ⟨d', hd', hx⟩⟩
        all_goals rw [hx]
        · exact h
        · exact hg
        · exact hg
        · exact hg
        · obtain ⟨t, ht⟩ := net_ok_from_transport cfg ep o d' hd'
          exact allDocs_put P _ c ep.key d' _ hg (hop t d' ht)
    simpa [run] using ih (step cfg st op) hstep (fun x hx => hops x (by simp [hx]))

/-- and every answer a query returns satisfies `P` under the same assumptions. -/
theorem answers_are_good (P : α → Prop) (cfg : Config) (st : CState κ α) (h : AllDocs P st)
    (c now : Nat) (ep : Ep κ) (o : Tr → Except Err α) (ho : ∀ t d, o t = .ok d → P d) (d : α)
    (hq : (query cfg st c now ep o).2.2 = .ok d) : P d := by
  rcases query_exits cfg st c now ep o with ⟨_, hx⟩ | ⟨_, e', _, hx⟩ | ⟨_, d', hd', hx⟩ |
      ⟨_, _, ⟨e', _, hx⟩ | ⟨d', hd', hx⟩⟩
  all_goals rw [hx] at hq
  all_goals simp only at hq
  · cases hq
  · cases hq
  · cases hq
    rcases cacheGet_hit_in st c ep.key now d hd' with hf | ⟨e, hm⟩
    · exact h.1 _ _ hf
    · exact h.2 _ _ _ hm
  · cases hq
  · cases hq
    obtain ⟨t, ht⟩ := net_ok_from_transport cfg ep o d hd'
    exact ho t d ht

/-- `malformed_never_cached`: when TACT HTTPS answers 200 with a body that does not parse, the
query (cold or junk cache entry, normal endpoint, HTTPS configured) contacts HTTPS only, fails
with `Parse`, and by `failures_never_cached` stores nothing. -/
theorem malformed_never_cached (cfg : Config) (st : CState κ α) (c now : Nat) (ep : Ep κ)
    (o : Tr → Except Err α) (hv : ep.valid = true) (htcp : ep.tcpOnly = false)
    (hon : cfg.httpsOn = true) (hbad : o .https = tactClassify 200 none)
    (hmiss : (cacheGet st c ep.key now).2 = .ok none ∨ (cacheGet st c ep.key now).2 = .ok (some .junk)) :
    query cfg st c now ep o = ((cacheGet st c ep.key now).1, [Tr.https], .error .parse) := by
  have hn : net cfg ep o = ([Tr.https], .error .parse) := by
    simp [net, htcp, queryWithFallback, hon, hbad, tactClassify, shouldRetry]
  rcases query_exits cfg st c now ep o with ⟨hv', _⟩ | ⟨_, e', he, _⟩ | ⟨_, d', hd', _⟩ |
      ⟨_, _, ⟨e', he, hx⟩ | ⟨d', hd, _⟩⟩
  · rw [hv] at hv'; cases hv'
  · rcases hmiss with h | h <;> rw [h] at he <;> cases he
  · rcases hmiss with h | h <;> rw [h] at hd' <;> cases hd'
  · rw [hx, hn]; rw [hn] at he; cases he; rfl
  · rw [hn] at hd; cases hd

/-- `fails_only_if_protocol_fails`, full statement (FALSE of the tree, see the counter-witness):
    a query on a valid endpoint returns an error only if the network was used and failed.
`_partial`: an error is an invalid endpoint, a cache read error, or the network's failure — and
a cache read error needs a cache directory. -/
theorem fails_only_if_protocol_fails_partial (cfg : Config) (st : CState κ α) (c now : Nat)
    (ep : Ep κ) (o : Tr → Except Err α) (e : Err)
    (hq : (query cfg st c now ep o).2.2 = .error e) :
    (ep.valid = false ∧ e = .invalidEndpoint) ∨
    (st.disk = true ∧ (cacheGet st c ep.key now).2 = .error e ∧ (query cfg st c now ep o).2.1 = []) ∨
    ((net cfg ep o).2 = .error e ∧ (query cfg st c now ep o).2.1 = (net cfg ep o).1) := by
  rcases query_exits cfg st c now ep o with ⟨hv, hx⟩ | ⟨_, e', he, hx⟩ | ⟨_, d', _, hx⟩ |
      ⟨_, _, ⟨e', he, hx⟩ | ⟨d', _, hx⟩⟩
  all_goals rw [hx] at hq ⊢
  all_goals simp only at hq
  · cases hq; exact Or.inl ⟨hv, rfl⟩
  · cases hq
    refine Or.inr (Or.inl ⟨?_, he, rfl⟩)
    cases hd : st.disk with
    | true => rfl
    | false =>
      exfalso
      obtain ⟨disk, files, idx, mem⟩ := st
      simp only at hd; subst hd
      unfold cacheGet at he
      simp only [Bool.false_eq_true, if_false] at he
      repeat' split at he
      all_goals cases he
  · cases hq
  · cases hq; exact Or.inr (Or.inr ⟨he, rfl⟩)
  · cases hq

/-- counter-witness to the full `fails_only_if_protocol_fails` (replayed on the real code by
corpus/C13/cache-error-second-client.case): client 0 stores at 0 (ttl 10); client 1 looks at 5
and adopts the file; at 20 client 0 finds its entry expired, deletes the file, and all
protocols are down; at 21 every protocol would answer, but client 1's query fails with a cache
error without contacting any of them. -/
theorem fails_only_if_protocol_fails_counterexample :
    let ep : Ep Nat := { key := 0, valid := true, tcpOnly := false, ttl := 10 }
    let cfg : Config := ⟨true, true⟩
    let s1 : CState Nat Nat := (query cfg (CState.empty true) 0 0 ep (fun _ => .ok 1)).1
    let s2 := (query cfg s1 1 5 ep (fun _ => .ok 1)).1
    let s3 := (query cfg s2 0 20 ep (fun _ => .error .serviceUnavailable)).1
    (query cfg s3 1 21 ep (fun _ => .ok 2)).2 = ([], .error .cache) := by decide

/-! ### the TCP read loop and the packet split -/

/-- `split_independent`, full statement (FALSE of the tree):
    ∀ segs, readLoop segs = readLoop [segs.flatten].
Counter-witness (replayed by corpus/C13/tcp-split-interior-blank.case): the 13-byte V2 body
"a!DEC:1\n1\n\n2\n" arrives whole → 13 bytes; the first segment ends at the blank line → 11. -/
theorem split_independent_counterexample :
    readLoop [[97,33,68,69,67,58,49,10,49,10,10], [50,10]] ≠
      readLoop [[97,33,68,69,67,58,49,10,49,10,10,50,10]] := by decide

/-- `split_independent_partial`, for ANY end-of-response test and size limit: if no interior
segment boundary looks like an end of response, every split of the byte string into non-empty
reads yields what a single read yields: the whole string. -/
theorem split_independent_partial (stop : List Nat → Bool) (limit : Nat) (segs : List (List Nat))
    (hne : ∀ s ∈ segs, s ≠ []) (hno : NoEarlyStop stop [] segs) (hlen : segs.flatten.length ≤ limit) :
    readLoopG stop limit [] segs = readLoopG stop limit [] [segs.flatten] ∧
      readLoopG stop limit [] segs = .ok segs.flatten := by
  have h1 := readLoopG_all stop limit segs [] hne hno (by simpa using hlen)
  have h2 := readLoopG_single stop limit segs.flatten hlen
  simp only [List.nil_append] at h1
  exact ⟨by rw [h1, h2], h1⟩

/-- consequence for V2 responses: if no proper non-empty prefix of the response ends with a
blank line, the result does not depend on the split — for every split. -/
theorem split_independent_no_interior_blank (segs : List (List Nat)) (hne : ∀ s ∈ segs, s ≠ [])
    (hlen : segs.flatten.length ≤ limitBytes)
    (hblank : ∀ n, 0 < n → n < segs.flatten.length → endsNN (segs.flatten.take n) = false) :
    readLoop segs = readLoop [segs.flatten] := by
  refine (split_independent_partial stopV2 limitBytes segs hne ?_ hlen).1
  intro k hk0 hk
  have h1 := take_flatten_length_lt segs hne k hk
  have h2 := take_flatten_length_pos segs hne k hk0 hk
  have := hblank _ h2 h1
  rw [← take_flatten_eq] at this
  simp [stopV2, this]

/-- consequence for V1 MIME responses: if the first segment is already recognised as MIME, the
result does not depend on how the rest is split (detection is monotone in the buffer). -/
theorem split_independent_mime_first_segment (s : List Nat) (rest : List (List Nat))
    (hs : s ≠ []) (hne : ∀ x ∈ rest, x ≠ []) (hlen : (s :: rest).flatten.length ≤ limitBytes)
    (hmime : isV1Mime s = true) :
    readLoop (s :: rest) = readLoop [(s :: rest).flatten] := by
  refine (split_independent_partial stopV2 limitBytes (s :: rest) ?_ ?_ hlen).1
  · intro x hx; simp at hx; rcases hx with rfl | hx; exact hs; exact hne x hx
  · intro k hk0 _
    obtain ⟨k', rfl⟩ : ∃ k', k = k' + 1 := ⟨k - 1, by omega⟩
    have : isV1Mime (s ++ (rest.take k').flatten) = true := isV1Mime_append s _ hmime
    simp [stopV2, List.take_succ_cons, this]

/-- what the loop returns in general: the bytes up to the first segment boundary at which the
buffer ends with a blank line and is not recognised as MIME. -/
theorem read_loop_stops_at_first_boundary (segs : List (List Nat)) (k : Nat)
    (hne : ∀ s ∈ segs, s ≠ []) (hk0 : 0 < k) (hk : k ≤ segs.length)
    (hno : ∀ j, 0 < j → j < k → stopV2 ((segs.take j).flatten) = false)
    (hstop : stopV2 ((segs.take k).flatten) = true)
    (hlen : ∀ j, j < k → ((segs.take j).flatten).length ≤ limitBytes) :
    readLoop segs = .ok ((segs.take k).flatten) := by
  have := readLoopG_stops stopV2 limitBytes segs [] k hne hk0 hk
    (by simpa using hno) (by simpa using hstop) (by simpa using hlen)
  simpa [readLoop] using this

/-! ### endpoint classes -/

/-- `determine_ttl`: "versions"/"bgdl" anywhere in the endpoint → the Ribbit TTL; else "cdns" →
the CDN TTL; else the config TTL. -/
theorem determine_ttl_cases (t : Ttls) (s : List Nat) :
    ((Model.Fallback.containsSub sVersions s || Model.Fallback.containsSub sBgdl s) = true → determineTtl t s = t.ribbit) ∧
    ((Model.Fallback.containsSub sVersions s || Model.Fallback.containsSub sBgdl s) = false → Model.Fallback.containsSub sCdns s = true →
        determineTtl t s = t.cdn) ∧
    ((Model.Fallback.containsSub sVersions s || Model.Fallback.containsSub sBgdl s) = false → Model.Fallback.containsSub sCdns s = false →
        determineTtl t s = t.config) := by
  refine ⟨fun h => ?_, fun h1 h2 => ?_, fun h1 h2 => ?_⟩
  · simp only [determineTtl, h, if_true]
  · simp only [determineTtl, h1, h2, if_true, Bool.false_eq_true, if_false]
  · simp only [determineTtl, h1, h2, Bool.false_eq_true, if_false]

/-- the five endpoint classes of the quantifier (product "wow"): TTL class, TCP-only rule,
validity, evaluated on the model's string functions. -/
theorem endpoint_classes (t : Ttls) :
    -- "v1/products/wow/versions", ".../bgdl" → ribbit TTL, fallback chain
    (classifyEp t [118,49,47,112,114,111,100,117,99,116,115,47,119,111,119,47,118,101,114,115,105,111,110,115]).ttl = t.ribbit ∧
    (classifyEp t [118,49,47,112,114,111,100,117,99,116,115,47,119,111,119,47,98,103,100,108]).ttl = t.ribbit ∧
    -- ".../cdns" → cdn TTL
    (classifyEp t [118,49,47,112,114,111,100,117,99,116,115,47,119,111,119,47,99,100,110,115]).ttl = t.cdn ∧
    (classifyEp t [118,49,47,112,114,111,100,117,99,116,115,47,119,111,119,47,99,100,110,115]).tcpOnly = false ∧
    -- "v1/summary", "v1/certs/ab" → config TTL, TCP only
    (classifyEp t [118,49,47,115,117,109,109,97,114,121]).ttl = t.config ∧
    (classifyEp t [118,49,47,115,117,109,109,97,114,121]).tcpOnly = true ∧
    (classifyEp t [118,49,47,99,101,114,116,115,47,97,98]).tcpOnly = true ∧
    (classifyEp t [118,49,47,99,101,114,116,115,47,97,98]).valid = true := by
  refine ⟨?_, ?_, ?_, ?_, ?_, ?_, ?_, ?_⟩
  · simp only [classifyEp]; apply (determine_ttl_cases t _).1; decide
  · simp only [classifyEp]; apply (determine_ttl_cases t _).1; decide
  · simp only [classifyEp]; apply (determine_ttl_cases t _).2.1 <;> decide
  · simp only [classifyEp]; decide
  · simp only [classifyEp]; apply (determine_ttl_cases t _).2.2 <;> decide
  · simp only [classifyEp]; decide
  · simp only [classifyEp]; decide
  · simp only [classifyEp]; decide


/-! ## Extension 1 — `CdnClient::download`: cache, then fetch, then store -/

section cdn
variable {κ : Type} [DecidableEq κ]

/-- `download_cached_no_traffic`. After a download by client `c` that went to the network and
succeeded with `v` (looked up at `t0`, stored at `tS ≥ t0` after any retries), and whatever
happens in between — version-service queries and downloads on other keys by anybody, on this key
by other clients (old or newly created) at any time, on this key by `c` before `tS + ttl`,
corruption of other files — a download of the object by `c` at any `t1 < tS + ttl` returns `v`
and sends no request, whatever the network would answer. (`hoth` as in `cache_hit_no_traffic`.) -/
theorem download_cached_no_traffic (cfg : Config) (A : Arith) (jit : Nat → Nat → Nat) (junk : Nat)
    (st st1 : CState κ Nat) (c t0 tS : Nat) (ob : Obj κ) (outs : List Outcome) (n v : Nat)
    (hq : download A jit junk st c t0 tS ob outs = (st1, n, .ok v)) (hnet : n ≠ 0)
    (hoth : ∀ c', c' ≠ c → alookup st.idx (c', ob.key) = none ∨ alookup st.idx (c', ob.key) = some none)
    (ops : List (DOp κ)) (hquiet : ∀ op ∈ ops, DQuiet c ob.key (tS + ob.ttl) op)
    (t1 tS' : Nat) (ht : t1 < tS + ob.ttl) (ob' : Obj κ) (hk : ob'.key = ob.key) (hv : ob'.keyOk = true)
    (outs' : List Outcome) :
    (download A jit junk (drun cfg A jit junk st1 ops) c t1 tS' ob' outs').2 = (0, .ok v) := by
  have h0 := holds_after_download A jit junk st st1 c t0 tS ob outs n v hq hnet hoth
  have h1 := holds_drun cfg A jit junk c ob.key v (tS + ob.ttl) ops st1 h0 hquiet
  exact (holds_download A jit junk _ c c ob.key v _ t1 tS' ob' outs' h1 (Or.inr (Or.inr ht))).2 hk hv (Or.inl rfl)

/-- with a cache directory ANY other client on the directory (in particular a newly created one)
is served the stored object without a request as well. -/
theorem download_cached_other_client_disk (cfg : Config) (A : Arith) (jit : Nat → Nat → Nat) (junk : Nat)
    (st st1 : CState κ Nat) (c t0 tS : Nat) (ob : Obj κ) (outs : List Outcome) (n v : Nat)
    (hq : download A jit junk st c t0 tS ob outs = (st1, n, .ok v)) (hnet : n ≠ 0)
    (hoth : ∀ c', c' ≠ c → alookup st.idx (c', ob.key) = none ∨ alookup st.idx (c', ob.key) = some none)
    (ops : List (DOp κ)) (hquiet : ∀ op ∈ ops, DQuiet c ob.key (tS + ob.ttl) op)
    (hdisk : (drun cfg A jit junk st1 ops).disk = true)
    (c' t1 tS' : Nat) (hc : c' ≠ c) (ob' : Obj κ) (hk : ob'.key = ob.key) (hv : ob'.keyOk = true)
    (outs' : List Outcome) :
    (download A jit junk (drun cfg A jit junk st1 ops) c' t1 tS' ob' outs').2 = (0, .ok v) := by
  have h0 := holds_after_download A jit junk st st1 c t0 tS ob outs n v hq hnet hoth
  have h1 := holds_drun cfg A jit junk c ob.key v (tS + ob.ttl) ops st1 h0 hquiet
  exact (holds_download A jit junk _ c c' ob.key v _ t1 tS' ob' outs' h1 (Or.inr (Or.inl hc))).2 hk hv (Or.inr hdisk)

/-- the same for a version-service answer: a download history in between does not disturb
`cache_hit_no_traffic` (joint histories; documents identified by naturals). -/
theorem cache_hit_no_traffic_joint (cfg : Config) (A : Arith) (jit : Nat → Nat → Nat) (junk : Nat)
    (st st1 : CState κ Nat) (c t0 : Nat) (ep : Ep κ) (o : Tr → Except Err Nat) (tr : List Tr) (d : Nat)
    (hq : query cfg st c t0 ep o = (st1, tr, .ok d)) (hnet : tr ≠ [])
    (hoth : ∀ c', c' ≠ c → alookup st.idx (c', ep.key) = none ∨ alookup st.idx (c', ep.key) = some none)
    (ops : List (DOp κ)) (hquiet : ∀ op ∈ ops, DQuiet c ep.key (t0 + ep.ttl) op)
    (t1 : Nat) (ht : t1 < t0 + ep.ttl) (ep' : Ep κ) (hk : ep'.key = ep.key) (hv : ep'.valid = true)
    (o' : Tr → Except Err Nat) :
    (query cfg (drun cfg A jit junk st1 ops) c t1 ep' o').2 = ([], .ok d) := by
  have h0 := holds_after_store cfg st st1 c t0 ep o tr d hq hnet hoth
  have h1 := holds_drun cfg A jit junk c ep.key d (t0 + ep.ttl) ops st1 h0 hquiet
  exact (holds_query cfg _ c c ep.key d _ t1 ep' o' h1 (Or.inr (Or.inr ht))).2 hk hv (Or.inl rfl)

/-- `download_ttl_end`: at or after `tS + ttl` the client that stored the object goes back to the
network: the requests sent are those of the retry loop on what the network answers now. (For
another client on the directory the finding `cache-ttl-lost-new-client` applies unchanged: same
`cacheGet`.) -/
theorem download_ttl_end_refetch_partial (cfg : Config) (A : Arith) (jit : Nat → Nat → Nat) (junk : Nat)
    (st st1 : CState κ Nat) (c t0 tS : Nat) (ob : Obj κ) (outs : List Outcome) (n v : Nat)
    (hq : download A jit junk st c t0 tS ob outs = (st1, n, .ok v)) (hnet : n ≠ 0)
    (hoth : ∀ c', c' ≠ c → alookup st.idx (c', ob.key) = none ∨ alookup st.idx (c', ob.key) = some none)
    (ops : List (DOp κ)) (hquiet : ∀ op ∈ ops, DQuiet c ob.key (tS + ob.ttl) op)
    (t1 tS' : Nat) (ht : tS + ob.ttl ≤ t1) (ob' : Obj κ) (hk : ob'.key = ob.key) (hv : ob'.keyOk = true)
    (outs' : List Outcome) :
    (download A jit junk (drun cfg A jit junk st1 ops) c t1 tS' ob' outs').2.1 =
      (execute A defaultPolicy jit outs').calls := by
  have h0 := holds_after_download A jit junk st st1 c t0 tS ob outs n v hq hnet hoth
  have h1 := holds_drun cfg A jit junk c ob.key v (tS + ob.ttl) ops st1 h0 hquiet
  have hg := holds_get_expired _ c ob.key v _ t1 h1 ht
  rcases download_exits A jit junk (drun cfg A jit junk st1 ops) c t1 tS' ob' outs' with
    ⟨hv', _⟩ | ⟨_, e', he, _⟩ | ⟨_, d', hd', _⟩ | ⟨_, hj, _⟩ | ⟨_, _, ⟨v', _, hx⟩ | ⟨_, hx⟩⟩
  · rw [hv] at hv'; cases hv'
  · rw [hk, hg] at he; cases he
  · rw [hk, hg] at hd'; cases hd'
  · rw [hk, hg] at hj; cases hj
  · rw [hx]
  · rw [hx]

/-- `download_failed_never_stored`: a download that does not return bytes leaves in the cache
(files of the directory, memory entries of every client) only blobs that were there before. -/
theorem download_failed_never_stored (A : Arith) (jit : Nat → Nat → Nat) (junk : Nat)
    (st st1 : CState κ Nat) (c now tS : Nat) (ob : Obj κ) (outs : List Outcome) (n : Nat) (r : Result)
    (hq : download A jit junk st c now tS ob outs = (st1, n, r)) (hr : ∀ v, r ≠ .ok v) :
    (∀ k b, alookup st1.files k = some b → alookup st.files k = some b) ∧
    (∀ ck x, alookup st1.mem ck = some x → alookup st.mem ck = some x) := by
  have hg := cacheGet_no_new st c ob.key now
  rcases download_exits A jit junk st c now tS ob outs with ⟨_, hx⟩ | ⟨_, e', _, hx⟩ |
    ⟨_, d', _, hx⟩ | ⟨_, _, hx⟩ | ⟨_, _, ⟨v, _, hx⟩ | ⟨_, hx⟩⟩
  all_goals rw [hx] at hq
  all_goals simp only [Prod.mk.injEq] at hq
  · rw [← hq.1]; exact ⟨fun _ _ h => h, fun _ _ h => h⟩
  · rw [← hq.1]; exact hg
  · exact absurd hq.2.2.symm (hr d')
  · exact absurd hq.2.2.symm (hr junk)
  · exact absurd hq.2.2.symm (hr v)
  · rw [← hq.1]; exact hg

/-- `download_non2xx_never_stored`: when every request of the call ends in a transport failure or
a non-2xx response, the call does not return bytes unless they were cached before, the cache
state is the one the lookup left, and (by the theorem above) nothing new is in it. -/
theorem download_non2xx_never_stored (A : Arith) (jit : Nat → Nat → Nat) (junk : Nat)
    (st : CState κ Nat) (c now tS : Nat) (ob : Obj κ) (outs : List Outcome)
    (hbad : ∀ o ∈ outs, (∃ e, o = .err e) ∨
      ∃ status ra k, ¬ (200 ≤ status ∧ status < 300) ∧ o = classifyStatus status ra k)
    (hmiss : (cacheGet st c ob.key now).2 = .ok none) (hv : ob.keyOk = true) :
    download A jit junk st c now tS ob outs =
      ((cacheGet st c ob.key now).1, (execute A defaultPolicy jit outs).calls,
        (execute A defaultPolicy jit outs).result) ∧
    ∀ v, (execute A defaultPolicy jit outs).result ≠ .ok v := by
  have hno : ∀ v, (execute A defaultPolicy jit outs).result ≠ .ok v := by
    intro v hv'
    obtain ⟨pre, post, ho, _, _⟩ := execute_ok_decomp A defaultPolicy jit outs v hv'
    have hmem : Outcome.ok v ∈ outs := by rw [ho]; simp
    rcases hbad _ hmem with ⟨e, he⟩ | ⟨status, ra, k, h2, he⟩
    · cases he
    · obtain ⟨e, he', _⟩ := Cascette.Proofs.Retry.classify_retry_iff status ra k h2
      rw [he'] at he; cases he
  refine ⟨?_, hno⟩
  rcases download_exits A jit junk st c now tS ob outs with ⟨hv', _⟩ | ⟨_, e', he, _⟩ |
    ⟨_, d', hd', _⟩ | ⟨_, hj, _⟩ | ⟨_, _, ⟨v, hok, _⟩ | ⟨_, hx⟩⟩
  · rw [hv] at hv'; cases hv'
  · rw [hmiss] at he; cases he
  · rw [hmiss] at hd'; cases hd'
  · rw [hmiss] at hj; cases hj
  · exact absurd hok (hno v)
  · exact hx

/-- `download_stores_what_was_fetched`: a download that used the network and returned `v` sent
exactly the requests up to the first success of the script, every earlier one having failed
retryably; `v` is the body of that response; and from then until `tS + ttl` the client's cache
answers the object's key with exactly `v`. -/
theorem download_stores_what_was_fetched (A : Arith) (jit : Nat → Nat → Nat) (junk : Nat)
    (st st1 : CState κ Nat) (c now tS : Nat) (ob : Obj κ) (outs : List Outcome) (n v : Nat)
    (hq : download A jit junk st c now tS ob outs = (st1, n, .ok v)) (hnet : n ≠ 0)
    (hoth : ∀ c', c' ≠ c → alookup st.idx (c', ob.key) = none ∨ alookup st.idx (c', ob.key) = some none) :
    (∃ pre post, outs = pre ++ .ok v :: post ∧ (∀ o ∈ pre, Retryable o) ∧ n = pre.length + 1) ∧
    ∀ t1, t1 < tS + ob.ttl → cacheGet st1 c ob.key t1 = (st1, .ok (some (.doc v))) := by
  refine ⟨?_, fun t1 ht => holds_get_self st1 c ob.key v _ t1
    (holds_after_download A jit junk st st1 c now tS ob outs n v hq hnet hoth) ht⟩
  rcases download_exits A jit junk st c now tS ob outs with ⟨_, hx⟩ | ⟨_, e', _, hx⟩ |
    ⟨_, d', _, hx⟩ | ⟨_, _, hx⟩ | ⟨_, _, ⟨v', hok, hx⟩ | ⟨hno, hx⟩⟩
  all_goals rw [hx] at hq
  all_goals simp only [Prod.mk.injEq] at hq
  · exact absurd hq.2.1.symm hnet
  · exact absurd hq.2.1.symm hnet
  · exact absurd hq.2.1.symm hnet
  · exact absurd hq.2.1.symm hnet
  · obtain ⟨_, h2, h3⟩ := hq
    simp only [Result.ok.injEq] at h3; subst h3
    obtain ⟨pre, post, ho, hp, hc⟩ := execute_ok_decomp A defaultPolicy jit outs v' hok
    exact ⟨pre, post, ho, hp, by rw [← h2]; exact hc⟩
  · exact absurd hq.2.2 (hno v)

/-- what `download` returns was in the cache (a blob or an outside writer's junk) or is the body
of a successful response of this call. -/
theorem download_returns_cached_or_fetched (A : Arith) (jit : Nat → Nat → Nat) (junk : Nat)
    (st : CState κ Nat) (c now tS : Nat) (ob : Obj κ) (outs : List Outcome) (v : Nat)
    (hq : (download A jit junk st c now tS ob outs).2.2 = .ok v) :
    (alookup st.files ob.key = some (.doc v) ∨ ∃ e, alookup st.mem (c, ob.key) = some (.doc v, e)) ∨
    v = junk ∨ Outcome.ok v ∈ outs := by
  rcases download_exits A jit junk st c now tS ob outs with ⟨_, hx⟩ | ⟨_, e', _, hx⟩ |
    ⟨_, d', hd', hx⟩ | ⟨_, _, hx⟩ | ⟨_, _, ⟨v', hok, hx⟩ | ⟨hno, hx⟩⟩
  all_goals rw [hx] at hq
  all_goals simp only at hq
  · cases hq
  · cases hq
  · cases hq; exact Or.inl (cacheGet_hit_in st c ob.key now v hd')
  · cases hq; exact Or.inr (Or.inl rfl)
  · cases hq
    obtain ⟨pre, post, ho, _, _⟩ := execute_ok_decomp A defaultPolicy jit outs v hok
    exact Or.inr (Or.inr (by rw [ho]; simp))
  · exact absurd hq (hno v)

/-- `only_fetched_bodies_cached`, over all joint histories: if every content in the initial cache
satisfies `P`, and so does every document a version-service transport returns as a success and
every body of a successful CDN response, then after any history every cached content does. -/
theorem only_fetched_bodies_cached (P : Nat → Prop) (cfg : Config) (A : Arith) (jit : Nat → Nat → Nat)
    (junk : Nat) :
    ∀ (ops : List (DOp κ)) (st : CState κ Nat), AllDocs P st →
      (∀ op ∈ ops, match op with
        | .query _ _ _ o => ∀ t d, o t = .ok d → P d
        | .corrupt _ => True
        | .download _ _ _ _ outs => ∀ v, Outcome.ok v ∈ outs → P v) →
      AllDocs P (drun cfg A jit junk st ops) := by
  intro ops
  induction ops with
  | nil => intro st h _; exact h
  | cons op rest ih =>
    intro st h hops
    have hop := hops op (by simp)
    have hstep : AllDocs P (dstep cfg A jit junk st op) := by
      cases op with
      | corrupt k => exact allDocs_corrupt P st k h
      | download c now tS ob outs => exact allDocs_download P A jit junk st c now tS ob outs h hop
      | query c now ep o =>
        have := only_good_answers_cached P cfg [Op.query c now ep o] st h
          (by intro op' hop'; simp only [List.mem_singleton] at hop'; subst hop'; exact hop)
        simpa [run, step, dstep] using this
    simpa [drun] using ih (dstep cfg A jit junk st op) hstep (fun x hx => hops x (by simp [hx]))

end cdn

/-- the TTL `store_bytes` gives a CDN object is the CDN TTL, for every path, content type and key
(after fix 92464f6) … -/
theorem cdn_object_ttl (t : CdnTtls) (path : List Nat) (ct : Ct) (key : List Nat) :
    (classifyObj t path ct key).ttl = t.cdn := by
  simp [classifyObj, ttlForKey, cacheKey, sRibbitColon, sCdnColon, sCdnSlash, List.isPrefixOf]

/-- … whereas `get_ttl_for_key` of the pinned tree gave every CDN object the config TTL (the
defect; replayed by corpus/C13/cdn-object-ttl.case, which must now pass). -/
theorem cdn_object_ttl_pinned_was_config (t : CdnTtls) (path : List Nat) (ct : Ct) (key : List Nat) :
    ttlForKeyPinned t (cacheKey path ct key) = t.config := by
  simp [ttlForKeyPinned, cacheKey, sRibbitColon, sCdnColon, List.isPrefixOf]

/-- CDN cache keys never collide with the keys of version-service answers (`api/ribbit/…`). -/
theorem cdn_keys_disjoint_from_answers (path : List Nat) (ct : Ct) (key ep : List Nat) :
    cacheKey path ct key ≠ [97,112,105,47,114,105,98,98,105,116,47] ++ ep := by
  simp [cacheKey]

theorem trimSlashes_snoc_slash (p : List Nat) : trimSlashes (p ++ [47]) = trimSlashes p := by
  induction p with
  | nil => simp [trimSlashes]
  | cons c cs ih => simp [trimSlashes, ih]

/-- `normalize_cdn_path`: a trailing slash on the endpoint path names the same cache entry and
the same URL. -/
theorem cdn_key_ignores_trailing_slash (path : List Nat) (ct : Ct) (key : List Nat) :
    cacheKey (path ++ [47]) ct key = cacheKey path ct key ∧
    urlPath (path ++ [47]) ct key = urlPath path ct key := by
  simp [cacheKey, urlPath, objPath, trimSlashes_snoc_slash]

theorem hexEncode_length (l : List Nat) : (hexEncode l).length = 2 * l.length := by
  induction l with
  | nil => rfl
  | cons b bs ih => simp only [hexEncode, List.length_cons, ih]; omega

/-- `check_key` is what makes the slices `hex_key[..2]`, `hex_key[2..4]` safe: an accepted key
has at least four hex digits; a rejected one never reaches the cache or the network. -/
theorem cdn_check_key_guards (t : CdnTtls) (path : List Nat) (ct : Ct) (key : List Nat) :
    ((classifyObj t path ct key).keyOk = true → 4 ≤ (hexEncode key).length) ∧
    ((classifyObj t path ct key).keyOk = false →
      ∀ (A : Arith) (jit : Nat → Nat → Nat) (junk : Nat) (st : CState (List Nat) Nat) (c now tS : Nat)
        (outs : List Outcome),
        download A jit junk st c now tS (classifyObj t path ct key) outs = (st, 0, .err .invalidKey)) := by
  constructor
  · intro h
    simp only [classifyObj, decide_eq_true_eq] at h
    rw [hexEncode_length]; omega
  · intro h A jit junk st c now tS outs
    simp [download, h]

/-! ## Extension 2 — the `reqwest::Error` predicates `should_retry` asks -/

/-- `http_class_exact`: for every combination of the five predicates the code asks of a
`reqwest::Error`, the class Model/Fallback keeps of it (`httpTimeout`/`httpConnect`/`httpDropped`/
`httpOther`) has the same `should_retry` as the code's own disjunction: the four-class
abstraction of the chain theorems loses nothing. -/
theorem http_class_exact (f : HttpFlags) : shouldRetry f.toErr = f.shouldRetry := by
  obtain ⟨t, c, r, b, d⟩ := f
  cases t <;> cases c <;> cases r <;> cases b <;> cases d <;> rfl

/-- a failed HTTP exchange lets the chain move on iff `reqwest` reports a timeout, a connect
error, or a request/body/decode error; anything else (redirect policy, builder, …) ends it. -/
theorem http_failure_transient_iff (f : HttpFlags) :
    Transient (fun _ : Unit => httpAnswer (.fail f)) () ↔ f.shouldRetry = true := by
  constructor
  · rintro ⟨e, he, hr⟩
    simp only [httpAnswer, Except.error.injEq] at he
    rw [← he, http_class_exact] at hr; exact hr
  · intro h
    exact ⟨f.toErr, rfl, by rw [http_class_exact]; exact h⟩

/-! ## Extension 3 — "malformed" is the real parser rejecting the bytes -/

section wire
variable (H : Model.Bpsv.Str → Model.Bpsv.Str)

/-- a transport's outcome is a document iff the endpoint delivered a complete answer (HTTP: status
200) that the BPSV / V1-MIME parser model reads as that document. -/
theorem wire_ok_iff_wellformed (w : Wires) (t : Tr) (d : Model.Bpsv.Doc) :
    w.outcome H t = .ok d ↔ WellFormed H w t d := by
  have hhttp : ∀ x : HttpWire, httpAnswer x = .ok d ↔
      ∃ text, x = .resp 200 (some text) ∧ Model.Bpsv.parse text = .ok d := by
    intro x
    constructor
    · intro h
      cases x with
      | fail f => cases h
      | resp s b =>
        simp only [httpAnswer] at h
        obtain ⟨rfl, hb⟩ := (tact_ok_iff s (parseBody b) d).1 h
        cases b with
        | none => cases hb
        | some text =>
          refine ⟨text, rfl, ?_⟩
          simp only [parseBody] at hb
          split at hb
          · rename_i d' hd'; cases hb; exact hd'
          · cases hb
    · rintro ⟨text, rfl, hp⟩
      simp [httpAnswer, parseBody, hp, tactClassify]
  cases t with
  | https => exact hhttp w.https
  | http => exact hhttp w.http
  | tcp =>
    simp only [Wires.outcome, WellFormed]
    constructor
    · intro h
      cases hw : w.tcp with
      | fail s => rw [hw] at h; cases h
      | bytes raw =>
        rw [hw] at h
        simp only [tcpAnswer] at h
        split at h
        · rename_i d' hd'; cases h; exact ⟨raw, rfl, hd'⟩
        · cases h
    · rintro ⟨raw, hw, hp⟩
      simp [hw, tcpAnswer, hp]

/-- `malformed_is_definitive_wire`: a complete answer the parser rejects is `Parse`, which is
not retryable — on every transport. -/
theorem malformed_is_definitive_wire (w : Wires) (t : Tr) (h : Malformed H w t) :
    w.outcome H t = .error .parse ∧ shouldRetry .parse = false := by
  refine ⟨?_, rfl⟩
  have hhttp : ∀ x : HttpWire, MalformedHttp x → httpAnswer x = .error .parse := by
    intro x hx
    cases x with
    | fail f => cases hx
    | resp s b =>
      obtain ⟨rfl, hb⟩ := hx
      simp [httpAnswer, hb, tactClassify]
  cases t with
  | https => exact hhttp w.https h
  | http => exact hhttp w.http h
  | tcp =>
    simp only [Malformed] at h
    simp only [Wires.outcome]
    cases hw : w.tcp with
    | fail s => rw [hw] at h; cases h
    | bytes raw =>
      rw [hw] at h
      obtain ⟨e, he⟩ := h
      simp [tcpAnswer, he]

/-- `malformed_never_cached`, restated on the parser model: when TACT HTTPS answers 200 with a
body `BpsvDocument::parse` rejects (whatever the other two endpoints would deliver), the query
(cold or junk cache entry, normal endpoint, HTTPS configured) contacts HTTPS only, fails with
`Parse`, and leaves the cache as the lookup left it. -/
theorem malformed_never_cached_wire {κ : Type} [DecidableEq κ] (cfg : Config) (st : CState κ Model.Bpsv.Doc)
    (c now : Nat) (ep : Ep κ) (w : Wires) (hv : ep.valid = true) (htcp : ep.tcpOnly = false)
    (hon : cfg.httpsOn = true) (hbad : MalformedHttp w.https)
    (hmiss : (cacheGet st c ep.key now).2 = .ok none ∨ (cacheGet st c ep.key now).2 = .ok (some .junk)) :
    queryW H cfg st c now ep w = ((cacheGet st c ep.key now).1, [Tr.https], .error .parse) := by
  refine malformed_never_cached cfg st c now ep (w.outcome H) hv htcp hon ?_ hmiss
  rw [(malformed_is_definitive_wire H w .https hbad).1]
  simp [tactClassify]

/-- wherever in the chain the malformed answer sits, and on TCP-only endpoints too: a query whose
result is an error stores nothing; a query whose result is a document got it from the cache or
from an endpoint whose answer the parser reads as exactly that document. -/
theorem malformed_never_returned_wire {κ : Type} [DecidableEq κ] (cfg : Config) (st : CState κ Model.Bpsv.Doc)
    (c now : Nat) (ep : Ep κ) (w : Wires) (d : Model.Bpsv.Doc)
    (hq : (queryW H cfg st c now ep w).2.2 = .ok d) :
    ((queryW H cfg st c now ep w).2.1 = [] ∧ (cacheGet st c ep.key now).2 = .ok (some (.doc d))) ∨
    ∃ t, WellFormed H w t d ∧ ¬ Malformed H w t := by
  unfold queryW at hq ⊢
  rcases query_exits cfg st c now ep (w.outcome H) with ⟨_, hx⟩ | ⟨_, e', _, hx⟩ | ⟨_, d', hd', hx⟩ |
      ⟨_, _, ⟨e', _, hx⟩ | ⟨d', hd', hx⟩⟩
  all_goals rw [hx] at hq ⊢
  all_goals simp only at hq
  · cases hq
  · cases hq
  · cases hq; exact Or.inl ⟨rfl, hd'⟩
  · cases hq
  · cases hq
    obtain ⟨t, ht⟩ := net_ok_from_transport cfg ep (w.outcome H) d hd'
    refine Or.inr ⟨t, (wire_ok_iff_wellformed H w t d).1 ht, fun hm => ?_⟩
    rw [(malformed_is_definitive_wire H w t hm).1] at ht; cases ht

/-- a history step whose transports are what endpoints deliver. -/
def IsWireOp {κ : Type} : Op κ Model.Bpsv.Doc → Prop
  | .query _ _ _ o => ∃ w : Wires, o = w.outcome H
  | .corrupt _ => True

/-- the document is what the parser model makes of some text / some TCP response. -/
def Parsed (d : Model.Bpsv.Doc) : Prop :=
  (∃ text, Model.Bpsv.parse text = .ok d) ∨ (∃ raw, Model.Ribbit.clientTcp H raw = .ok d)

/-- `only_parsed_answers_cached`, over all histories of wire-level queries and file corruption:
every document in the cache is the parser's reading of bytes an endpoint delivered — never a
failed, rejected or partially parsed answer. -/
theorem only_parsed_answers_cached {κ : Type} [DecidableEq κ] (cfg : Config) (ops : List (Op κ Model.Bpsv.Doc))
    (st : CState κ Model.Bpsv.Doc) (h0 : AllDocs (Parsed H) st) (hops : ∀ op ∈ ops, IsWireOp H op) :
    AllDocs (Parsed H) (run cfg st ops) := by
  refine only_good_answers_cached (Parsed H) cfg ops st h0 ?_
  intro op hop
  have := hops op hop
  cases op with
  | corrupt k => trivial
  | query c now ep o =>
    obtain ⟨w, rfl⟩ := this
    intro t d hd
    have hw := (wire_ok_iff_wellformed H w t d).1 hd
    cases t with
    | https => obtain ⟨text, _, hp⟩ := hw; exact Or.inl ⟨text, hp⟩
    | http => obtain ⟨text, _, hp⟩ := hw; exact Or.inl ⟨text, hp⟩
    | tcp => obtain ⟨raw, _, hp⟩ := hw; exact Or.inr ⟨raw, hp⟩

end wire


/-- the document the mock endpoints serve for id 7, and what is left of it when the connection
closes at a row boundary. -/
def docText7 : Model.Bpsv.Str := ['R','e','g','i','o','n','!','S','T','R','I','N','G',':','0','|','B','u','i','l','d','I','d','!','D','E','C',':','4','|','T','a','g','!','S','T','R','I','N','G',':','0','\n','#','#',' ','s','e','q','n',' ','=',' ','7','\n','u','s','|','7','|','a','\n','e','u','|','7','|','b','\n']
def docText7Cut : Model.Bpsv.Str := ['R','e','g','i','o','n','!','S','T','R','I','N','G',':','0','|','B','u','i','l','d','I','d','!','D','E','C',':','4','|','T','a','g','!','S','T','R','I','N','G',':','0','\n','#','#',' ','s','e','q','n',' ','=',' ','7','\n','u','s','|','7','|','a','\n']

set_option maxRecDepth 4000 in
/-- finding `tcp-truncated-response-accepted`, now on the parser model instead of a case label:
the Ribbit response cut at a row boundary is NOT malformed for `RibbitClient::query` — it is
read as a document with one row instead of two (so by `only_parsed_answers_cached` it may be
cached). Replayed on the real code by corpus/C13/tcp-truncated-at-row.case. -/
theorem truncated_tcp_response_parses (H : Model.Bpsv.Str → Model.Bpsv.Str) :
    (match tcpAnswer H (.bytes docText7) with | .ok d => d.rows.length == 2 && d.seqn == some 7 | _ => false) = true ∧
    (match tcpAnswer H (.bytes docText7Cut) with | .ok d => d.rows.length == 1 && d.seqn == some 7 | _ => false) = true := by
  have h1 : Model.Ribbit.isV1Mime docText7 = false := by decide
  have h2 : Model.Ribbit.isV1Mime docText7Cut = false := by decide
  have h3 : (match Model.Bpsv.parse docText7 with | .ok d => d.rows.length == 2 && d.seqn == some 7 | _ => false) = true := by decide
  have h4 : (match Model.Bpsv.parse docText7Cut with | .ok d => d.rows.length == 1 && d.seqn == some 7 | _ => false) = true := by decide
  simp only [tcpAnswer, Model.Ribbit.clientTcp, h1, h2, Model.Ribbit.liftParse, Bool.false_eq_true, if_false]
  constructor
  · revert h3; cases Model.Bpsv.parse docText7 <;> simp
  · revert h4; cases Model.Bpsv.parse docText7Cut <;> simp

/-! ### non-vacuity: the hypotheses are met by concrete, non-trivial instances -/

/-- a run of `cache_hit_no_traffic`'s hypotheses: HTTPS 503, HTTP answers 7; stored; then a query
on another key by a new client, and the hit at t=9 < 0+10. -/
example :
    let ep : Ep Nat := { key := 0, valid := true, tcpOnly := false, ttl := 10 }
    let o : Tr → Except Err Nat := fun t => match t with
      | .https => .error .serviceUnavailable | .http => .ok 7 | .tcp => .ok 8
    let r := query ⟨true, true⟩ (CState.empty true) 0 0 ep o
    r.2 = ([Tr.https, Tr.http], .ok 7) ∧
    (query ⟨true, true⟩ r.1 0 9 ep (fun _ => .error .timeout)).2 = ([], .ok 7) := by decide

example : NoEarlyStop stopV2 [] [[97,33,68,10],[49,10,10]] := by
  intro k h0 h1
  have : k = 1 := by simp at h1; omega
  subst this; decide

example : Transient (fun (_ : Tr) => (.error (.serverError 502) : Except Err Nat)) .https :=
  ⟨_, rfl, by decide⟩

/-- `download_*`: HTTP 500, then 200 with body 7 (stored at t=1, ttl 10); a hit at t=10 < 1+10
without a request whatever the network holds; a refetch at t=11. -/
example :
    let ob : Obj Nat := { keyOk := true, key := 5, ttl := 10 }
    let A := Arith.fixed (fun b => some (2 * b))
    let r := download A (fun _ _ => 0) 99 (CState.empty true) 0 0 1 ob [.err (.serverError 500), .ok 7, .ok 8]
    r.2 = (2, Result.ok 7) ∧
    (download A (fun _ _ => 0) 99 r.1 0 10 10 ob [.ok 9]).2 = (0, Result.ok 7) ∧
    (download A (fun _ _ => 0) 99 r.1 0 11 11 ob [.ok 9]).2 = (1, Result.ok 9) := by decide

/-- `download_non2xx_never_stored`: a script of a dropped connection and a 404. -/
example : ∀ o ∈ [Outcome.err (.http true), classifyStatus 404 none 3], (∃ e, o = .err e) ∨
    ∃ status ra k, ¬ (200 ≤ status ∧ status < 300) ∧ o = classifyStatus status ra k := by
  intro o ho
  simp only [List.mem_cons, List.not_mem_nil, or_false] at ho
  rcases ho with rfl | rfl
  · exact Or.inl ⟨_, rfl⟩
  · exact Or.inr ⟨404, none, 3, by decide, rfl⟩

/-- `malformed_*_wire`: an HTML page with status 200 is malformed for the real parser model; the
served document is well-formed. -/
example : MalformedHttp (.resp 200 (some ['<','h','t','m','l','>','n','o','<','/','h','t','m','l','>','\n'])) := ⟨rfl, by decide⟩

set_option maxRecDepth 4000 in
example : ∃ d, WellFormed (fun x => x) ⟨.resp 200 (some docText7), .fail ⟨false, true, true, false, false⟩, .fail true⟩ .https d := by
  cases h : Model.Bpsv.parse docText7 with
  | ok d => exact ⟨d, docText7, rfl, h⟩
  | error e =>
    have : (match Model.Bpsv.parse docText7 with | .ok _ => true | .error _ => false) = true := by decide
    rw [h] at this; cases this

example : IsWireOp (fun x => x) (Op.query (κ := Nat) 0 0 ⟨0, true, false, 10⟩
    (Wires.outcome (fun x => x) ⟨.resp 503 none, .fail ⟨true, false, true, false, false⟩, .bytes docText7⟩)) :=
  ⟨_, rfl⟩

end Cascette.Props.C13
