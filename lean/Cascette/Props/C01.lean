/-
Props/C01 — BLTE encode/decode is the identity on content.
Property theorems only; helper lemmas are in Proofs/Blte.lean, the model of the Rust code in
Model/Blte.lean (model of the working tree, i.e. after the four `fix:` commits listed in
KNOWN_FINDINGS.txt: block index base in `add_data`, content size in the table row of encrypted
chunks, 16-byte floor in `decrypt_chunk_with_keys`, chunk size 0 rejected).

Parameters and their laws (DESIGN.md §3): `cd : Codec` (zlib / LZ4 behind `compress_chunk` /
`decompress_chunk`) with `Lawful cd` (what compress returns, decompress maps back); `H` (MD5) an
arbitrary function with 16-byte output; `keys` the key store as a function.  Salsa20 and ARC4 are
the models proved in C09.  Range hypotheses: every serialised chunk is shorter than 2^32 bytes
(`compressed_size as u32`), the content is shorter than 2^32 bytes (`decompressed_size as u32`).
-/
import Cascette.Proofs.Blte
namespace Cascette.Props.C01
open Cascette Cascette.Model.Blte Cascette.Proofs.Blte

/-! ### round trip

Full-strength statement (quantifier of the property: every builder program, including
`add_encrypted_data` with an arbitrary `block_index`):

    theorem blte_roundtrip_full … (p : List Op)
        (hkeys : ∀ op ∈ p, KeyOk keys op)                 -- "the matching key store"
        (hrun : run cd Builder.init p = .ok b) (hbuild : build H b = .ok f) … :
        decodeBytes cd keys (serialize f) = .ok (content p)

It is FALSE of the code: `add_encrypted_data(data, spec, key, block_index)` hands any
`block_index` to Salsa20, while the decoder can only use the chunk's position.  The
counter-witness is `blte_roundtrip_full_counterexample` (also corpus/C01/encdata-foreign-index.case,
replayed on the real code in every run; recorded as a finding, not repaired: rejecting a foreign
index would break the crate's own `test_encryption_different_block_indices`).  Everything else of
the quantifier is covered: `blte_roundtrip` needs no index hypothesis for programs that use
`add_encrypted_data` with ARC4 only (or not at all), `blte_roundtrip_partial` adds the explicit
hypothesis "index = position" for Salsa20 `add_encrypted_data` calls. -/

/-- Counter-witness to the full statement: one `add_encrypted_data([0x41], Salsa20, key, 1)` on a
fresh builder (position 0, index 1), matching key store.  Every call returns `Ok`, `build` returns
`Ok`, and decoding the container returns `Ok([0x6f, 0x71])` — two bytes of garbage — instead of
the added byte `[0x41]`.  (Kernel evaluation of the model; the real code returns the same two
bytes.) -/
theorem blte_roundtrip_full_counterexample :
    let key : Bytes := [0, 1, 2, 3, 4, 5, 6, 7, 8, 9, 10, 11, 12, 13, 14, 15]
    let spec : EncSpec := ⟨0x1234567890ABCDEF, [1, 2, 3, 4], 0x53⟩
    let keys : Nat → Option Bytes := fun n => if n = 0x1234567890ABCDEF then some key else none
    let cd : Codec := ⟨fun _ _ => none, fun _ _ => none⟩
    let p : List Op := [.addEncrypted [0x41] spec key 1]
    (∀ op ∈ p, KeyOk keys op) ∧
    isOkWith (roundTrip cd keys (fun _ => List.replicate 16 0) p) [0x6f, 0x71] = true ∧
    content p = [0x41] := by
  refine ⟨?_, by decide +kernel, rfl⟩
  intro op hop
  simp only [List.mem_singleton] at hop
  subst hop
  exact ⟨by decide, by decide, by decide, by decide⟩

/-- **Round trip, with the index hypothesis made explicit.**  For every codec obeying the law,
every key store, every checksum function, every builder program `p` (any sequence of
`with_compression` N/Z/4/E/F, `with_chunk_size_unchecked` (any size, 0 included),
`with_encryption` / `without_encryption`, `add_data`, `add_mixed_data`, `add_encrypted_data`,
`add_chunk(ChunkData::new …)`, any payloads): if the keys the program names are in the store and
every `add_encrypted_data` is given its chunk's position as block index or uses ARC4 (`ProgOk`),
every call returns `Ok` and `build` returns `Ok`, then parsing and decoding the serialised
container yields exactly the concatenation of the added bytes. -/
theorem blte_roundtrip_partial (cd : Codec) (law : Lawful cd) (keys : Nat → Option Bytes)
    (H : Bytes → Bytes) (hH : ∀ x, (H x).length = 16) (p : List Op) (b : Builder) (f : File)
    (hp : ProgOk cd keys Builder.init p) (hrun : run cd Builder.init p = .ok b)
    (hbuild : build H b = .ok f) (hsz : ∀ c ∈ f.chunks, 1 + c.data.length < 2 ^ 32) :
    decodeBytes cd keys (serialize f) = .ok (content p) := by
  have hinv := run_inv cd law keys p Builder.init b [] (inv_init cd keys) hp hrun
  rw [List.nil_append] at hinv
  rw [build_chunks H b f hbuild] at hsz
  exact decode_build cd keys H hH b (content p) hinv f hbuild hsz

/-- **Round trip, full strength on the calls that take no explicit index.**  For programs over
`with_*`, `add_data`, `add_mixed_data`, `add_chunk(ChunkData::new …)` and `add_encrypted_data`
with ARC4 — in any order, any number of times, any payloads, modes, chunk sizes, Salsa20/ARC4
specs — the only hypothesis about the program is the property's own "matching key store"
(`StaticOk` = `KeyOk` + "explicit-index calls use ARC4"). In particular two `add_data` calls under
`with_encryption`/Salsa20 (the pinned tree's defect, repaired) are covered. -/
theorem blte_roundtrip (cd : Codec) (law : Lawful cd) (keys : Nat → Option Bytes)
    (H : Bytes → Bytes) (hH : ∀ x, (H x).length = 16) (p : List Op) (b : Builder) (f : File)
    (hp : ∀ op ∈ p, StaticOk keys op) (hrun : run cd Builder.init p = .ok b)
    (hbuild : build H b = .ok f) (hsz : ∀ c ∈ f.chunks, 1 + c.data.length < 2 ^ 32) :
    decodeBytes cd keys (serialize f) = .ok (content p) :=
  blte_roundtrip_partial cd law keys H hH p b f (progOk_of_static cd keys p _ hp) hrun hbuild hsz

/-! ### the chunk table -/

/-- **The chunk table is truthful.**  Under the hypotheses of the round trip, the container parses
back to the header size and rows that `build` wrote and to the same chunks; when there is a table,
row `i` records exactly: the length of chunk `i` as serialised (mode byte + data), `H` of exactly
those bytes, and the length of the content that chunk `i` decodes to at index `i`
(`RowsTruthful`); the decoded contents concatenate to the added bytes.  A container without table
holds exactly one chunk.  (On the pinned tree this was false for encrypted chunks — the row
recorded `inner.len()`; repaired, so encrypted chunks are covered here.) -/
theorem blte_table_truthful (cd : Codec) (law : Lawful cd) (keys : Nat → Option Bytes)
    (H : Bytes → Bytes) (hH : ∀ x, (H x).length = 16) (p : List Op) (b : Builder) (f : File)
    (hp : ProgOk cd keys Builder.init p) (hrun : run cd Builder.init p = .ok b)
    (hbuild : build H b = .ok f) (hsz : ∀ c ∈ f.chunks, 1 + c.data.length < 2 ^ 32)
    (hlen : (content p).length < 2 ^ 32) :
    ∃ plains : List Bytes, plains.flatten = content p ∧
      parse (serialize f) = .ok ⟨f.headerSize, f.table, f.chunks.map strip⟩ ∧
      match f.table with
      | some rows => RowsTruthful cd keys H rows (f.chunks.map strip) 0 plains
      | none => ∃ c, f.chunks = [c] := by
  have hinv := run_inv cd law keys p Builder.init b [] (inv_init cd keys) hp hrun
  rw [List.nil_append] at hinv
  have hch := build_chunks H b f hbuild
  rw [hch] at hsz
  obtain ⟨⟨plains, hg, hf⟩, _⟩ := hinv
  refine ⟨plains, hf, (parse_serialize_build H hH b f hbuild hsz).1, ?_⟩
  have hpl : ∀ q ∈ plains, q.length < 2 ^ 32 := fun q hq =>
    Nat.lt_of_le_of_lt (length_le_flatten plains q hq) (by rw [hf]; exact hlen)
  rcases build_cases H b f hbuild with ⟨c, hc, _, rfl⟩ | ⟨_, _, rfl⟩
  · exact ⟨c, rfl⟩
  · exact rows_truthful cd keys H b.chunks 0 plains hg hsz hpl

/-! ### an error instead of a container that decodes to something else -/

/-- Under the same hypotheses, whatever decoding returns with `Ok` is the added content: no
program whose calls all succeed yields a container that decodes to other bytes. (A failing call
returns `Err` and consumes the builder — `run` has no builder to `build` from — by the types.) -/
theorem blte_error_not_garbage (cd : Codec) (law : Lawful cd) (keys : Nat → Option Bytes)
    (H : Bytes → Bytes) (hH : ∀ x, (H x).length = 16) (p : List Op) (b : Builder) (f : File)
    (hp : ProgOk cd keys Builder.init p) (hrun : run cd Builder.init p = .ok b)
    (hbuild : build H b = .ok f) (hsz : ∀ c ∈ f.chunks, 1 + c.data.length < 2 ^ 32) (x : Bytes)
    (hx : decodeBytes cd keys (serialize f) = .ok x) : x = content p := by
  rw [blte_roundtrip_partial cd law keys H hH p b f hp hrun hbuild hsz] at hx
  exact (Except.ok.inj hx).symm

/-- Chunk size 0 (`with_chunk_size_unchecked(0)`): a non-empty payload cannot be chunked; both
`add_data` and `add_mixed_data` return `Err(InvalidChunkSize)` (the pinned tree looped forever;
repaired), and the empty payload is still accepted as one chunk (covered by the round trip). -/
theorem zero_chunk_size_rejected (cd : Codec) (b : Builder) (d : Bytes)
    (e : Option (EncSpec × Bytes)) (h0 : b.chunkSize = 0) (hd : d ≠ []) :
    step cd b (.addData d) = .error .chunkSize ∧ step cd b (.addMixed d e) = .error .chunkSize := by
  have hl : ¬ (d.length ≤ 0) := by
    cases d with
    | nil => exact absurd rfl hd
    | cons _ _ => simp
  simp [step, addWith, pieces, h0, hl]

/-- Modes that cannot frame a plain chunk are refused, not written: `with_compression(E)` or
`(F)` followed by an unencrypted `add_data` returns `Err`. -/
theorem unusable_mode_rejected (cd : Codec) (b : Builder) (d : Bytes) (he : b.enc = none)
    (hm : b.mode = .enc ∨ b.mode = .frame) : ∃ e, step cd b (.addData d) = .error e := by
  have hmk : ∀ x i, ∃ e, makeChunk cd b.mode none x i = .error e := by
    intro x i
    rcases hm with h | h <;> simp [makeChunk, Chunk.new, compressChunk, h]
  simp only [step, he, addWith]
  cases hp : pieces b.chunkSize d with
  | error e => exact ⟨e, rfl⟩
  | ok ps =>
    cases ps with
    | nil =>
      -- `pieces` never returns an empty list for a call that reaches the chunk maker
      unfold pieces at hp
      split at hp
      · cases hp
      · split at hp
        · cases hp
        · rename_i h1 h2
          simp only [Except.ok.injEq] at hp
          have : d.length = 0 ∨ 0 < d.length := by omega
          rcases this with h | h
          · omega
          · cases d with
            | nil => simp at h
            | cons x xs => simp [splitLoop] at hp
    | cons x xs =>
      obtain ⟨e, he'⟩ := hmk x b.chunks.length
      exact ⟨e, by simp [makeChunks, he']⟩

/-! ### side statements the proof needs -/

/-- The builder always prepends its own mode byte to the inner payload of an encrypted chunk, so
the decoder's mode sniffing never looks at the payload: whatever `d` starts with (`N`, `Z`, `4`,
`E`, `F` or anything else), the inner payload decodes to `d`. -/
theorem payload_mode_byte_irrelevant (cd : Codec) (law : Lawful cd) (mode : Mode) (d inner : Bytes)
    (h : buildInner cd mode d = .ok inner) : decodeInner cd inner = .ok d :=
  (buildInner_spec cd law mode d inner h).1

/-- The empty payload under encryption decodes (the pinned tree built a 16-byte encrypted chunk
that its own decoder refused; repaired): for any Salsa20/ARC4 spec with its key in the store, the
program `with_encryption; add_data([])` round-trips to the empty content whenever it builds. -/
theorem empty_encrypted_decodes (cd : Codec) (law : Lawful cd) (keys : Nat → Option Bytes)
    (H : Bytes → Bytes) (hH : ∀ x, (H x).length = 16) (s : EncSpec) (k : Bytes)
    (hk : EncOk keys (s, k)) (b : Builder) (f : File)
    (hrun : run cd Builder.init [.withEncryption s k, .addData []] = .ok b)
    (hbuild : build H b = .ok f) (hsz : ∀ c ∈ f.chunks, 1 + c.data.length < 2 ^ 32) :
    decodeBytes cd keys (serialize f) = .ok [] := by
  have hp : ∀ op ∈ [Op.withEncryption s k, Op.addData []], StaticOk keys op := by
    intro op hop
    simp only [List.mem_cons, List.not_mem_nil, or_false] at hop
    rcases hop with rfl | rfl
    · exact ⟨hk, trivial⟩
    · exact ⟨trivial, trivial⟩
  exact blte_roundtrip cd law keys H hH _ b f hp hrun hbuild hsz

/-- `parse ∘ serialize` alone: the container `build` returns reads back with the same header
size, the same table and the same chunks (mode and data). -/
theorem blte_parse_serialize (H : Bytes → Bytes) (hH : ∀ x, (H x).length = 16) (b : Builder)
    (f : File) (hbuild : build H b = .ok f) (hsz : ∀ c ∈ b.chunks, 1 + c.data.length < 2 ^ 32) :
    parse (serialize f) = .ok ⟨f.headerSize, f.table, f.chunks.map strip⟩ :=
  (parse_serialize_build H hH b f hbuild hsz).1

/-- The chunk loop's slices concatenate to the payload for every chunk size ≥ 1 (termination
argument of the Rust `while`: the fuel `data.len()` is never exhausted early). -/
theorem chunking_covers_payload (cs : Nat) (d : Bytes) (ps : List Bytes)
    (h : pieces cs d = .ok ps) : ps.flatten = d :=
  pieces_flatten cs d ps h

/-! ### non-vacuity: the hypotheses are met by concrete, non-trivial programs -/

/-- a lawful codec exists (identity); the real zlib/LZ4 are exercised by the correspondence run. -/
def idCodec : Codec := ⟨fun _ x => some x, fun _ c => some c⟩
example : Lawful idCodec := by
  intro m x c h
  simp only [idCodec, Option.some.injEq] at h ⊢
  exact h.symm

/-- cs = 2, Salsa20, `add_data` of `N Z 4` (two chunks), `add_mixed_data` plain, then a second
`add_data` under encryption, zlib mode for the last: every call `Ok`, `build` `Ok`, and the
container decodes to the six added bytes — evaluated by the kernel on the model. -/
example :
    let key : Bytes := List.replicate 16 7
    let spec : EncSpec := ⟨7, [9, 8, 7, 6], 0x53⟩
    let keys : Nat → Option Bytes := fun n => if n = 7 then some key else none
    let p : List Op := [.withChunkSize 2, .withEncryption spec key, .addData [0x4E, 0x5A, 0x34],
      .addMixed [0x45] none, .withCompression .zlib, .addData [0x46, 0x00]]
    (∀ op ∈ p, StaticOk keys op) ∧
    isOkWith (roundTrip idCodec keys (fun _ => List.replicate 16 0) p)
      [0x4E, 0x5A, 0x34, 0x45, 0x46, 0x00] = true := by
  refine ⟨?_, by decide +kernel⟩
  intro op hop
  simp only [List.mem_cons, List.not_mem_nil, or_false] at hop
  rcases hop with rfl | rfl | rfl | rfl | rfl | rfl
  · exact ⟨trivial, trivial⟩
  · exact ⟨⟨by decide, by decide, by decide, by decide⟩, trivial⟩
  all_goals exact ⟨trivial, trivial⟩

end Cascette.Props.C01
