/-
Props/C01 — BLTE encode/decode is the identity on content.
Property theorems only; helper lemmas are in Proofs/Blte.lean, the model of the Rust code in
Model/Blte.lean (model of the working tree, i.e. after the four `fix:` commits listed in
KNOWN_FINDINGS.txt: block index base in `add_data`, content size in the table row of encrypted
chunks, 16-byte floor in `decrypt_chunk_with_keys`, chunk size 0 rejected).

Parameters and their laws (DESIGN.md §3): `cd : Codec` (zlib / LZ4 behind `compress_chunk` /
`decompress_chunk`) with `Lawful cd` (what compress returns, decompress maps back); `H` (MD5) an
arbitrary function with 16-byte output; `keys` the key store as a function.  Salsa20 and ARC4 are
the models proved in C09.  Range hypotheses: every serialised chunk is shorter than 2^32 bytes
(`compressed_size as u32`), the content is shorter than 2^32 bytes (`decompressed_size as u32`).
-/
import Cascette.Proofs.Blte
import Cascette.Proofs.BlteEntry
import Cascette.Proofs.BlteLimits
namespace Cascette.Props.C01
open Cascette Cascette.Model.Blte Cascette.Proofs.Blte

/-! ### round trip

Full-strength statement (quantifier of the property: every builder program, including
`add_encrypted_data` with an arbitrary `block_index`):

    theorem blte_roundtrip_full … (p : List Op)
        (hkeys : ∀ op ∈ p, KeyOk keys op)                 -- "the matching key store"
        (hrun : run cd Builder.init p = .ok b) (hbuild : build H b = .ok f) … :
        decodeBytes cd keys (serialize f) = .ok (content p)

It is FALSE of the code: `add_encrypted_data(data, spec, key, block_index)` hands any
`block_index` to Salsa20, while the decoder can only use the chunk's position.  The
counter-witness is `blte_roundtrip_full_counterexample` (also corpus/C01/encdata-foreign-index.case,
replayed on the real code in every run; recorded as a finding, not repaired: rejecting a foreign
index would break the crate's own `test_encryption_different_block_indices`).  Everything else of
the quantifier is covered: `blte_roundtrip` needs no index hypothesis for programs that use
`add_encrypted_data` with ARC4 only (or not at all), `blte_roundtrip_partial` adds the explicit
hypothesis "index = position" for Salsa20 `add_encrypted_data` calls. -/

/-- Counter-witness to the full statement: one `add_encrypted_data([0x41], Salsa20, key, 1)` on a
fresh builder (position 0, index 1), matching key store.  Every call returns `Ok`, `build` returns
`Ok`, and decoding the container returns `Ok([0x6f, 0x71])` — two bytes of garbage — instead of
the added byte `[0x41]`.  (Kernel evaluation of the model; the real code returns the same two
bytes.) -/
theorem blte_roundtrip_full_counterexample :
    let key : Bytes := [0, 1, 2, 3, 4, 5, 6, 7, 8, 9, 10, 11, 12, 13, 14, 15]
    let spec : EncSpec := ⟨0x1234567890ABCDEF, [1, 2, 3, 4], 0x53⟩
    let keys : Nat → Option Bytes := fun n => if n = 0x1234567890ABCDEF then some key else none
    let cd : Codec := ⟨fun _ _ => none, fun _ _ => none⟩
    let p : List Op := [.addEncrypted [0x41] spec key 1]
    (∀ op ∈ p, KeyOk keys op) ∧
    isOkWith (roundTrip cd keys (fun _ => List.replicate 16 0) p) [0x6f, 0x71] = true ∧
    content p = [0x41] := by
  refine ⟨?_, by decide +kernel, rfl⟩
  intro op hop
  simp only [List.mem_singleton] at hop
  subst hop
  exact ⟨by decide, by decide, by decide, by decide⟩

/-- **Round trip, with the index hypothesis made explicit.**  For every codec obeying the law,
every key store, every checksum function, every builder program `p` (any sequence of
`with_compression` N/Z/4/E/F, `with_chunk_size_unchecked` (any size, 0 included),
`with_encryption` / `without_encryption`, `add_data`, `add_mixed_data`, `add_encrypted_data`,
`add_chunk(ChunkData::new …)`, any payloads): if the keys the program names are in the store and
every `add_encrypted_data` is given its chunk's position as block index or uses ARC4 (`ProgOk`),
every call returns `Ok` and `build` returns `Ok`, then parsing and decoding the serialised
container yields exactly the concatenation of the added bytes. -/
theorem blte_roundtrip_partial (cd : Codec) (law : Lawful cd) (keys : Nat → Option Bytes)
    (H : Bytes → Bytes) (hH : ∀ x, (H x).length = 16) (p : List Op) (b : Builder) (f : File)
    (hp : ProgOk cd keys Builder.init p) (hrun : run cd Builder.init p = .ok b)
    (hbuild : build H b = .ok f) (hsz : ∀ c ∈ f.chunks, 1 + c.data.length < 2 ^ 32) :
    decodeBytes cd keys (serialize f) = .ok (content p) := by
  have hinv := run_inv cd law keys p Builder.init b [] (inv_init cd keys) hp hrun
  rw [List.nil_append] at hinv
  rw [build_chunks H b f hbuild] at hsz
  exact decode_build cd keys H hH b (content p) hinv f hbuild hsz

/-- **Round trip, full strength on the calls that take no explicit index.**  For programs over
`with_*`, `add_data`, `add_mixed_data`, `add_chunk(ChunkData::new …)` and `add_encrypted_data`
with ARC4 — in any order, any number of times, any payloads, modes, chunk sizes, Salsa20/ARC4
specs — the only hypothesis about the program is the property's own "matching key store"
(`StaticOk` = `KeyOk` + "explicit-index calls use ARC4"). In particular two `add_data` calls under
`with_encryption`/Salsa20 (the pinned tree's defect, repaired) are covered. -/
theorem blte_roundtrip (cd : Codec) (law : Lawful cd) (keys : Nat → Option Bytes)
    (H : Bytes → Bytes) (hH : ∀ x, (H x).length = 16) (p : List Op) (b : Builder) (f : File)
    (hp : ∀ op ∈ p, StaticOk keys op) (hrun : run cd Builder.init p = .ok b)
    (hbuild : build H b = .ok f) (hsz : ∀ c ∈ f.chunks, 1 + c.data.length < 2 ^ 32) :
    decodeBytes cd keys (serialize f) = .ok (content p) :=
  blte_roundtrip_partial cd law keys H hH p b f (progOk_of_static cd keys p _ hp) hrun hbuild hsz

/-! ### the chunk table -/

/-- **The chunk table is truthful.**  Under the hypotheses of the round trip, the container parses
back to the header size and rows that `build` wrote and to the same chunks; when there is a table,
row `i` records exactly: the length of chunk `i` as serialised (mode byte + data), `H` of exactly
those bytes, and the length of the content that chunk `i` decodes to at index `i`
(`RowsTruthful`); the decoded contents concatenate to the added bytes.  A container without table
holds exactly one chunk.  (On the pinned tree this was false for encrypted chunks — the row
recorded `inner.len()`; repaired, so encrypted chunks are covered here.) -/
theorem blte_table_truthful (cd : Codec) (law : Lawful cd) (keys : Nat → Option Bytes)
    (H : Bytes → Bytes) (hH : ∀ x, (H x).length = 16) (p : List Op) (b : Builder) (f : File)
    (hp : ProgOk cd keys Builder.init p) (hrun : run cd Builder.init p = .ok b)
    (hbuild : build H b = .ok f) (hsz : ∀ c ∈ f.chunks, 1 + c.data.length < 2 ^ 32)
    (hlen : (content p).length < 2 ^ 32) :
    ∃ plains : List Bytes, plains.flatten = content p ∧
      parse (serialize f) = .ok ⟨f.headerSize, f.table, f.chunks.map strip⟩ ∧
      match f.table with
      | some rows => RowsTruthful cd keys H rows (f.chunks.map strip) 0 plains
      | none => ∃ c, f.chunks = [c] := by
  have hinv := run_inv cd law keys p Builder.init b [] (inv_init cd keys) hp hrun
  rw [List.nil_append] at hinv
  have hch := build_chunks H b f hbuild
  rw [hch] at hsz
  obtain ⟨⟨plains, hg, hf⟩, _⟩ := hinv
  refine ⟨plains, hf, (parse_serialize_build H hH b f hbuild hsz).1, ?_⟩
  have hpl : ∀ q ∈ plains, q.length < 2 ^ 32 := fun q hq =>
    Nat.lt_of_le_of_lt (length_le_flatten plains q hq) (by rw [hf]; exact hlen)
  rcases build_cases H b f hbuild with ⟨c, hc, _, rfl⟩ | ⟨_, _, rfl⟩
  · exact ⟨c, rfl⟩
  · exact rows_truthful cd keys H b.chunks 0 plains hg hsz hpl

/-! ### an error instead of a container that decodes to something else -/

/-- Under the same hypotheses, whatever decoding returns with `Ok` is the added content: no
program whose calls all succeed yields a container that decodes to other bytes. (A failing call
returns `Err` and consumes the builder — `run` has no builder to `build` from — by the types.) -/
theorem blte_error_not_garbage (cd : Codec) (law : Lawful cd) (keys : Nat → Option Bytes)
    (H : Bytes → Bytes) (hH : ∀ x, (H x).length = 16) (p : List Op) (b : Builder) (f : File)
    (hp : ProgOk cd keys Builder.init p) (hrun : run cd Builder.init p = .ok b)
    (hbuild : build H b = .ok f) (hsz : ∀ c ∈ f.chunks, 1 + c.data.length < 2 ^ 32) (x : Bytes)
    (hx : decodeBytes cd keys (serialize f) = .ok x) : x = content p := by
  rw [blte_roundtrip_partial cd law keys H hH p b f hp hrun hbuild hsz] at hx
  exact (Except.ok.inj hx).symm

/-- Chunk size 0 (`with_chunk_size_unchecked(0)`): a non-empty payload cannot be chunked; both
`add_data` and `add_mixed_data` return `Err(InvalidChunkSize)` (the pinned tree looped forever;
repaired), and the empty payload is still accepted as one chunk (covered by the round trip). -/
theorem zero_chunk_size_rejected (cd : Codec) (b : Builder) (d : Bytes)
    (e : Option (EncSpec × Bytes)) (h0 : b.chunkSize = 0) (hd : d ≠ []) :
    step cd b (.addData d) = .error .chunkSize ∧ step cd b (.addMixed d e) = .error .chunkSize := by
  have hl : ¬ (d.length ≤ 0) := by
    cases d with
    | nil => exact absurd rfl hd
    | cons _ _ => simp
  simp [step, addWith, pieces, h0, hl]

/-- Modes that cannot frame a plain chunk are refused, not written: `with_compression(E)` or
`(F)` followed by an unencrypted `add_data` returns `Err`. -/
theorem unusable_mode_rejected (cd : Codec) (b : Builder) (d : Bytes) (he : b.enc = none)
    (hm : b.mode = .enc ∨ b.mode = .frame) : ∃ e, step cd b (.addData d) = .error e := by
  have hmk : ∀ x i, ∃ e, makeChunk cd b.mode none x i = .error e := by
    intro x i
    rcases hm with h | h <;> simp [makeChunk, Chunk.new, compressChunk, h]
  simp only [step, he, addWith]
  cases hp : pieces b.chunkSize d with
  | error e => exact ⟨e, rfl⟩
  | ok ps =>
    cases ps with
    | nil =>
      -- `pieces` never returns an empty list for a call that reaches the chunk maker
      unfold pieces at hp
      split at hp
      · cases hp
      · split at hp
        · cases hp
        · rename_i h1 h2
          simp only [Except.ok.injEq] at hp
          have : d.length = 0 ∨ 0 < d.length := by omega
          rcases this with h | h
          · omega
          · cases d with
            | nil => simp at h
            | cons x xs => simp [splitLoop] at hp
    | cons x xs =>
      obtain ⟨e, he'⟩ := hmk x b.chunks.length
      exact ⟨e, by simp [makeChunks, he']⟩

/-! ### the encoder entry points outside the builder

`BlteFile::compress`, `BlteFile::single_chunk`, `BlteFile::multi_chunk` and
`BlteHeader::multi_chunk_extended` are encoder calls of the property too.  They take no key, so the
reader may use `decompress()` (no key store) as well as `decompress_with_keys`; both are covered. -/

/-- **`BlteFile::compress` round trip.**  For every payload, every chunk size (0 included) and
every mode: if `compress(data, chunk_size, mode)` returns `Ok`, then parsing and decoding the
serialised container — with any key store, or with `decompress()` and none — yields exactly
`data`. -/
theorem compress_roundtrip (cd : Codec) (law : Lawful cd) (keys : Nat → Option Bytes)
    (H : Bytes → Bytes) (hH : ∀ x, (H x).length = 16) (data : Bytes) (cs : Nat) (mode : Mode)
    (f : File) (h : compress cd H data cs mode = .ok f)
    (hsz : ∀ c ∈ f.chunks, 1 + c.data.length < 2 ^ 32) :
    decodeBytes cd keys (serialize f) = .ok data ∧ decodePlainBytes cd (serialize f) = .ok data := by
  obtain ⟨ps, chunks, hflat, hmk, hl⟩ := compress_layout cd H data cs mode f h
  have hg := makeChunks_good cd law keys mode none (fun _ he => by cases he) ps 0 chunks hmk
  have hmodes := (makeChunks_none_modes cd mode ps 0 chunks hmk).2
  have hfc : f.chunks = chunks := by
    rcases hl with ⟨c, hc, _, rfl⟩ | ⟨_, _, rfl⟩
    · exact hc.symm
    · rfl
  rw [hfc] at hsz
  obtain ⟨_, _, hdec, hplain, _⟩ := layout_good cd keys H hH chunks ps f hl hg hsz
  have hplain' := hplain hmodes
  rw [hflat] at hdec hplain'
  exact ⟨hdec, hplain'⟩

/-- **The table `compress` writes is truthful** (same statement as `blte_table_truthful`): the
container parses back to what was written; with a table, row `i` records the serialised length of
chunk `i`, `H` of exactly those bytes and the length of the content it decodes to; the contents
concatenate to `data`; without a table there is exactly one chunk. -/
theorem compress_table_truthful (cd : Codec) (law : Lawful cd) (keys : Nat → Option Bytes)
    (H : Bytes → Bytes) (hH : ∀ x, (H x).length = 16) (data : Bytes) (cs : Nat) (mode : Mode)
    (f : File) (h : compress cd H data cs mode = .ok f)
    (hsz : ∀ c ∈ f.chunks, 1 + c.data.length < 2 ^ 32) (hlen : data.length < 2 ^ 32) :
    ∃ plains : List Bytes, plains.flatten = data ∧
      parse (serialize f) = .ok ⟨f.headerSize, f.table, f.chunks.map strip⟩ ∧
      match f.table with
      | some rows => RowsTruthful cd keys H rows (f.chunks.map strip) 0 plains
      | none => ∃ c, f.chunks = [c] := by
  obtain ⟨ps, chunks, hflat, hmk, hl⟩ := compress_layout cd H data cs mode f h
  have hg := makeChunks_good cd law keys mode none (fun _ he => by cases he) ps 0 chunks hmk
  have hfc : f.chunks = chunks := by
    rcases hl with ⟨c, hc, _, rfl⟩ | ⟨_, _, rfl⟩
    · exact hc.symm
    · rfl
  rw [hfc] at hsz
  obtain ⟨hparse, _, _, _, hrows⟩ := layout_good cd keys H hH chunks ps f hl hg hsz
  refine ⟨ps, hflat, hparse, hrows ?_⟩
  intro q hq
  exact Nat.lt_of_le_of_lt (length_le_flatten ps q hq) (by rw [hflat]; exact hlen)

/-- **`compress` is a builder program**: for every payload, chunk size and mode it returns exactly
what `BlteBuilder::new().with_compression(mode).with_chunk_size_unchecked(chunk_size)
.add_data(data)?.build()` returns — the same container or the same error — so every statement
about builder programs (`blte_roundtrip`, `blte_table_truthful`, `blte_error_not_garbage`) holds
of it. -/
theorem compress_is_builder_program (cd : Codec) (H : Bytes → Bytes) (data : Bytes) (cs : Nat)
    (mode : Mode) :
    compress cd H data cs mode =
      match run cd Builder.init [.withCompression mode, .withChunkSize cs, .addData data] with
      | .error e => .error e
      | .ok b => build H b := by
  simp only [run, step, Builder.init, addWith, pieces, List.length_nil]
  unfold compress
  by_cases h1 : data.length ≤ cs
  · simp only [h1, if_true, makeChunks, makeChunk, singleChunk]
    cases hc : Chunk.new cd data mode with
    | error e => rfl
    | ok c =>
      have hm := chunkNew_mode cd data mode c hc
      have hne : c.mode ≠ .enc := by rw [hm.1]; exact hm.2.1
      simp [build, hne]
  · by_cases h0 : cs = 0
    · subst h0
      simp only [h1, if_true, if_false]
    · simp only [h1, h0, if_false]
      cases hmk : makeChunks cd mode none (splitLoop cs data.length data) 0 with
      | error e => rfl
      | ok chunks =>
        have hlen := (makeChunks_none_modes cd mode _ 0 chunks hmk).1
        have h2 := splitLoop_two cs (by omega) data (by omega)
        have hne : chunks ≠ [] := by
          intro he; rw [he] at hlen; simp at hlen; omega
        have hne' : chunks.isEmpty = false := by
          cases chunks with
          | nil => exact absurd rfl hne
          | cons _ _ => rfl
        have hl1 : ¬ (chunks.length = 1) := by omega
        simp only [build, multiChunk, List.nil_append, hne', hl1, false_and, if_false,
          Bool.false_eq_true]

/-- Chunk size 0 in `compress`: a non-empty payload cannot be chunked and is refused with
`Err(InvalidChunkSize)` for every mode (the pinned tree never returned; repaired); the empty
payload is one chunk and is covered by `compress_roundtrip`. -/
theorem compress_zero_chunk_size_rejected (cd : Codec) (H : Bytes → Bytes) (d : Bytes) (mode : Mode)
    (hd : d ≠ []) : compress cd H d 0 mode = .error .chunkSize := by
  have hl : ¬ (d.length ≤ 0) := by
    cases d with
    | nil => exact absurd rfl hd
    | cons _ _ => simp
  simp [compress, hl]

/-- **`BlteFile::single_chunk` round trip**: for every payload and mode, an `Ok` container decodes
(with or without key store) to the payload.  No size hypothesis: there is no table to overflow. -/
theorem single_chunk_roundtrip (cd : Codec) (law : Lawful cd) (keys : Nat → Option Bytes)
    (data : Bytes) (mode : Mode) (f : File) (h : singleChunk cd data mode = .ok f) :
    decodeBytes cd keys (serialize f) = .ok data ∧ decodePlainBytes cd (serialize f) = .ok data ∧
    f.table = none := by
  unfold singleChunk at h
  split at h
  · cases h
  · rename_i c hc
    simp only [Except.ok.injEq] at h; subst h
    have hm := chunkNew_mode cd data mode c hc
    have hne : c.mode ≠ .enc := by rw [hm.1]; exact hm.2.1
    have hg := (chunkNew_good cd law keys data mode c 0 hc).1
    have hg' := hg
    simp only [decodeChunk, hne, if_false] at hg'
    have hs : decodeChunk cd keys (strip c) 0 = .ok data := hg
    refine ⟨?_, ?_, rfl⟩
    · simp only [decodeBytes, parse_serialize_single, decode, firstIsEnc, strip, hne, decide_false,
        Bool.false_eq_true, and_false, if_false, Model.Blte.decodeFrom]
      have : decodeChunk cd keys ⟨c.mode, c.data, none⟩ 0 = .ok data := hs
      simp only [this, List.append_nil]
    · simp only [decodePlainBytes, parse_serialize_single, decodePlain, decodePlainFrom, strip, hg',
        List.append_nil]

/-- **`BlteFile::multi_chunk` round trip and table**: for every vector of chunks made by
`ChunkData::new` (any payloads, any modes, any number ≥ 1 — one chunk included, a table the builder
never writes for a plain chunk), an `Ok` container decodes (with or without key store) to the
concatenation of the payloads, always carries a table, and the table is truthful. -/
theorem multi_chunk_roundtrip (cd : Codec) (law : Lawful cd) (keys : Nat → Option Bytes)
    (H : Bytes → Bytes) (hH : ∀ x, (H x).length = 16) (ds : List (Bytes × Mode))
    (chunks : List Chunk) (f : File) (hnew : newChunks cd ds = .ok chunks)
    (h : multiChunk H chunks = .ok f) (hsz : ∀ c ∈ chunks, 1 + c.data.length < 2 ^ 32) :
    decodeBytes cd keys (serialize f) = .ok (ds.map (·.1)).flatten ∧
    decodePlainBytes cd (serialize f) = .ok (ds.map (·.1)).flatten ∧
    parse (serialize f) = .ok ⟨f.headerSize, f.table, f.chunks.map strip⟩ ∧
    f.headerSize = 12 + 24 * chunks.length ∧
    ((∀ d ∈ ds, d.1.length < 2 ^ 32) → ∃ rows, f.table = some rows ∧
      RowsTruthful cd keys H rows (chunks.map strip) 0 (ds.map (·.1))) := by
  obtain ⟨hg, hmodes⟩ := newChunks_good cd law keys ds 0 chunks hnew
  have hl := multiChunk_layout H chunks f h
  obtain ⟨hparse, hfc, hdec, hplain, hrows⟩ := layout_good cd keys H hH chunks _ f hl hg hsz
  refine ⟨hdec, hplain hmodes, hparse, ?_, ?_⟩
  · rcases hl with ⟨c, hc, _, rfl⟩ | ⟨_, hn, rfl⟩
    · -- `multi_chunk` never returns the single-chunk layout
      unfold multiChunk at h
      split at h
      · cases h
      · split at h
        · cases h
        · simp only [Except.ok.injEq, File.mk.injEq] at h
          have := h.2.1
          cases this
    · have : (12 + chunks.length * 24) % 2 ^ 32 = 12 + 24 * chunks.length := by
        rw [Nat.mod_eq_of_lt (by rw [two32]; omega)]; omega
      exact this
  · intro hd
    have hpl : ∀ q ∈ ds.map (·.1), q.length < 2 ^ 32 := by
      intro q hq
      obtain ⟨d, hd', rfl⟩ := List.mem_map.1 hq
      exact hd d hd'
    have hr := hrows hpl
    rcases hl with ⟨c, hc, _, rfl⟩ | ⟨_, _, rfl⟩
    · unfold multiChunk at h
      split at h
      · cases h
      · split at h
        · cases h
        · simp only [Except.ok.injEq, File.mk.injEq] at h
          have := h.2.1
          cases this
    · exact ⟨_, rfl, hr⟩

/-- **`BlteHeader::multi_chunk_extended`** (table format `0x10`, 40-byte rows): for every vector of
`ChunkData::new` chunks, the serialised container reads back (the reader keeps the standard columns
of each row), decodes — with or without key store — to the concatenation of the payloads, its header
size is `12 + 40·n`, the standard columns are truthful and the extra column of row `i` is `H` of
the content of chunk `i`. -/
theorem multi_chunk_extended_roundtrip (cd : Codec) (law : Lawful cd) (keys : Nat → Option Bytes)
    (H : Bytes → Bytes) (hH : ∀ x, (H x).length = 16) (ds : List (Bytes × Mode))
    (chunks : List Chunk) (xf : XFile) (hnew : newChunks cd ds = .ok chunks)
    (h : multiChunkExt cd H chunks = .ok xf) (hsz : ∀ c ∈ chunks, 1 + c.data.length < 2 ^ 32) :
    decodeBytes cd keys (serializeX xf) = .ok (ds.map (·.1)).flatten ∧
    decodePlainBytes cd (serializeX xf) = .ok (ds.map (·.1)).flatten ∧
    xf.headerSize = 12 + 40 * chunks.length ∧
    xf.rows.map (·.dsum) = ds.map (fun d => H d.1) ∧
    ((∀ d ∈ ds, d.1.length < 2 ^ 32) →
      RowsTruthful cd keys H (xf.rows.map (·.row)) (chunks.map strip) 0 (ds.map (·.1))) := by
  obtain ⟨hg, hmodes⟩ := newChunks_good cd law keys ds 0 chunks hnew
  obtain ⟨hch, hrows, hhs, hne, hparse⟩ := parse_serializeX cd H hH chunks xf h hsz
  have hd := AllGood.decodeFrom chunks 0 _ hg
  have hnz : ¬ (xf.headerSize = 0) := by omega
  refine ⟨?_, ?_, by omega, ?_, ?_⟩
  · simp only [decodeBytes, hparse, decode, hnz, false_and, if_false, decodeFrom_strip, hd]
  · simp only [decodePlainBytes, hparse, decodePlain, decodePlainFrom_strip,
      decodePlainFrom_eq cd keys chunks 0 hmodes, hd]
  · rw [hrows]; exact newChunks_dsum cd law H ds chunks hnew
  · intro hdl
    have hpl : ∀ q ∈ ds.map (·.1), q.length < 2 ^ 32 := by
      intro q hq
      obtain ⟨d, hd', rfl⟩ := List.mem_map.1 hq
      exact hdl d hd'
    have : xf.rows.map (·.row) = chunks.map (Row.ofChunk H) := by
      rw [hrows]; simp [List.map_map, XRow.ofChunk, Function.comp_def]
    rw [this]
    exact rows_truthful cd keys H chunks 0 _ hg hsz hpl

/-- **`BlteFile::decompress` (no key store) on builder containers**: under the hypotheses of the
round trip, whatever `decompress()` returns with `Ok` is the added content, and when no chunk is
encrypted it does return it. (An encrypted chunk makes `decompress()` fail: it never returns
ciphertext as content.) -/
theorem blte_decompress_without_keys (cd : Codec) (law : Lawful cd) (keys : Nat → Option Bytes)
    (H : Bytes → Bytes) (hH : ∀ x, (H x).length = 16) (p : List Op) (b : Builder) (f : File)
    (hp : ProgOk cd keys Builder.init p) (hrun : run cd Builder.init p = .ok b)
    (hbuild : build H b = .ok f) (hsz : ∀ c ∈ f.chunks, 1 + c.data.length < 2 ^ 32) :
    (∀ x, decodePlainBytes cd (serialize f) = .ok x → x = content p) ∧
    ((∀ c ∈ f.chunks, c.mode ≠ .enc) → decodePlainBytes cd (serialize f) = .ok (content p)) := by
  have hrt := blte_roundtrip_partial cd law keys H hH p b f hp hrun hbuild hsz
  have hsz' := hsz
  rw [build_chunks H b f hbuild] at hsz'
  have hparse := (parse_serialize_build H hH b f hbuild hsz').1
  simp only [decodeBytes, hparse] at hrt
  constructor
  · intro x hx
    simp only [decodePlainBytes, hparse] at hx
    have := decodePlain_ok_decode cd keys _ x hx
    rw [hrt] at this
    exact (Except.ok.inj this).symm
  · intro hne
    simp only [decodePlainBytes, hparse]
    rw [decodePlain_eq_decode cd keys _ ?_, hrt]
    intro c hc
    obtain ⟨c', hc', rfl⟩ := List.mem_map.1 hc
    exact hne c' hc'

/-! ### Frame mode and nested containers: refused by encoder and decoder -/

/-- **No encoder call accepts Frame mode.**  `ChunkData::new(_, Frame)`, `single_chunk(_, Frame)`,
`compress(_, _, Frame)` and — under `with_compression(Frame)` — `add_data`, `add_mixed_data`
(plain or encrypted) and `add_encrypted_data` all return `Err`; so does
`add_chunk(ChunkData::new(_, Frame)?)` whatever the builder's mode. -/
theorem frame_mode_rejected_by_encoder (cd : Codec) (H : Bytes → Bytes) (d : Bytes) :
    Chunk.new cd d .frame = .error .unsupported ∧
    singleChunk cd d .frame = .error .unsupported ∧
    (∀ cs, ∃ e, compress cd H d cs .frame = .error e) ∧
    (∀ b : Builder, step cd b (.addChunkNew d .frame) = .error .unsupported) ∧
    (∀ b : Builder, b.mode = .frame →
      (∃ e, step cd b (.addData d) = .error e) ∧
      (∀ enc, ∃ e, step cd b (.addMixed d enc) = .error e) ∧
      (∀ s k i, step cd b (.addEncrypted d s k i) = .error .unsupported)) := by
  have h1 : Chunk.new cd d .frame = .error .unsupported := by
    simp [Chunk.new, compressChunk]
  have h2 : singleChunk cd d .frame = .error .unsupported := by simp [singleChunk, h1]
  refine ⟨h1, h2, ?_, ?_, ?_⟩
  · intro cs
    unfold compress
    by_cases hl : d.length ≤ cs
    · exact ⟨.unsupported, by simp only [hl, if_true, h2]⟩
    · by_cases h0 : cs = 0
      · subst h0
        exact ⟨.chunkSize, by simp only [hl, if_true, if_false]⟩
      · simp only [hl, h0, if_false]
        cases hs : splitLoop cs d.length d with
        | nil =>
          have := splitLoop_two cs (by omega) d (by omega)
          rw [hs] at this; simp at this
        | cons x xs =>
          exact ⟨.unsupported, by simp [makeChunks, makeChunk_frame]⟩
  · intro b
    simp only [step, h1]
  · intro b hm
    refine ⟨addWith_frame cd b hm b.enc d, fun enc => addWith_frame cd b hm enc d, ?_⟩
    intro s k i
    simp [step, hm, encChunk, buildInner, compressChunk]

/-- **No decoder accepts a Frame chunk.**  A container that holds a chunk of mode `F` anywhere —
however it was made — is never decoded: neither `decompress_with_keys` (any key store) nor
`decompress` returns `Ok`. -/
theorem frame_chunk_rejected_by_decoder (cd : Codec) (keys : Nat → Option Bytes) (f : File)
    (h : ∃ c ∈ f.chunks, c.mode = .frame) :
    (∀ x, decode cd keys f ≠ .ok x) ∧ (∀ x, decodePlain cd f ≠ .ok x) := by
  obtain ⟨c, hc, hm⟩ := h
  have h1 : ∀ x, decode cd keys f ≠ .ok x := by
    intro x hx
    unfold decode at hx
    split at hx
    · cases hx
    · exact decodeFrom_ok_no_frame cd keys f.chunks 0 x hx c hc hm
  exact ⟨h1, fun x hx => h1 x (decodePlain_ok_decode cd keys f x hx)⟩

/-- **Recursive BLTE is not unwrapped, it is refused**: the single-chunk container whose chunk is
`'F'` followed by ANY bytes `d` (a complete nested BLTE container, for instance) parses, and both
decoders answer `Err(UnsupportedCompressionMode)`. -/
theorem frame_container_rejected (cd : Codec) (keys : Nat → Option Bytes) (d : Bytes) :
    decodeBytes cd keys (magic ++ [0, 0, 0, 0] ++ 0x46 :: d) = .error .unsupported ∧
    decodePlainBytes cd (magic ++ [0, 0, 0, 0] ++ 0x46 :: d) = .error .unsupported := by
  have e : magic ++ [0, 0, 0, 0] ++ 0x46 :: d = serialize ⟨0, none, [⟨.frame, d, none⟩]⟩ := by
    have e0 : beBytes 4 0 = [0, 0, 0, 0] := by decide
    simp [serialize, e0, Chunk.bytes, Mode.byte]
  rw [e]
  simp [decodeBytes, decodePlainBytes, parse_serialize_single, decode, decodePlain, firstIsEnc,
    strip, Model.Blte.decodeFrom, decodePlainFrom, decodeChunk, decompressChunk]

/-- **A nested mode byte inside an encrypted chunk**: when the decrypted payload starts with `'F'`
the chunk is refused with `UnsupportedCompressionMode`, when it starts with `'E'` with
`NestedEncryption` — stated on chunks encrypted by `encrypt_chunk_with_key` at the index they are
decoded at, for every Salsa20/ARC4 spec whose key is in the store and every payload tail. -/
theorem nested_mode_byte_rejected (cd : Codec) (keys : Nat → Option Bytes) (rest ed : Bytes)
    (first : Byte) (spec : EncSpec) (key : Bytes) (idx : Nat) (decl : Option Nat)
    (hok : EncOk keys (spec, key)) (h : encryptChunk (first :: rest) spec key idx = .ok ed) :
    (first = 0x46 → decodeChunk cd keys ⟨.enc, ed, decl⟩ idx = .error .unsupported) ∧
    (first = 0x45 → decodeChunk cd keys ⟨.enc, ed, decl⟩ idx = .error .nested) := by
  have hd := decrypt_encrypt cd keys (first :: rest) ed spec key idx hok (by simp) h
  constructor
  · intro hf; subst hf
    simp only [decodeChunk, if_true, hd]
    simp [decodeInner, Mode.ofByte, decompressChunk]
  · intro hf; subst hf
    simp only [decodeChunk, if_true, hd]
    simp [decodeInner, Mode.ofByte]

/-- **A nested container is content**: handing the bytes of a complete BLTE container to the
encoder yields a container that decodes to those bytes verbatim — the decoder does not unwrap
nested BLTE. (Instance of `compress_roundtrip`; the same holds for builder programs by
`blte_roundtrip`.) -/
theorem nested_container_is_content (cd : Codec) (law : Lawful cd) (keys : Nat → Option Bytes)
    (H : Bytes → Bytes) (hH : ∀ x, (H x).length = 16) (inner : File) (cs : Nat) (mode : Mode)
    (f : File) (h : compress cd H (serialize inner) cs mode = .ok f)
    (hsz : ∀ c ∈ f.chunks, 1 + c.data.length < 2 ^ 32) :
    decodeBytes cd keys (serialize f) = .ok (serialize inner) :=
  (compress_roundtrip cd law keys H hH _ cs mode f h hsz).1

/-! ### side statements the proof needs -/

/-- The builder always prepends its own mode byte to the inner payload of an encrypted chunk, so
the decoder's mode sniffing never looks at the payload: whatever `d` starts with (`N`, `Z`, `4`,
`E`, `F` or anything else), the inner payload decodes to `d`. -/
theorem payload_mode_byte_irrelevant (cd : Codec) (law : Lawful cd) (mode : Mode) (d inner : Bytes)
    (h : buildInner cd mode d = .ok inner) : decodeInner cd inner = .ok d :=
  (buildInner_spec cd law mode d inner h).1

/-- The empty payload under encryption decodes (the pinned tree built a 16-byte encrypted chunk
that its own decoder refused; repaired): for any Salsa20/ARC4 spec with its key in the store, the
program `with_encryption; add_data([])` round-trips to the empty content whenever it builds. -/
theorem empty_encrypted_decodes (cd : Codec) (law : Lawful cd) (keys : Nat → Option Bytes)
    (H : Bytes → Bytes) (hH : ∀ x, (H x).length = 16) (s : EncSpec) (k : Bytes)
    (hk : EncOk keys (s, k)) (b : Builder) (f : File)
    (hrun : run cd Builder.init [.withEncryption s k, .addData []] = .ok b)
    (hbuild : build H b = .ok f) (hsz : ∀ c ∈ f.chunks, 1 + c.data.length < 2 ^ 32) :
    decodeBytes cd keys (serialize f) = .ok [] := by
  have hp : ∀ op ∈ [Op.withEncryption s k, Op.addData []], StaticOk keys op := by
    intro op hop
    simp only [List.mem_cons, List.not_mem_nil, or_false] at hop
    rcases hop with rfl | rfl
    · exact ⟨hk, trivial⟩
    · exact ⟨trivial, trivial⟩
  exact blte_roundtrip cd law keys H hH _ b f hp hrun hbuild hsz

/-- `parse ∘ serialize` alone: the container `build` returns reads back with the same header
size, the same table and the same chunks (mode and data). -/
theorem blte_parse_serialize (H : Bytes → Bytes) (hH : ∀ x, (H x).length = 16) (b : Builder)
    (f : File) (hbuild : build H b = .ok f) (hsz : ∀ c ∈ b.chunks, 1 + c.data.length < 2 ^ 32) :
    parse (serialize f) = .ok ⟨f.headerSize, f.table, f.chunks.map strip⟩ :=
  (parse_serialize_build H hH b f hbuild hsz).1

/-- The chunk loop's slices concatenate to the payload for every chunk size ≥ 1 (termination
argument of the Rust `while`: the fuel `data.len()` is never exhausted early). -/
theorem chunking_covers_payload (cs : Nat) (d : Bytes) (ps : List Bytes)
    (h : pieces cs d = .ok ps) : ps.flatten = d :=
  pieces_flatten cs d ps h

/-! ### the documented chunk-size limits and the chunk table

`with_chunk_size` bounds the CONTENT of a chunk (1 KiB ..= 16 MiB). The table records the STORED
length: content or compressed stream + the mode byte, + 16 more bytes for an encrypted chunk. -/

/-- **`with_chunk_size` accepts exactly the documented range** `MIN_CHUNK_SIZE ..= MAX_CHUNK_SIZE`
(both ends included) and returns `Err(InvalidChunkSize)` outside it. -/
theorem with_chunk_size_limits (cd : Codec) (b : Builder) (n : Nat) :
    step cd b (.withChunkSizeChecked n) =
      if minChunkSize ≤ n ∧ n ≤ maxChunkSize then .ok { b with chunkSize := n }
      else .error .chunkSize := by
  simp only [step]
  by_cases h : n < minChunkSize ∨ maxChunkSize < n
  · have : ¬ (minChunkSize ≤ n ∧ n ≤ maxChunkSize) := by omega
    simp only [h, this, if_true, if_false]
  · have : minChunkSize ≤ n ∧ n ≤ maxChunkSize := by omega
    simp only [h, this, and_self, if_true, if_false]

/-- **Every table entry a program within the documented limits can emit passes the reader's
guards.**  For every builder program that sets the chunk size through the validated
`with_chunk_size` only (or leaves the default) and gives `add_encrypted_data` / `add_chunk` at most
one maximal chunk of content (`Documented`), with a compressor that returns at most `B` bytes on
content of up to `MAX_CHUNK_SIZE` bytes: every chunk is stored in at most
`storedBound B = max MAX_CHUNK_SIZE B + 17` bytes; if that is below `2^32`, every table entry is
exactly the stored length of its chunk (no `as u32` truncation, never 0), `ChunkData::read_options`
reads exactly that chunk back from it, and the whole container parses to what `build` wrote. -/
theorem documented_limits_fit_table (cd : Codec) (B : Nat) (hB : Proofs.BlteLimits.Bounded cd B)
    (hfit : Proofs.BlteLimits.storedBound B < 2 ^ 32) (keys : Nat → Option Bytes) (H : Bytes → Bytes)
    (hH : ∀ x, (H x).length = 16) (p : List Op) (b : Builder) (f : File)
    (hp : ProgOk cd keys Builder.init p) (hdoc : ∀ op ∈ p, Proofs.BlteLimits.Documented op)
    (hrun : run cd Builder.init p = .ok b) (hbuild : build H b = .ok f) :
    (∀ c ∈ f.chunks, 1 + c.data.length ≤ Proofs.BlteLimits.storedBound B) ∧
    (∀ rows, f.table = some rows →
      rows.map (·.csize) = f.chunks.map (fun c => 1 + c.data.length) ∧
      ∀ c ∈ f.chunks, ∀ rest, parseChunk (Row.ofChunk H c).csize (c.bytes ++ rest) = some (strip c, rest)) ∧
    parse (serialize f) = .ok ⟨f.headerSize, f.table, f.chunks.map strip⟩ := by
  have hlim := (Proofs.BlteLimits.run_lim cd B hB keys p Builder.init b (Proofs.BlteLimits.limInv_init B) hp hdoc hrun).2.2
  have hch := build_chunks H b f hbuild
  have hsz : ∀ c ∈ b.chunks, 1 + c.data.length < 2 ^ 32 := fun c hc =>
    Nat.lt_of_le_of_lt (hlim c hc) hfit
  have hrow : ∀ c ∈ b.chunks, (Row.ofChunk H c).csize = 1 + c.data.length := fun c hc => by
    simp only [Row.ofChunk]; exact Nat.mod_eq_of_lt (hsz c hc)
  refine ⟨by rw [hch]; exact hlim, ?_, (parse_serialize_build H hH b f hbuild hsz).1⟩
  intro rows hrows
  rw [hch]
  refine ⟨?_, fun c hc rest => by rw [hrow c hc]; exact parseChunk_bytes c rest⟩
  rcases build_cases H b f hbuild with ⟨c, _, _, rfl⟩ | ⟨_, _, rfl⟩
  · cases hrows
  · simp only [Option.some.injEq] at hrows; subst hrows
    rw [List.map_map]
    exact List.map_congr_left (fun c hc => hrow c hc)

/-- **Round trip within the documented limits, without a size hypothesis.**  The range hypothesis
of `blte_roundtrip_partial` ("every serialised chunk is shorter than 2^32 bytes") follows from the
builder's own limits: chunk size set by `with_chunk_size` (≤ 16 MiB), single pieces of at most
16 MiB, a compressor that stays below `2^32 - 17` bytes on such content. -/
theorem blte_roundtrip_documented_limits (cd : Codec) (law : Lawful cd) (B : Nat)
    (hB : Proofs.BlteLimits.Bounded cd B) (hfit : Proofs.BlteLimits.storedBound B < 2 ^ 32)
    (keys : Nat → Option Bytes) (H : Bytes → Bytes) (hH : ∀ x, (H x).length = 16) (p : List Op)
    (b : Builder) (f : File) (hp : ProgOk cd keys Builder.init p)
    (hdoc : ∀ op ∈ p, Proofs.BlteLimits.Documented op) (hrun : run cd Builder.init p = .ok b)
    (hbuild : build H b = .ok f) : decodeBytes cd keys (serialize f) = .ok (content p) := by
  have h := (documented_limits_fit_table cd B hB hfit keys H hH p b f hp hdoc hrun hbuild).1
  exact blte_roundtrip_partial cd law keys H hH p b f hp hrun hbuild
    (fun c hc => Nat.lt_of_le_of_lt (h c hc) hfit)

/-- **A table entry may exceed `MAX_CHUNK_SIZE`.**  A chunk filled to the documented maximum of
content is stored in `MAX_CHUNK_SIZE + 1` bytes in mode N and in `MAX_CHUNK_SIZE + 17` bytes when
encrypted (inner mode N; `[u8; 16]` key, `[u8; 4]` IV), and that is what its table entry says: a
reader that took `MAX_CHUNK_SIZE` for a limit on table entries would refuse the builder's own
output (the program `with_chunk_size(MAX_CHUNK_SIZE); add_data(small); add_data(d)` is within the
documented limits). -/
theorem full_chunk_table_entry_exceeds_max (cd : Codec) (H : Bytes → Bytes) (d : Bytes)
    (hd : d.length = maxChunkSize) :
    (∀ c, Chunk.new cd d .none = .ok c → (Row.ofChunk H c).csize = maxChunkSize + 1) ∧
    (∀ spec key idx c, key.length = 16 → spec.iv.length = 4 →
      encChunk cd .none d spec key idx = .ok c → (Row.ofChunk H c).csize = maxChunkSize + 17) ∧
    (∀ s k small, Proofs.BlteLimits.Documented (.withChunkSizeChecked maxChunkSize) ∧
      Proofs.BlteLimits.Documented (.withEncryption s k) ∧ Proofs.BlteLimits.Documented (.addData small) ∧
      Proofs.BlteLimits.Documented (.addData d)) := by
  refine ⟨?_, ?_, fun _ _ _ => ⟨trivial, trivial, trivial, trivial⟩⟩
  · intro c hc
    simp only [Chunk.new, if_true, Except.ok.injEq] at hc; subst hc
    simp only [Row.ofChunk, hd, maxChunkSize]
  · intro spec key idx c hk hiv hc
    unfold encChunk at hc
    have hin : buildInner cd .none d = .ok (Mode.none.byte :: d) := by simp [buildInner]
    rw [hin] at hc
    simp only at hc
    split at hc
    · cases hc
    · rename_i ed hed
      simp only [Except.ok.injEq] at hc; subst hc
      have hl := Proofs.BlteLimits.encryptChunk_len _ ed spec key idx hk hiv hed
      simp only [Row.ofChunk, hl, List.length_cons, hd, maxChunkSize, encHeaderLen]

/-! ### non-vacuity: the hypotheses are met by concrete, non-trivial programs -/

/-- a lawful codec exists (identity); the real zlib/LZ4 are exercised by the correspondence run. -/
def idCodec : Codec := ⟨fun _ x => some x, fun _ c => some c⟩
example : Lawful idCodec := by
  intro m x c h
  simp only [idCodec, Option.some.injEq] at h ⊢
  exact h.symm

/-- the hypotheses of the documented-limits theorems are satisfiable: the identity codec returns
at most `MAX_CHUNK_SIZE` bytes on content within the limit; and the bound the run checks on the
real zlib / LZ4 (`len + len/255 + 64`, oracle clause `param-bound-compress-expansion`) leaves the
stored length of a maximal chunk far below `2^32`. -/
example : Proofs.BlteLimits.Bounded idCodec maxChunkSize ∧
    Proofs.BlteLimits.storedBound maxChunkSize < 2 ^ 32 ∧
    Proofs.BlteLimits.storedBound (maxChunkSize + maxChunkSize / 255 + 64) < 2 ^ 32 := by
  refine ⟨?_, by decide, by decide⟩
  intro m x c hx h
  simp only [idCodec, Option.some.injEq] at h; subst h; exact hx

/-- cs = 2, Salsa20, `add_data` of `N Z 4` (two chunks), `add_mixed_data` plain, then a second
`add_data` under encryption, zlib mode for the last: every call `Ok`, `build` `Ok`, and the
container decodes to the six added bytes — evaluated by the kernel on the model. -/
example :
    let key : Bytes := List.replicate 16 7
    let spec : EncSpec := ⟨7, [9, 8, 7, 6], 0x53⟩
    let keys : Nat → Option Bytes := fun n => if n = 7 then some key else none
    let p : List Op := [.withChunkSize 2, .withEncryption spec key, .addData [0x4E, 0x5A, 0x34],
      .addMixed [0x45] none, .withCompression .zlib, .addData [0x46, 0x00]]
    (∀ op ∈ p, StaticOk keys op) ∧
    isOkWith (roundTrip idCodec keys (fun _ => List.replicate 16 0) p)
      [0x4E, 0x5A, 0x34, 0x45, 0x46, 0x00] = true := by
  refine ⟨?_, by decide +kernel⟩
  intro op hop
  simp only [List.mem_cons, List.not_mem_nil, or_false] at hop
  rcases hop with rfl | rfl | rfl | rfl | rfl | rfl
  · exact ⟨trivial, trivial⟩
  · exact ⟨⟨by decide, by decide, by decide, by decide⟩, trivial⟩
  all_goals exact ⟨trivial, trivial⟩

/-- the entry points outside the builder on concrete inputs (kernel evaluation of the model):
`compress` of five bytes starting with `F E` at chunk size 2 (three chunks, table, read with
`decompress()`), at chunk size 9 (single chunk), `multi_chunk` and `multi_chunk_extended` over two
`ChunkData::new` chunks, `single_chunk` — all return `Ok` within the size bounds and decode to the
payload, so the hypotheses of `compress_roundtrip`, `compress_table_truthful`,
`single_chunk_roundtrip`, `multi_chunk_roundtrip`, `multi_chunk_extended_roundtrip` and
`nested_container_is_content` are met by non-trivial instances. -/
example :
    let H : Bytes → Bytes := fun _ => List.replicate 16 0
    let d : Bytes := [0x46, 0x45, 0x00, 0x4E, 0x5A]
    let small : File → Bool := fun f => f.chunks.all fun c => decide (1 + c.data.length < 2 ^ 32)
    (match compress idCodec H d 2 .zlib with
     | .ok f => small f && f.chunks.length == 3 && isOkWith (decodePlainBytes idCodec (serialize f)) d
     | .error _ => false) = true ∧
    (match compress idCodec H d 9 .lz4 with
     | .ok f => small f && f.chunks.length == 1 &&
         isOkWith (decodeBytes idCodec (fun _ => none) (serialize f)) d
     | .error _ => false) = true ∧
    (match singleChunk idCodec d .none with
     | .ok f => isOkWith (decodePlainBytes idCodec (serialize f)) d
     | .error _ => false) = true ∧
    (match newChunks idCodec [([0x46, 0x45], .none), ([0x00, 0x4E, 0x5A], .zlib)] with
     | .ok chunks =>
       (match multiChunk H chunks with
        | .ok f => small f && isOkWith (decodePlainBytes idCodec (serialize f)) d
        | .error _ => false) &&
       (match multiChunkExt idCodec H chunks with
        | .ok xf => xf.headerSize == 92 && isOkWith (decodePlainBytes idCodec (serializeX xf)) d
        | .error _ => false)
     | .error _ => false) = true ∧
    (match compress idCodec H d 9 .none with
     | .ok inner =>
       (match compress idCodec H (serialize inner) 4 .none with
        | .ok f => small f && isOkWith (decodePlainBytes idCodec (serialize f)) (serialize inner)
        | .error _ => false)
     | .error _ => false) = true := by decide +kernel

/-- the hypotheses of `nested_mode_byte_rejected` are met: a Salsa20 spec with its key in the store
encrypts an inner payload starting with `'F'` / `'E'`; and a file with a Frame chunk exists
(`frame_chunk_rejected_by_decoder`). -/
example :
    let key : Bytes := List.replicate 16 7
    let spec : EncSpec := ⟨7, [9, 8, 7, 6], 0x53⟩
    let keys : Nat → Option Bytes := fun n => if n = 7 then some key else none
    EncOk keys (spec, key) ∧
    (match encryptChunk (0x46 :: [1, 2]) spec key 3 with | .ok _ => true | .error _ => false) = true ∧
    (match encryptChunk (0x45 :: []) spec key 0 with | .ok _ => true | .error _ => false) = true ∧
    (∃ c ∈ (⟨0, none, [⟨.frame, [1], none⟩]⟩ : File).chunks, c.mode = .frame) :=
  ⟨⟨by decide, by decide, by decide, by decide⟩, by decide +kernel, by decide +kernel,
    ⟨_, List.mem_singleton.2 rfl, rfl⟩⟩

end Cascette.Props.C01
