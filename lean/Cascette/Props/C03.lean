/-
Props/C03 — Content resolution finds exactly what was indexed.
Property theorems only; helper lemmas live in Proofs/Paged, Proofs/Encoding, Proofs/ArchiveIndex,
Proofs/RootFile, Proofs/TvfsPath. Models = the Rust code as written (Model/Paged, Model/Encoding,
Model/ArchiveIndex, Model/RootFile, Model/TvfsPath); Spec = linear scan of the inserted entries
(Spec/Lookup): for a set of entries with distinct keys that is "the inserted value, or nothing".
-/
import Cascette.Proofs.Paged
import Cascette.Proofs.Encoding
import Cascette.Proofs.ArchiveIndex
import Cascette.Proofs.RootFile
import Cascette.Proofs.TvfsPath
import Cascette.Proofs.TvfsTables
import Cascette.Proofs.GroupMerge
import Cascette.Proofs.Resolver
namespace Cascette.Props.C03
open Cascette.Model.Paged Cascette.Model.Encoding Cascette.Proofs.Paged Cascette.Proofs.Encoding
open Cascette.Spec.Lookup

/-! ### generic paged sorted table (encoding CKey / EKey pages) -/

/-- **paged_find_eq_lookup.** For ANY list of entries with distinct keys, ANY entry-size function
and ANY page byte budget (an entry larger than the budget gets a page of its own, as in the Rust
loop): sort, cut into pages, index by first keys; then `partition_point` over the index + linear
scan in the selected page returns, for EVERY probe key (present or absent), exactly what a linear
scan of the inserted entries returns. The indexing `pages[i-1]` never goes out of range (`some`). -/
theorem paged_find_eq_lookup {ε : Type} (key : ε → Key) (sz : ε → Nat) (budget : Nat) (es : List ε)
    (hd : Distinct key es) (k : Key) :
    Table.find key (mkTable key (paginate sz budget (es.mergeSort (fun a b => kle (key a) (key b))) [] 0)) k
      = some (lookup key es k) :=
  Proofs.Paged.paged_find_eq_lookup key sz budget es hd k

/-- **all_flavours_eq_linear_scan.** On every well-formed parsed table (pages non-empty, index key =
first key of the page, concatenation strictly ascending) the page-index lookup equals a linear
scan over all parsed entries. -/
theorem all_flavours_eq_linear_scan {ε : Type} (key : ε → Key) (t : Table ε) (h : WF key t) (k : Key) :
    Table.find key t k = some ((t.flatMap (·.2)).find? (fun e => key e == k)) := by
  rw [find_eq_findRec key t k h.indexSorted, findRec_eq_scan key t k h]

/-- **batch_eq_map_single.** For every table with a strictly ascending page index and EVERY list of
probe keys (any order, repeats allowed), the sort-and-merge batch lookup equals, position by
position, the single lookup of that probe. -/
theorem batch_eq_map_single {ε : Type} (key : ε → Key) (t : Table ε) (h : IndexSorted t) (ks : List Key) :
    (Table.batch key t ks).map some = ks.map (Table.find key t) := by
  rw [batch_eq_map key t ks h, List.map_map]
  apply List.map_congr_left
  intro k _
  simp [find_eq_findRec key t k h]

/-! ### encoding table: builder → serializer → parser → lookups -/

/-- `find_encoding` / `find_all_encodings` after build+serialize+parse: exactly the inserted EKeys of
an inserted content key, nothing for any other key. Hypotheses: content keys distinct; every entry
has 1..255 encoding keys (the count is a `u8`; 0 is the page parser's padding mark). -/
theorem enc_find_encoding_eq_lookup (b : Builder) (f : File) (hb : b.buildParse = some f)
    (hd : Distinct CEntry.ckey b.centries)
    (hk : ∀ e ∈ b.centries, 1 ≤ e.ekeys.length ∧ e.ekeys.length ≤ 255) (k : Key) :
    f.findEncoding k = some ((lookup CEntry.ckey b.centries k).map (·.ekeys.head?)) ∧
    f.findAll k = some (match lookup CEntry.ckey b.centries k with | some e => e.ekeys | none => []) := by
  have hpad : ∀ e ∈ b.centries, e.isPad = false := by
    intro e he
    have := hk e he
    simp only [CEntry.isPad, beq_eq_false_iff_ne, ne_eq]
    omega
  unfold File.findEncoding File.findAll
  rw [ckey_find b f hb hd hpad k]
  exact ⟨rfl, rfl⟩

/-- `find_espec` after build+serialize+parse: exactly the inserted ESpec string of an inserted
encoding key, nothing for any other key. Hypotheses: encoding keys distinct; no built entry is one
of the two padding sentinels of `EKeyPageEntry::read_options` (espec index 0xFFFFFFFF; all-zero key
with espec index 0). -/
theorem enc_find_espec_eq_lookup (b : Builder) (f : File) (hb : b.buildParse = some f)
    (hd : Distinct (fun (x : Key × ESpec × Nat) => x.1) b.eentries)
    (hpad : ∀ x ∈ b.eentries, (mkE b x).isPad = false) (k : Key) :
    f.findEspec k = some ((lookup (fun (x : Key × ESpec × Nat) => x.1) b.eentries k).map (·.2.1)) := by
  unfold File.findEspec
  rw [ekey_find b f hb hd hpad k]
  obtain ⟨_, _, hsp⟩ := buildParse_some b f hb
  simp only [Option.map_some, Option.some.injEq]
  cases hl : lookup (fun (x : Key × ESpec × Nat) => x.1) b.eentries k with
  | none => rfl
  | some x =>
    simp only [Option.map_some, Option.bind_some, mkE, hsp]
    apply especTable_get
    have := List.mem_of_find?_eq_some hl
    exact List.mem_map.2 ⟨x, this, rfl⟩

/-- batch lookups on the built-serialized-parsed encoding table = element-wise single lookups = the
inserted entries. -/
theorem enc_batch_eq_lookup (b : Builder) (f : File) (hb : b.buildParse = some f)
    (hd : Distinct CEntry.ckey b.centries)
    (hk : ∀ e ∈ b.centries, 1 ≤ e.ekeys.length ∧ e.ekeys.length ≤ 255) (ks : List Key) :
    f.batchEncodings ks = ks.map (lookup CEntry.ckey b.centries) := by
  have hpad : ∀ e ∈ b.centries, e.isPad = false := by
    intro e he
    have := hk e he
    simp only [CEntry.isPad, beq_eq_false_iff_ne, ne_eq]
    omega
  obtain ⟨hs, hf⟩ := ckey_indexSorted b f hb hd hpad
  unfold File.batchEncodings
  rw [batch_eq_map CEntry.ckey f.ctable ks hs]
  apply List.map_congr_left
  intro k _
  have h1 := hf k
  rw [ckey_find b f hb hd hpad k] at h1
  exact (Option.some.inj h1).symm

/-! #### the full-strength EKey statement is false of the tree (known finding) -/

def zeroKey : Key := List.replicate 16 0
def onesKey : Key := List.replicate 16 1
def witnessC : CEntry := { ckey := List.replicate 16 9, size := 5, ekeys := [zeroKey] }
/-- all-zero EKey whose ESpec "z" is the first of the table, and a second key on the same page -/
def witnessEnc : Builder :=
  { cpage := 1024, epage := 1024, centries := [witnessC], eentries := [(zeroKey, [122], 7), (onesKey, [110], 8)] }

/-- counter-witness (kernel-evaluated): both inserted encoding keys — the all-zero one AND its page
neighbour — resolve to nothing after serialize+parse, because the all-zero key with espec index 0 is
read as zero-fill padding and ends the page. Replayed on the real code by
corpus/C03/enc-zero-ekey-espec0.case (sig enc-zero-ekey-espec0-is-padding). -/
theorem enc_zero_ekey_counter_witness :
    Distinct (fun (x : Key × ESpec × Nat) => x.1) witnessEnc.eentries ∧
    (witnessEnc.buildParse.map fun f => (f.findEspec zeroKey, f.findEspec onesKey)) = some (some none, some none) ∧
    (lookup (fun (x : Key × ESpec × Nat) => x.1) witnessEnc.eentries onesKey).map (·.2.1) = some [110] := by
  refine ⟨by unfold Distinct; decide, ?_, by decide⟩
  have h1 : sortBy CEntry.ckey witnessEnc.centries = witnessEnc.centries := List.mergeSort_of_pairwise (by decide)
  have h2 : sortBy (fun (x : Key × ESpec × Nat) => x.1) witnessEnc.eentries = witnessEnc.eentries :=
    List.mergeSort_of_pairwise (by decide)
  unfold Builder.buildParse
  simp only [h1, h2]
  decide

/-! ### non-vacuity -/

def okEnc : Builder :=
  { cpage := 1024, epage := 1024, centries := [witnessC], eentries := [(onesKey, [122], 8), (zeroKey, [110], 7)] }

/-- the hypotheses of the encoding theorems are met by a concrete instance that even contains the
all-zero key (with a non-first ESpec), and the lookups then return the inserted values -/
example : (∀ x ∈ okEnc.eentries, (mkE okEnc x).isPad = false) ∧ Distinct CEntry.ckey okEnc.centries ∧
    (∀ e ∈ okEnc.centries, 1 ≤ e.ekeys.length ∧ e.ekeys.length ≤ 255) := by
  unfold Distinct; decide


/-! ### CDN archive index and archive group -/

open Cascette.Model.ArchiveIndex in
/-- **toc_search_eq_lookup, soundness half (all probes, all key sizes, all offset widths, any TOC).**
Whatever `binary_search_key` returns is a parsed record carrying exactly the probe key: a key that
is not in the index resolves to nothing, and no probe ever gets another key's value. Holds for
truncated and over-long probes as well (the TOC comparison only picks the block; the in-block search
compares full keys). -/
theorem toc_search_sound (c : Chunked Entry) (k : Key) (e : Entry)
    (h : Model.ArchiveIndex.find c k = some (some e)) : e ∈ c.entries ∧ e.key = k :=
  Proofs.ArchiveIndex.chunked_find_sound Entry.key c k e h

/-- the in-block step of `binary_search_key` (and any `binary_search_by` over records): on a strictly
ascending record list it equals a linear scan -/
theorem block_search_eq_linear_scan {ε : Type} (key : ε → Key) (l : List ε) (k : Key)
    (hs : l.Pairwise (fun a b => klt (key a) (key b) = true)) :
    (match binarySearchBy (fun e => kcmp (key e) k) l with
     | .ok i => l[i]?
     | .error _ => none) = l.find? (fun e => key e == k) :=
  Proofs.ArchiveIndex.binarySearch_eq_scan key l k hs

open Cascette.Model.ArchiveIndex in
/-- `ArchiveGroup::find_entry` on a parsed group (records strictly ascending, which
`ArchiveIndex::parse` checks for distinct keys) = linear scan of its records. -/
theorem group_find_eq_linear_scan (g : List GEntry) (k : Key)
    (hs : g.Pairwise (fun a b => klt a.key b.key = true)) :
    groupFind g k = g.find? (fun e => e.key == k) :=
  Proofs.ArchiveIndex.groupFind_eq_scan g k hs

open Cascette.Model.ArchiveIndex in
/-- **toc_search_complete (every parsed index that passes `ArchiveIndex::validate`).** For ANY index
structure whose records are strictly ascending, whose keys all have the index's key size and whose
TOC passes the executable `validate_toc_consistency` check (block capacity ≥ 1), the TOC-guided
search — binary search over the TOC of last keys with the truncated-prefix comparison, then binary
search inside the selected block — returns for EVERY probe (present, absent, shorter or longer than
the key size) exactly what a linear scan over all records returns, and the slice
`entries[start..end]` is never out of range (`some`). This is the completeness half: the TOC search
selects the one block that can hold the key. -/
theorem toc_search_complete (c : Chunked Entry) (ks : Nat) (h0 : 0 < c.rpb)
    (hs : c.entries.Pairwise (fun a b => klt a.key b.key = true))
    (hlen : ∀ e ∈ c.entries, e.key.length = ks)
    (htc : tocConsistent c.entries c.toc c.rpb = true) (k : Key) :
    Model.ArchiveIndex.find c k = some (c.entries.find? (fun e => e.key == k)) :=
  Proofs.ArchiveIndex.chunked_find_eq_scan Entry.key c ks hs hlen
    (Proofs.ArchiveIndex.tocOK_of_check c.entries c.toc c.rpb h0 htc) k

open Cascette.Model.ArchiveIndex in
/-- **toc_search_eq_lookup (full statement).** For every key size `ks`, offset width `ob`, block
capacity `rpb ≥ 1` and EVERY set of entries with distinct `ks`-byte keys whose size/offset fit their
fields and none of which is the all-zero padding record: whenever builder → bytes → parser yields an
index, `binary_search_key` on it returns for EVERY probe key exactly the inserted entry, and nothing
for a key that was not inserted. -/
theorem toc_search_eq_lookup (ks ob rpb : Nat) (input : List Entry) (hrpb : 0 < rpb)
    (hlen : ∀ e ∈ input, e.key.length = ks) (hd : Distinct Entry.key input)
    (hfit : ∀ e ∈ input, stored ob e = e) (hnz : ∀ e ∈ input, e.isZero = false)
    (c : Chunked Entry) (hb : buildParse ks ob rpb input = some c) (k : Key) :
    Model.ArchiveIndex.find c k = some (lookup Entry.key input k) :=
  Proofs.ArchiveIndex.buildParse_find_eq_lookup ks ob rpb input hrpb hlen hd hfit hnz c hb k

open Cascette.Model.ArchiveIndex in
/-- non-vacuity of `toc_search_eq_lookup` / `toc_search_complete` (a test, kernel-evaluated): five
2-byte keys in blocks of two (three blocks, the last one short) build and parse, and meet every
hypothesis. -/
example :
    let input : List Entry := [⟨[0, 0], 1, 0, none⟩, ⟨[0, 255], 2, 5, none⟩, ⟨[1, 0], 3, 9, none⟩,
      ⟨[7, 7], 4, 11, none⟩, ⟨[255, 255], 5, 4294967295, none⟩]
    (∀ e ∈ input, e.key.length = 2) ∧ Distinct Entry.key input ∧ (∀ e ∈ input, stored 4 e = e) ∧
    (∀ e ∈ input, e.isZero = false) ∧
    (buildParse 2 4 2 input).map (fun c => (c.entries.length, c.toc)) = some (5, [[0, 255], [7, 7], [255, 255]]) := by
  intro input
  refine ⟨by decide, by unfold Distinct; decide, by decide, by decide, ?_⟩
  have h : sortEntries input = input := List.mergeSort_of_pairwise (by decide)
  unfold buildParse
  simp only [h]
  decide

/-! ### root manifest: header detection and FileDataID delta coding -/

open Cascette.Model.RootFile Cascette.Proofs.RootFile in
/-- **root_header_roundtrip (partial: outside the ambiguous window).** A classic V2 header
(either endianness, any 32-bit counts) that is NOT in the window `16 ≤ total < 100 ∧ named < 10` is
read back as itself, the reader stops exactly after it, and `detect` reports V2. -/
theorem root_header_roundtrip_partial (l : Bool) (t n : Nat) (rest : Bytes)
    (ht : t < 4294967296) (hn : n < 4294967296) (h : ¬ Ambiguous t n) :
    Header.read ((Header.classic l t n).write ++ rest) = some (Header.classic l t n, rest) ∧
    detect ((Header.classic l t n).write ++ rest) = some (Header.classic l t n).version :=
  classic_roundtrip l t n rest ht hn h

open Cascette.Model.RootFile Cascette.Proofs.RootFile in
/-- the extended header the builder writes for V3/V4 (header_size 20, version 1..4) round-trips for
every endianness and every pair of counts, and `detect` agrees with the header's version -/
theorem root_ext_header_roundtrip (l : Bool) (v t n : Nat) (rest : Bytes) (hv : 1 ≤ v ∧ v ≤ 4)
    (ht : t < 4294967296) (hn : n < 4294967296) :
    Header.read ((Header.ext l 20 v t n 0).write ++ rest) = some (Header.ext l 20 v t n 0, rest) ∧
    detect ((Header.ext l 20 v t n 0).write ++ rest) = some (Header.ext l 20 v t n 0).version :=
  ext_roundtrip l v t n rest hv ht hn

open Cascette.Model.RootFile in
/-- counter-witness to the full statement (kernel-evaluated): the classic V2 header of a root with
20 files, none named, is read as an extended header (header_size 20, version 0 → V3, the next 8
bytes taken as counts); with 16 files of which 3 are named, `detect` even says V3 while the header
layout is V2. Replayed on the real code by corpus/C03/root-header-ambiguity.case and
root-v2-20-files.case (sig root-v2-small-header-ambiguity). -/
theorem root_header_ambiguity_counter_witness :
    Header.read ((Header.classic true 20 0).write ++ List.replicate 8 0) = some (.ext true 20 0 0 0 0, []) ∧
    detect ((Header.classic true 16 3).write ++ List.replicate 8 0) = some .v3 ∧
    (Header.classic true 16 3).version = .v2 := by decide

open Cascette.Model.RootFile Cascette.Proofs.RootFile in
/-- **fdid_delta_roundtrip.** decode ∘ encode = id for EVERY sequence of 32-bit FileDataIDs —
ascending or not, with gaps up to 2^32-1 (both directions use wrapping arithmetic). -/
theorem fdid_delta_roundtrip (ids : List Nat) (h : ∀ x ∈ ids, x < 4294967296) :
    decodeDeltas (encodeDeltas ids) = ids :=
  delta_roundtrip ids h

/-! ### root manifest: whole file (builder → bytes → parser → lookup tables) -/

open Cascette.Model.RootFile Cascette.Proofs.RootFile in
/-- **root_parse_build (whole-file round trip, V1–V4, named and unnamed, any number of blocks).** For
EVERY non-empty list of (locale, content, records) blocks handed to the builder that satisfies
`GoodBlock` (1..1 000 000 records per block — the parser treats a larger count as an empty block —
32-bit locale and FileDataIDs, content flags within the version's field (32 bits, 40 for V4), 16-byte
content keys, a name hash on every record iff the block's format carries them: V1 always, V2+ iff
NO_NAME_HASH is clear), with fewer than 2^32 files in total and, for V2, outside the recorded
header-ambiguity window: `RootBuilder::build` succeeds and `RootFile::parse` of its bytes returns
the same version, the header that was written, and exactly the inserted blocks — sorted by
(locale, content), each block's records sorted by FileDataID, nothing lost, nothing added. Byte
level: header codec, FDID delta codec, interleaved (V1) and separated (V2–V4) arrays, 5-byte V4
content flags, block loop with its fuel. -/
theorem root_parse_build (v : Version) (blocks : List (Nat × Nat × List Rec)) (hne : blocks ≠ [])
    (hg : ∀ b ∈ blocks, GoodBlock v b.1 b.2.1 b.2.2) (htot : totalOf blocks < 4294967296)
    (hamb : v = .v2 → ¬ Ambiguous (totalOf blocks) (namedOf blocks)) :
    ∃ bytes, build v blocks = some bytes ∧
      parse bytes = some { version := v, header := headerOf v blocks,
                           blocks := (builtBlocks blocks).map fun b => mkBlock b.1 b.2.1 b.2.2 } :=
  parse_build v blocks hne hg htot hamb

open Cascette.Model.RootFile Cascette.Proofs.RootFile in
/-- **root_resolve_eq_inserted.** Under the hypotheses of `root_parse_build`, on the built-then-parsed
root, for EVERY FileDataID, locale mask and content mask: (1) whatever `resolve_by_id` returns is the
content key of an inserted record with that FileDataID in a block matching the query; (2) it returns
nothing iff no inserted record with that FileDataID is in a matching block — in particular nothing
for an id that was never inserted; (3) if the matching inserted records of that id all carry one
content key (e.g. the id is unique), exactly that key is returned. (4)–(6): the same for
`resolve_by_hash` and the records whose name hash is the probe. -/
theorem root_resolve_eq_inserted (v : Version) (blocks : List (Nat × Nat × List Rec)) (hne : blocks ≠ [])
    (hg : ∀ b ∈ blocks, GoodBlock v b.1 b.2.1 b.2.2) (htot : totalOf blocks < 4294967296)
    (hamb : v = .v2 → ¬ Ambiguous (totalOf blocks) (namedOf blocks)) :
    ∃ bytes p, build v blocks = some bytes ∧ parse bytes = some p ∧ p.version = v ∧
      (∀ fdid loc cf,
        (∀ ck, p.resolveById fdid loc cf = some ck →
          ∃ b ∈ blocks, ∃ r ∈ b.2.2, r.fdid = fdid ∧ entryMatches b.1 b.2.1 loc cf = true ∧ r.ckey = ck) ∧
        (p.resolveById fdid loc cf = none ↔
          ∀ b ∈ blocks, ∀ r ∈ b.2.2, r.fdid = fdid → entryMatches b.1 b.2.1 loc cf = false) ∧
        (∀ b ∈ blocks, ∀ r ∈ b.2.2, r.fdid = fdid → entryMatches b.1 b.2.1 loc cf = true →
          (∀ b' ∈ blocks, ∀ r' ∈ b'.2.2, r'.fdid = fdid → entryMatches b'.1 b'.2.1 loc cf = true → r'.ckey = r.ckey) →
          p.resolveById fdid loc cf = some r.ckey)) ∧
      (∀ hash loc cf,
        (∀ ck, p.resolveByHash hash loc cf = some ck →
          ∃ b ∈ blocks, ∃ r ∈ b.2.2, r.nameHash = some hash ∧ entryMatches b.1 b.2.1 loc cf = true ∧ r.ckey = ck) ∧
        (p.resolveByHash hash loc cf = none ↔
          ∀ b ∈ blocks, ∀ r ∈ b.2.2, r.nameHash = some hash → entryMatches b.1 b.2.1 loc cf = false) ∧
        (∀ b ∈ blocks, ∀ r ∈ b.2.2, r.nameHash = some hash → entryMatches b.1 b.2.1 loc cf = true →
          (∀ b' ∈ blocks, ∀ r' ∈ b'.2.2, r'.nameHash = some hash → entryMatches b'.1 b'.2.1 loc cf = true → r'.ckey = r.ckey) →
          p.resolveByHash hash loc cf = some r.ckey)) := by
  obtain ⟨bytes, hb, hp⟩ := parse_build v blocks hne hg htot hamb
  refine ⟨bytes, _, hb, hp, rfl, ?_, ?_⟩
  · intro fdid loc cf
    rw [resolveById_eq]
    obtain ⟨h1, h2⟩ := resolveGen_built (·.fdid == fdid) blocks loc cf
    refine ⟨?_, ?_, ?_⟩
    · intro ck h
      obtain ⟨b, hb, r, hr, hq, hm, e⟩ := h1 ck h
      exact ⟨b, hb, r, hr, by simpa using hq, hm, e⟩
    · rw [h2]
      constructor
      · intro h b hb r hr e; exact h b hb r hr (by simpa using e)
      · intro h b hb r hr e; exact h b hb r hr (by simpa using e)
    · intro b hb r hr e hm hu
      exact resolveGen_built_exact _ blocks loc cf b hb r hr (by simpa using e) hm
        (fun b' hb' r' hr' hq' hm' => hu b' hb' r' hr' (by simpa using hq') hm')
  · intro hash loc cf
    rw [resolveByHash_eq]
    obtain ⟨h1, h2⟩ := resolveGen_built (·.nameHash == some hash) blocks loc cf
    refine ⟨?_, ?_, ?_⟩
    · intro ck h
      obtain ⟨b, hb, r, hr, hq, hm, e⟩ := h1 ck h
      exact ⟨b, hb, r, hr, by simpa using hq, hm, e⟩
    · rw [h2]
      constructor
      · intro h b hb r hr e; exact h b hb r hr (by simpa using e)
      · intro h b hb r hr e; exact h b hb r hr (by simpa using e)
    · intro b hb r hr e hm hu
      exact resolveGen_built_exact _ blocks loc cf b hb r hr (by simpa using e) hm
        (fun b' hb' r' hr' hq' hm' => hu b' hb' r' hr' (by simpa using hq') hm')

open Cascette.Model.RootFile Cascette.Proofs.RootFile in
/-- **root_lookup_entries_eq_inserted (the lookup tables keep one entry per inserted record, with its own
block's locale and content flags).** Under the hypotheses of `root_parse_build`, on the
built-then-parsed root, for EVERY FileDataID (1–3) and every name hash (4–6): (1) the entry list the
lookup tables hold under that key (`get_entries_by_id`), read as (locale, content flags, content key),
is a PERMUTATION of the inserted records of that key, each with the flags of the block it was
inserted into — nothing dropped, nothing merged, also when several blocks list the file with the
identical content key; (2) every entry's `block_index` names a parsed block that has exactly the
entry's flags and holds a record of the key with the entry's content key; (3) `resolve_by_id` is
`find` over that entry list with the locale/content test, for every query. -/
theorem root_lookup_entries_eq_inserted (v : Version) (blocks : List (Nat × Nat × List Rec)) (hne : blocks ≠ [])
    (hg : ∀ b ∈ blocks, GoodBlock v b.1 b.2.1 b.2.2) (htot : totalOf blocks < 4294967296)
    (hamb : v = .v2 → ¬ Ambiguous (totalOf blocks) (namedOf blocks)) :
    ∃ bytes p, build v blocks = some bytes ∧ parse bytes = some p ∧
      (∀ fdid,
        ((p.entriesById fdid).map Entry.flagsKey).Perm (insertedEntries (·.fdid == fdid) blocks) ∧
        (∀ e ∈ p.entriesById fdid, ∃ b, p.blocks[e.blockIndex]? = some b ∧ e.locale = b.locale ∧
          e.content = b.content ∧ ∃ r ∈ b.recs, r.fdid = fdid ∧ r.ckey = e.ckey) ∧
        (∀ loc cf, p.resolveById fdid loc cf =
          ((p.entriesById fdid).find? (fun e => entryMatches e.locale e.content loc cf)).map (·.ckey))) ∧
      (∀ hash,
        ((p.entriesByHash hash).map Entry.flagsKey).Perm (insertedEntries (·.nameHash == some hash) blocks) ∧
        (∀ e ∈ p.entriesByHash hash, ∃ b, p.blocks[e.blockIndex]? = some b ∧ e.locale = b.locale ∧
          e.content = b.content ∧ ∃ r ∈ b.recs, r.nameHash = some hash ∧ r.ckey = e.ckey) ∧
        (∀ loc cf, p.resolveByHash hash loc cf =
          ((p.entriesByHash hash).find? (fun e => entryMatches e.locale e.content loc cf)).map (·.ckey))) := by
  obtain ⟨bytes, hb, hp⟩ := parse_build v blocks hne hg htot hamb
  refine ⟨bytes, _, hb, hp, ?_, ?_⟩
  · intro fdid
    refine ⟨entries_built_perm _ blocks 0, ?_, ?_⟩
    · intro e he
      obtain ⟨b, hb', _, h1, h2, r, hr, hq, hck⟩ := entriesFrom_index _ _ 0 e he
      exact ⟨b, by simpa using hb', h1, h2, r, hr, by simpa using hq, hck⟩
    · intro loc cf
      rw [resolveById_eq]
      exact resolveGen_eq_find_entries _ loc cf _ 0
  · intro hash
    refine ⟨entries_built_perm _ blocks 0, ?_, ?_⟩
    · intro e he
      obtain ⟨b, hb', _, h1, h2, r, hr, hq, hck⟩ := entriesFrom_index _ _ 0 e he
      exact ⟨b, by simpa using hb', h1, h2, r, hr, by simpa using hq, hck⟩
    · intro loc cf
      rw [resolveByHash_eq]
      exact resolveGen_eq_find_entries _ loc cf _ 0

open Cascette.Model.RootFile Cascette.Proofs.RootFile in
/-- **root_own_flags_lookup_hits (a file is found under the flags of EVERY block that lists it).** Under
the hypotheses of `root_parse_build`: for every inserted block `b` (non-zero locale mask) and every
record `r` of it, `resolve_by_id r.fdid` asked with `b`'s own locale and content flags returns a content
key — never nothing — and it is `r`'s key whenever the inserted records of that FileDataID in blocks
matching `b`'s flags agree on the key (in particular for a locale-independent file listed by many
blocks with one key, and for blocks with pairwise disjoint locales). Same for `resolve_by_hash`. -/
theorem root_own_flags_lookup_hits (v : Version) (blocks : List (Nat × Nat × List Rec)) (hne : blocks ≠ [])
    (hg : ∀ b ∈ blocks, GoodBlock v b.1 b.2.1 b.2.2) (htot : totalOf blocks < 4294967296)
    (hamb : v = .v2 → ¬ Ambiguous (totalOf blocks) (namedOf blocks)) :
    ∃ bytes p, build v blocks = some bytes ∧ parse bytes = some p ∧
      ∀ b ∈ blocks, b.1 ≠ 0 → ∀ r ∈ b.2.2,
        (p.resolveById r.fdid b.1 b.2.1).isSome = true ∧
        ((∀ b' ∈ blocks, ∀ r' ∈ b'.2.2, r'.fdid = r.fdid → entryMatches b'.1 b'.2.1 b.1 b.2.1 = true → r'.ckey = r.ckey) →
          p.resolveById r.fdid b.1 b.2.1 = some r.ckey) ∧
        (∀ h, r.nameHash = some h →
          (p.resolveByHash h b.1 b.2.1).isSome = true ∧
          ((∀ b' ∈ blocks, ∀ r' ∈ b'.2.2, r'.nameHash = some h → entryMatches b'.1 b'.2.1 b.1 b.2.1 = true → r'.ckey = r.ckey) →
            p.resolveByHash h b.1 b.2.1 = some r.ckey)) := by
  obtain ⟨bytes, p, hb, hp, _, hid, hnh⟩ := root_resolve_eq_inserted v blocks hne hg htot hamb
  refine ⟨bytes, p, hb, hp, ?_⟩
  intro b hbm hl r hr
  have hself := entryMatches_self b.1 b.2.1 hl
  obtain ⟨_, hnone, hex⟩ := hid r.fdid b.1 b.2.1
  refine ⟨?_, ?_, ?_⟩
  · cases hres : p.resolveById r.fdid b.1 b.2.1 with
    | some _ => rfl
    | none =>
      have := hnone.1 hres b hbm r hr rfl
      rw [hself] at this; cases this
  · intro hu
    exact hex b hbm r hr rfl hself hu
  · intro h hh
    obtain ⟨_, hnone', hex'⟩ := hnh h b.1 b.2.1
    refine ⟨?_, ?_⟩
    · cases hres : p.resolveByHash h b.1 b.2.1 with
      | some _ => rfl
      | none =>
        have := hnone'.1 hres b hbm r hr hh
        rw [hself] at this; cases this
    · intro hu
      exact hex' b hbm r hr hh hself hu

open Cascette.Model.RootFile Cascette.Proofs.RootFile in
/-- test (kernel-evaluated instance of the model, labelled as a test): a file listed by three locale
blocks with the IDENTICAL content key has three lookup-table entries and resolves under each block's own
locale; a locale no block has gives nothing -/
example :
    let ck : Bytes := List.replicate 16 0xAA
    let p : Parsed := { version := .v3, header := none, blocks :=
      [⟨1, 2, 4, [⟨1002, ck, none⟩]⟩, ⟨1, 16, 4, [⟨1002, ck, none⟩]⟩, ⟨1, 32, 4, [⟨1002, ck, none⟩]⟩] }
    p.resolveById 1002 2 4 = some ck ∧ p.resolveById 1002 16 4 = some ck ∧ p.resolveById 1002 32 4 = some ck ∧
    p.resolveById 1002 64 4 = none ∧ p.resolveById 1002 32 12 = none ∧
    (p.entriesById 1002).map Entry.flagsKey = [(2, 4, ck), (16, 4, ck), (32, 4, ck)] ∧
    (p.entriesById 1002).map (·.blockIndex) = [0, 1, 2] := by
  decide

open Cascette.Model.RootFile Cascette.Proofs.RootFile in
/-- non-vacuity of the whole-root theorems: a V4 manifest with a named block (two records, inserted in
descending FileDataID order) and an unnamed block with a 33-bit content flag, and a V2 manifest with
one named record (1 file: outside the ambiguity window) meet every hypothesis. -/
example :
    let blocks : List (Nat × Nat × List Rec) :=
      [(2, 0, [⟨9, List.replicate 16 1, some 77⟩, ⟨5, List.replicate 16 2, some 78⟩]),
       (4, 0x110000000, [⟨5, List.replicate 16 3, none⟩])]
    blocks ≠ [] ∧ (∀ b ∈ blocks, GoodBlock .v4 b.1 b.2.1 b.2.2) ∧ totalOf blocks < 4294967296 ∧
    GoodBlock .v2 2 0 [⟨9, List.replicate 16 1, some 77⟩] ∧ ¬ Ambiguous 1 1 := by
  intro blocks
  refine ⟨by decide, ?_, by decide, ?_, by unfold Ambiguous; omega⟩
  · intro b hb
    simp only [blocks, List.mem_cons, List.not_mem_nil, or_false] at hb
    rcases hb with rfl | rfl
    · exact ⟨by decide, by decide, by decide, by decide, by decide, by decide, by decide, by decide⟩
    · exact ⟨by decide, by decide, by decide, by decide, by decide, by decide, by decide, by decide⟩
  · exact ⟨by decide, by decide, by decide, by decide, by decide, by decide, by decide, by decide⟩

/-! ### resolver chain: FileDataID / path → content key → encoding key -/

open Cascette.Model.RootFile Cascette.Proofs.RootFile Cascette.Model.Resolver Cascette.Proofs.Resolver in
/-- **resolver_chain (composition of the three maps).** Take ANY root manifest built and parsed as in
`root_parse_build` and ANY encoding table built and parsed as in `enc_find_encoding_eq_lookup`
(distinct content keys, 1..255 encoding keys each). Then `ContentResolver`'s chain is the composition
of the INSERTED maps: (1) for a FileDataID carried by an inserted record `r` (all inserted records of
that id carrying the same content key — e.g. the id is unique), `resolve_fdid_to_encoding` returns the
first inserted encoding key of `r.ckey`, or nothing when `r.ckey` is not in the encoding table;
(2) for a FileDataID that was never inserted it returns nothing; (3)/(4) the same for
`resolve_path_to_encoding` with the records whose name hash is the path's `calculate_name_hash`
(the Jenkins hash itself is outside this theorem: its model is tied by C09 and by the run). -/
theorem resolver_chain (v : Version) (blocks : List (Nat × Nat × List Rec)) (hne : blocks ≠ [])
    (hg : ∀ b ∈ blocks, GoodBlock v b.1 b.2.1 b.2.2) (htot : totalOf blocks < 4294967296)
    (hamb : v = .v2 → ¬ Ambiguous (totalOf blocks) (namedOf blocks))
    (eb : Builder) (f : File) (hb : eb.buildParse = some f)
    (hd : Distinct CEntry.ckey eb.centries)
    (hk : ∀ e ∈ eb.centries, 1 ≤ e.ekeys.length ∧ e.ekeys.length ≤ 255) :
    ∃ bytes p, build v blocks = some bytes ∧ parse bytes = some p ∧
      (∀ fdid, ∀ b ∈ blocks, ∀ r ∈ b.2.2, r.fdid = fdid →
        (∀ b' ∈ blocks, ∀ r' ∈ b'.2.2, r'.fdid = fdid → r'.ckey = r.ckey) →
        fdidToEkey p f fdid = (lookup CEntry.ckey eb.centries r.ckey).bind (·.ekeys.head?)) ∧
      (∀ fdid, (∀ b ∈ blocks, ∀ r ∈ b.2.2, r.fdid ≠ fdid) → fdidToEkey p f fdid = none) ∧
      (∀ hash, ∀ b ∈ blocks, ∀ r ∈ b.2.2, r.nameHash = some hash →
        (∀ b' ∈ blocks, ∀ r' ∈ b'.2.2, r'.nameHash = some hash → r'.ckey = r.ckey) →
        hashToEkey p f hash = (lookup CEntry.ckey eb.centries r.ckey).bind (·.ekeys.head?)) ∧
      (∀ hash, (∀ b ∈ blocks, ∀ r ∈ b.2.2, r.nameHash ≠ some hash) → hashToEkey p f hash = none) := by
  obtain ⟨bytes, hbuild, hp⟩ := parse_build v blocks hne hg htot hamb
  refine ⟨bytes, _, hbuild, hp, ?_, ?_, ?_, ?_⟩
  · intro fdid b hb0 r hr e hu
    unfold fdidToEkey resFdid
    simp only
    rw [find?_unique_map (·.fdid == fdid) (·.ckey) _ r
      (List.mem_reverse.2 ((mem_all_recs blocks r).2 ⟨b, hb0, hr⟩)) (by simpa using e)
      (fun r' hr' hq' => by
        obtain ⟨b', hb', hr''⟩ := (mem_all_recs blocks r').1 (List.mem_reverse.1 hr')
        exact hu b' hb' r' hr'' (by simpa using hq'))]
    simp only [Option.bind_some]
    exact resCkey_eq eb f hb hd hk r.ckey
  · intro fdid habs
    unfold fdidToEkey resFdid
    simp only
    rw [find?_absent _ _ (fun r hr => by
      obtain ⟨b', hb', hr''⟩ := (mem_all_recs blocks r).1 (List.mem_reverse.1 hr)
      simpa using habs b' hb' r hr'')]
    rfl
  · intro hash b hb0 r hr e hu
    unfold hashToEkey resHash
    simp only
    rw [find?_unique_map (·.nameHash == some hash) (·.ckey) _ r
      ((mem_all_recs blocks r).2 ⟨b, hb0, hr⟩) (by simpa using e)
      (fun r' hr' hq' => by
        obtain ⟨b', hb', hr''⟩ := (mem_all_recs blocks r').1 hr'
        exact hu b' hb' r' hr'' (by simpa using hq'))]
    simp only [Option.bind_some]
    exact resCkey_eq eb f hb hd hk r.ckey
  · intro hash habs
    unfold hashToEkey resHash
    simp only
    rw [find?_absent _ _ (fun r hr => by
      obtain ⟨b', hb', hr''⟩ := (mem_all_recs blocks r).1 hr
      simpa using habs b' hb' r hr'')]
    rfl

def okEnc2 : Builder :=
  { cpage := 1024, epage := 1024, centries := [witnessC],
    eentries := [(onesKey, [122], 8), (List.replicate 16 2, [110], 7)] }

/-- non-vacuity of `resolver_chain` (a test, kernel-evaluated): its root hypotheses are those of
`root_parse_build` (example above); its encoding hypotheses are met by `okEnc2`, which builds and
parses. -/
example : okEnc2.buildParse.isSome = true ∧ Distinct CEntry.ckey okEnc2.centries ∧
    (∀ e ∈ okEnc2.centries, 1 ≤ e.ekeys.length ∧ e.ekeys.length ≤ 255) := by
  refine ⟨?_, by unfold Distinct; decide, by decide⟩
  have h1 : sortBy CEntry.ckey okEnc2.centries = okEnc2.centries := List.mergeSort_of_pairwise (by decide)
  have h2 : sortBy (fun (x : Key × ESpec × Nat) => x.1) okEnc2.eentries = okEnc2.eentries :=
    List.mergeSort_of_pairwise (by decide)
  unfold Builder.buildParse
  simp only [h1, h2]
  decide

/-! ### TVFS path table -/

open Cascette.Model.TvfsPath Cascette.Proofs.TvfsPath in
/-- **tvfs_path_roundtrip (partial: names of 1..254 bytes).** For EVERY path tree — any depth, any
fan-out — whose component names have 1..254 bytes, whose file offsets are below 2^31 and whose
folder payloads are below 2^31 bytes, `PathTable::parse (PathTable::build tree)` succeeds and lists
exactly the tree's files, in order, with their full paths and VFS offsets (any sufficient fuel). -/
theorem tvfs_path_roundtrip_partial (ns : List Node) (cur : Bytes) (fuel : Nat)
    (hg : GoodL ns) (hf : (buildDir ns).length < fuel) :
    parseDir fuel (buildDir ns) cur = .ok (filesL cur ns) :=
  parse_build ns cur fuel hg hf

open Cascette.Model.TvfsPath in
set_option maxRecDepth 100000 in
/-- counter-witness to the full statement (kernel-evaluated): a single file whose name has 255 bytes
does not parse back ("path table truncated"): its length byte 0xFF is the node-value marker.
Replayed on the real code by corpus/C03/tvfs-name-255.case (sig tvfs-name-255-length-byte-is-marker). -/
theorem tvfs_name_255_counter_witness :
    (match parseTable (buildDir [Node.mk (List.replicate 255 97) [] (some 0)]) with
     | .error .trunc => true
     | _ => false) = true := by decide +kernel

open Cascette.Model.TvfsPath Cascette.Proofs.TvfsPath in
/-- non-vacuity: a two-level tree (dir/{aa,b}) meets the hypotheses -/
example : GoodL [Node.mk [100, 105, 114] [Node.mk [97, 97] [] (some 14), Node.mk [98] [] (some 0)] none] := by
  simp [GoodL, Good, GoodName, buildDir, buildEntry, frags, be32]

/-! ### archive group merged from several archive indices (`build_merged`) -/

open Cascette.Model.ArchiveIndex Cascette.Proofs.GroupMerge in
/-- **group_merge_no_key_lost.** The k-way heap merge of `build_merged` — pop the smallest head
(ties to the lowest source), ALWAYS advance that source's cursor, skip the record when its key equals
the previous output key — loses no key: for any number of source archive indices with any entries
(no sortedness or distinctness needed), every key of every source is the key of a merged record. -/
theorem group_merge_no_key_lost (srcs : List Src) (s : Src) (hs : s ∈ srcs) (e : Entry) (he : e ∈ s.2) :
    e.key ∈ (kmerge (totalLen srcs + 1) srcs none).map (·.key) := by
  rcases kmerge_no_key_lost (totalLen srcs + 1) srcs none (by omega) s hs e he with h | h
  · exact h
  · cases h

open Cascette.Model.ArchiveIndex Cascette.Proofs.GroupMerge in
/-- **group_merge_sound.** Every record of the merged group is an inserted one: key, size and offset
(as u32) of an entry of one of the sources, with THAT source's archive number. -/
theorem group_merge_sound (srcs : List Src) (g : GEntry) (hg : g ∈ kmerge (totalLen srcs + 1) srcs none) :
    ∃ s ∈ srcs, ∃ e ∈ s.2, g = { key := e.key, archive := s.1, offset := e.offset % 2 ^ 32, size := e.size } :=
  kmerge_sound _ srcs none g hg

open Cascette.Model.ArchiveIndex in
/-- TEST (kernel-evaluated instance, the shape of the seeded change C03-1b): archive 7 = {10, 20, 30},
archive 9 = {20, 40, 50}. The shared key 20 is emitted once with the FIRST source's value and the
entries of archive 9 after the skipped duplicate (40, 50) are all there. -/
example :
    kmerge 7 [(7, [⟨[0x10], 1, 100, none⟩, ⟨[0x20], 2, 200, none⟩, ⟨[0x30], 3, 300, none⟩]),
              (9, [⟨[0x20], 22, 2200, none⟩, ⟨[0x40], 4, 400, none⟩, ⟨[0x50], 5, 500, none⟩])] none =
      [⟨[0x10], 7, 100, 1⟩, ⟨[0x20], 7, 200, 2⟩, ⟨[0x30], 7, 300, 3⟩, ⟨[0x40], 9, 400, 4⟩, ⟨[0x50], 9, 500, 5⟩] := by
  decide

/-! ### TVFS tables: builder widths, container / VFS round trips, resolution -/

open Cascette.Model.TvfsTables Cascette.Proofs.TvfsTables in
/-- **tvfs_widen_fixed.** For EVERY flag combination, EST size and file count (n·30 < 2^32) the
widening loop of `TvfsBuilder::build` ends with a header under which `cft_entry_size()` is exactly
the entry size the builder used for the offsets it stored, and whose `cft_table_size` is `n` such
entries: builder, serializer and parser use one stride and one offset width. (The pinned tree
computed the size in two fixed passes and the EST size afterwards; the counter-examples — 2731 files
with INCLUDE_CKEY|PATCH_SUPPORT, an EST above 255 bytes — are corpus cases of the repaired defect.) -/
theorem tvfs_widen_fixed (fl : Flags) (estSize n : Nat) (hn : n * 30 < 4294967296) :
    (layout fl estSize n).1.entrySize = (layout fl estSize n).2 ∧
    (layout fl estSize n).1.cftSize = n * (layout fl estSize n).2 ∧
    (layout fl estSize n).1.fl = fl ∧ (layout fl estSize n).1.estSize = estSize :=
  widen_fixed n hn { fl := fl, cftSize := 0, estSize := estSize } rfl

open Cascette.Model.TvfsTables in
/-- TEST (kernel-evaluated): INCLUDE_CKEY|PATCH_SUPPORT at the 64 KiB crossing — 2730 files stay at
24-byte entries with 2-byte offsets, 2731 files need three rounds: 25-byte entries, 3-byte offsets. -/
example : (layout ⟨true, false, true⟩ 0 2730).2 = 24 ∧ (layout ⟨true, false, true⟩ 0 2730).1.cftOffs = 2 ∧
    (layout ⟨true, false, true⟩ 0 2731).2 = 25 ∧ (layout ⟨true, false, true⟩ 0 2731).1.cftOffs = 3 ∧
    (layout ⟨true, true, true⟩ 300 11).2 = 26 := by decide

open Cascette.Model.TvfsPath Cascette.Model.TvfsTables Cascette.Proofs.TvfsTables in
/-- **tvfs_cft_roundtrip.** `ContainerFileTable::parse (build entries)` under one header lists exactly
the inserted records — EKey and content key cut / zero-padded to 9 bytes, encoded size, EST index in
its field width, unset patch offset — at offsets `i * entry_size`, for every flag combination and
any number of entries. -/
theorem tvfs_cft_roundtrip (h : Hdr) (fs : List FileRec) (off fuel : Nat)
    (hsz : ∀ f ∈ fs, f.esize < 4294967296) (hf : fs.length < fuel) :
    cftParse h fuel off (fs.flatMap (cftWrite h)) = storedFrom h off fs :=
  cftParse_build h fs off fuel hsz hf

open Cascette.Model.TvfsPath Cascette.Model.TvfsTables Cascette.Proofs.TvfsTables in
/-- **tvfs_vfs_roundtrip.** `VfsTable::parse` of the builder's one-span entries under the same offset
width (1..4 bytes) lists exactly the written entries at offsets `i * (9 + w)`. -/
theorem tvfs_vfs_roundtrip {α : Type} (w : Nat) (h1 : 1 ≤ w) (h4 : w ≤ 4) (cs co : α → Nat) (l : List α)
    (pos fuel : Nat) (hsz : ∀ a ∈ l, cs a < 4294967296) (hf : l.length < fuel) :
    vfsLoop w fuel pos (l.flatMap fun a => vfsWrite w (cs a) (co a)) = some (vfsStored w cs co pos l) :=
  vfsLoop_build w h1 h4 cs co l pos fuel hsz hf

open Cascette.Model.TvfsPath Cascette.Model.TvfsTables Cascette.Proofs.TvfsTables in
/-- **tvfs_tables_resolve.** For EVERY builder flag combination (INCLUDE_CKEY, ENCODING_SPEC,
PATCH_SUPPORT), any EST strings and any set of files (count·30 < 2^32, sizes below 2^32): when the
built manifest parses, the parsed header has the builder's entry size, and the VFS offset
`i * (9 + w)` that the builder stores in the path tree for the `i`-th file in path order resolves —
VFS entry AT that offset → its span → container entry AT the span's offset — to exactly that
file's record as inserted. (Path string → VFS offset is `tvfs_path_roundtrip_partial`; the trie
construction from the path list is tied by the run.) -/
theorem tvfs_tables_resolve (flags : Nat) (specs : List Bytes) (input : List FileRec) (b : Built)
    (hb : buildParse flags specs input = .ok b) (hn : input.length * 30 < 4294967296)
    (hsz : ∀ f ∈ input, f.esize < 4294967296 ∧ f.csize < 4294967296) :
    let files := sortFiles input
    let lay := layout (Flags.ofNat flags) (((estBytes (Flags.ofNat flags) specs).map (·.length)).getD 0) files.length
    b.hdr = lay.1 ∧ b.hdr.entrySize = lay.2 ∧
    ∀ (i : Nat) (hi : i < files.length),
      b.resolveOff (i * (9 + lay.1.cftOffs)) = some (storedC b.hdr (i * lay.2) files[i]) :=
  tables_resolve flags specs input b hb hn hsz

example : ¬ Cascette.Proofs.RootFile.Ambiguous 15 0 ∧ ¬ Cascette.Proofs.RootFile.Ambiguous 100 3 ∧
    ¬ Cascette.Proofs.RootFile.Ambiguous 50 10 := by
  unfold Cascette.Proofs.RootFile.Ambiguous; omega

end Cascette.Props.C03
