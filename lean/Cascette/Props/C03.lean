/-
Props/C03 — Content resolution finds exactly what was indexed.
Property theorems only; helper lemmas live in Proofs/Paged, Proofs/Encoding, Proofs/ArchiveIndex,
Proofs/RootFile, Proofs/TvfsPath. Models = the Rust code as written (Model/Paged, Model/Encoding,
Model/ArchiveIndex, Model/RootFile, Model/TvfsPath); Spec = linear scan of the inserted entries
(Spec/Lookup): for a set of entries with distinct keys that is "the inserted value, or nothing".
-/
import Cascette.Proofs.Paged
import Cascette.Proofs.Encoding
import Cascette.Proofs.ArchiveIndex
import Cascette.Proofs.RootFile
import Cascette.Proofs.TvfsPath
namespace Cascette.Props.C03
open Cascette.Model.Paged Cascette.Model.Encoding Cascette.Proofs.Paged Cascette.Proofs.Encoding
open Cascette.Spec.Lookup

/-! ### generic paged sorted table (encoding CKey / EKey pages) -/

/-- **paged_find_eq_lookup.** For ANY list of entries with distinct keys, ANY entry-size function
and ANY page byte budget (an entry larger than the budget gets a page of its own, as in the Rust
loop): sort, cut into pages, index by first keys; then `partition_point` over the index + linear
scan in the selected page returns, for EVERY probe key (present or absent), exactly what a linear
scan of the inserted entries returns. The indexing `pages[i-1]` never goes out of range (`some`). -/
theorem paged_find_eq_lookup {ε : Type} (key : ε → Key) (sz : ε → Nat) (budget : Nat) (es : List ε)
    (hd : Distinct key es) (k : Key) :
    Table.find key (mkTable key (paginate sz budget (es.mergeSort (fun a b => kle (key a) (key b))) [] 0)) k
      = some (lookup key es k) :=
  Proofs.Paged.paged_find_eq_lookup key sz budget es hd k

/-- **all_flavours_eq_linear_scan.** On every well-formed parsed table (pages non-empty, index key =
first key of the page, concatenation strictly ascending) the page-index lookup equals a linear
scan over all parsed entries. -/
theorem all_flavours_eq_linear_scan {ε : Type} (key : ε → Key) (t : Table ε) (h : WF key t) (k : Key) :
    Table.find key t k = some ((t.flatMap (·.2)).find? (fun e => key e == k)) := by
  rw [find_eq_findRec key t k h.indexSorted, findRec_eq_scan key t k h]

/-- **batch_eq_map_single.** For every table with a strictly ascending page index and EVERY list of
probe keys (any order, repeats allowed), the sort-and-merge batch lookup equals, position by
position, the single lookup of that probe. -/
theorem batch_eq_map_single {ε : Type} (key : ε → Key) (t : Table ε) (h : IndexSorted t) (ks : List Key) :
    (Table.batch key t ks).map some = ks.map (Table.find key t) := by
  rw [batch_eq_map key t ks h, List.map_map]
  apply List.map_congr_left
  intro k _
  simp [find_eq_findRec key t k h]

/-! ### encoding table: builder → serializer → parser → lookups -/

/-- `find_encoding` / `find_all_encodings` after build+serialize+parse: exactly the inserted EKeys of
an inserted content key, nothing for any other key. Hypotheses: content keys distinct; every entry
has 1..255 encoding keys (the count is a `u8`; 0 is the page parser's padding mark). -/
theorem enc_find_encoding_eq_lookup (b : Builder) (f : File) (hb : b.buildParse = some f)
    (hd : Distinct CEntry.ckey b.centries)
    (hk : ∀ e ∈ b.centries, 1 ≤ e.ekeys.length ∧ e.ekeys.length ≤ 255) (k : Key) :
    f.findEncoding k = some ((lookup CEntry.ckey b.centries k).map (·.ekeys.head?)) ∧
    f.findAll k = some (match lookup CEntry.ckey b.centries k with | some e => e.ekeys | none => []) := by
  have hpad : ∀ e ∈ b.centries, e.isPad = false := by
    intro e he
    have := hk e he
    simp only [CEntry.isPad, beq_eq_false_iff_ne, ne_eq]
    omega
  unfold File.findEncoding File.findAll
  rw [ckey_find b f hb hd hpad k]
  exact ⟨rfl, rfl⟩

/-- `find_espec` after build+serialize+parse: exactly the inserted ESpec string of an inserted
encoding key, nothing for any other key. Hypotheses: encoding keys distinct; no built entry is one
of the two padding sentinels of `EKeyPageEntry::read_options` (espec index 0xFFFFFFFF; all-zero key
with espec index 0). -/
theorem enc_find_espec_eq_lookup (b : Builder) (f : File) (hb : b.buildParse = some f)
    (hd : Distinct (fun (x : Key × ESpec × Nat) => x.1) b.eentries)
    (hpad : ∀ x ∈ b.eentries, (mkE b x).isPad = false) (k : Key) :
    f.findEspec k = some ((lookup (fun (x : Key × ESpec × Nat) => x.1) b.eentries k).map (·.2.1)) := by
  unfold File.findEspec
  rw [ekey_find b f hb hd hpad k]
  obtain ⟨_, _, hsp⟩ := buildParse_some b f hb
  simp only [Option.map_some, Option.some.injEq]
  cases hl : lookup (fun (x : Key × ESpec × Nat) => x.1) b.eentries k with
  | none => rfl
  | some x =>
    simp only [Option.map_some, Option.bind_some, mkE, hsp]
    apply especTable_get
    have := List.mem_of_find?_eq_some hl
    exact List.mem_map.2 ⟨x, this, rfl⟩

/-- batch lookups on the built-serialized-parsed encoding table = element-wise single lookups = the
inserted entries. -/
theorem enc_batch_eq_lookup (b : Builder) (f : File) (hb : b.buildParse = some f)
    (hd : Distinct CEntry.ckey b.centries)
    (hk : ∀ e ∈ b.centries, 1 ≤ e.ekeys.length ∧ e.ekeys.length ≤ 255) (ks : List Key) :
    f.batchEncodings ks = ks.map (lookup CEntry.ckey b.centries) := by
  have hpad : ∀ e ∈ b.centries, e.isPad = false := by
    intro e he
    have := hk e he
    simp only [CEntry.isPad, beq_eq_false_iff_ne, ne_eq]
    omega
  obtain ⟨hs, hf⟩ := ckey_indexSorted b f hb hd hpad
  unfold File.batchEncodings
  rw [batch_eq_map CEntry.ckey f.ctable ks hs]
  apply List.map_congr_left
  intro k _
  have h1 := hf k
  rw [ckey_find b f hb hd hpad k] at h1
  exact (Option.some.inj h1).symm

/-! #### the full-strength EKey statement is false of the tree (known finding) -/

def zeroKey : Key := List.replicate 16 0
def onesKey : Key := List.replicate 16 1
def witnessC : CEntry := { ckey := List.replicate 16 9, size := 5, ekeys := [zeroKey] }
/-- all-zero EKey whose ESpec "z" is the first of the table, and a second key on the same page -/
def witnessEnc : Builder :=
  { cpage := 1024, epage := 1024, centries := [witnessC], eentries := [(zeroKey, [122], 7), (onesKey, [110], 8)] }

/-- counter-witness (kernel-evaluated): both inserted encoding keys — the all-zero one AND its page
neighbour — resolve to nothing after serialize+parse, because the all-zero key with espec index 0 is
read as zero-fill padding and ends the page. Replayed on the real code by
corpus/C03/enc-zero-ekey-espec0.case (sig enc-zero-ekey-espec0-is-padding). -/
theorem enc_zero_ekey_counter_witness :
    Distinct (fun (x : Key × ESpec × Nat) => x.1) witnessEnc.eentries ∧
    (witnessEnc.buildParse.map fun f => (f.findEspec zeroKey, f.findEspec onesKey)) = some (some none, some none) ∧
    (lookup (fun (x : Key × ESpec × Nat) => x.1) witnessEnc.eentries onesKey).map (·.2.1) = some [110] := by
  refine ⟨by unfold Distinct; decide, ?_, by decide⟩
  have h1 : sortBy CEntry.ckey witnessEnc.centries = witnessEnc.centries := List.mergeSort_of_pairwise (by decide)
  have h2 : sortBy (fun (x : Key × ESpec × Nat) => x.1) witnessEnc.eentries = witnessEnc.eentries :=
    List.mergeSort_of_pairwise (by decide)
  unfold Builder.buildParse
  simp only [h1, h2]
  decide

/-! ### non-vacuity -/

def okEnc : Builder :=
  { cpage := 1024, epage := 1024, centries := [witnessC], eentries := [(onesKey, [122], 8), (zeroKey, [110], 7)] }

/-- the hypotheses of the encoding theorems are met by a concrete instance that even contains the
all-zero key (with a non-first ESpec), and the lookups then return the inserted values -/
example : (∀ x ∈ okEnc.eentries, (mkE okEnc x).isPad = false) ∧ Distinct CEntry.ckey okEnc.centries ∧
    (∀ e ∈ okEnc.centries, 1 ≤ e.ekeys.length ∧ e.ekeys.length ≤ 255) := by
  unfold Distinct; decide


/-! ### CDN archive index and archive group -/

open Cascette.Model.ArchiveIndex in
/-- **toc_search_eq_lookup, soundness half (all probes, all key sizes, all offset widths, any TOC).**
Whatever `binary_search_key` returns is a parsed record carrying exactly the probe key: a key that
is not in the index resolves to nothing, and no probe ever gets another key's value. Holds for
truncated and over-long probes as well (the TOC comparison only picks the block; the in-block search
compares full keys). -/
theorem toc_search_sound (c : Chunked Entry) (k : Key) (e : Entry)
    (h : Model.ArchiveIndex.find c k = some (some e)) : e ∈ c.entries ∧ e.key = k :=
  Proofs.ArchiveIndex.chunked_find_sound Entry.key c k e h

/-- the in-block step of `binary_search_key` (and any `binary_search_by` over records): on a strictly
ascending record list it equals a linear scan -/
theorem block_search_eq_linear_scan {ε : Type} (key : ε → Key) (l : List ε) (k : Key)
    (hs : l.Pairwise (fun a b => klt (key a) (key b) = true)) :
    (match binarySearchBy (fun e => kcmp (key e) k) l with
     | .ok i => l[i]?
     | .error _ => none) = l.find? (fun e => key e == k) :=
  Proofs.ArchiveIndex.binarySearch_eq_scan key l k hs

open Cascette.Model.ArchiveIndex in
/-- `ArchiveGroup::find_entry` on a parsed group (records strictly ascending, which
`ArchiveIndex::parse` checks for distinct keys) = linear scan of its records. -/
theorem group_find_eq_linear_scan (g : List GEntry) (k : Key)
    (hs : g.Pairwise (fun a b => klt a.key b.key = true)) :
    groupFind g k = g.find? (fun e => e.key == k) :=
  Proofs.ArchiveIndex.groupFind_eq_scan g k hs

/-
NOT PROVED (kept as the full statement; covered by the correspondence run and the oracle only):

theorem toc_search_eq_lookup (ks ob rpb : Nat) (input : List Entry) (hrpb : 0 < rpb)
    (hlen : ∀ e ∈ input, e.key.length = ks) (hd : Distinct Entry.key input)
    (hfit : ∀ e ∈ input, stored ob e = e) (hnz : ∀ e ∈ input, e.isZero = false)
    (c : Chunked Entry) (hb : buildParse ks ob rpb input = some c) (k : Key) :
    find c k = some (lookup Entry.key input k)

What is missing is the completeness half: that the TOC binary search (prefix comparison, monotone
along the TOC by `take`-monotonicity of the byte order) selects the one block `ci` with
`toc[ci-1] < k ≤ toc[ci]`, and that `entries[ci*rpb .. min((ci+1)*rpb, n))` is that block. With
`block_search_eq_linear_scan` and `toc_search_sound` above this is pure index arithmetic over
`validate_toc_consistency`; it was not closed in the time available.
-/

/-! ### root manifest: header detection and FileDataID delta coding -/

open Cascette.Model.RootFile Cascette.Proofs.RootFile in
/-- **root_header_roundtrip (partial: outside the ambiguous window).** A classic V2 header
(either endianness, any 32-bit counts) that is NOT in the window `16 ≤ total < 100 ∧ named < 10` is
read back as itself, the reader stops exactly after it, and `detect` reports V2. -/
theorem root_header_roundtrip_partial (l : Bool) (t n : Nat) (rest : Bytes)
    (ht : t < 4294967296) (hn : n < 4294967296) (h : ¬ Ambiguous t n) :
    Header.read ((Header.classic l t n).write ++ rest) = some (Header.classic l t n, rest) ∧
    detect ((Header.classic l t n).write ++ rest) = some (Header.classic l t n).version :=
  classic_roundtrip l t n rest ht hn h

open Cascette.Model.RootFile Cascette.Proofs.RootFile in
/-- the extended header the builder writes for V3/V4 (header_size 20, version 1..4) round-trips for
every endianness and every pair of counts, and `detect` agrees with the header's version -/
theorem root_ext_header_roundtrip (l : Bool) (v t n : Nat) (rest : Bytes) (hv : 1 ≤ v ∧ v ≤ 4)
    (ht : t < 4294967296) (hn : n < 4294967296) :
    Header.read ((Header.ext l 20 v t n 0).write ++ rest) = some (Header.ext l 20 v t n 0, rest) ∧
    detect ((Header.ext l 20 v t n 0).write ++ rest) = some (Header.ext l 20 v t n 0).version :=
  ext_roundtrip l v t n rest hv ht hn

open Cascette.Model.RootFile in
/-- counter-witness to the full statement (kernel-evaluated): the classic V2 header of a root with
20 files, none named, is read as an extended header (header_size 20, version 0 → V3, the next 8
bytes taken as counts); with 16 files of which 3 are named, `detect` even says V3 while the header
layout is V2. Replayed on the real code by corpus/C03/root-header-ambiguity.case and
root-v2-20-files.case (sig root-v2-small-header-ambiguity). -/
theorem root_header_ambiguity_counter_witness :
    Header.read ((Header.classic true 20 0).write ++ List.replicate 8 0) = some (.ext true 20 0 0 0 0, []) ∧
    detect ((Header.classic true 16 3).write ++ List.replicate 8 0) = some .v3 ∧
    (Header.classic true 16 3).version = .v2 := by decide

open Cascette.Model.RootFile Cascette.Proofs.RootFile in
/-- **fdid_delta_roundtrip.** decode ∘ encode = id for EVERY sequence of 32-bit FileDataIDs —
ascending or not, with gaps up to 2^32-1 (both directions use wrapping arithmetic). -/
theorem fdid_delta_roundtrip (ids : List Nat) (h : ∀ x ∈ ids, x < 4294967296) :
    decodeDeltas (encodeDeltas ids) = ids :=
  delta_roundtrip ids h

/-! ### TVFS path table -/

open Cascette.Model.TvfsPath Cascette.Proofs.TvfsPath in
/-- **tvfs_path_roundtrip (partial: names of 1..254 bytes).** For EVERY path tree — any depth, any
fan-out — whose component names have 1..254 bytes, whose file offsets are below 2^31 and whose
folder payloads are below 2^31 bytes, `PathTable::parse (PathTable::build tree)` succeeds and lists
exactly the tree's files, in order, with their full paths and VFS offsets (any sufficient fuel). -/
theorem tvfs_path_roundtrip_partial (ns : List Node) (cur : Bytes) (fuel : Nat)
    (hg : GoodL ns) (hf : (buildDir ns).length < fuel) :
    parseDir fuel (buildDir ns) cur = .ok (filesL cur ns) :=
  parse_build ns cur fuel hg hf

open Cascette.Model.TvfsPath in
set_option maxRecDepth 100000 in
/-- counter-witness to the full statement (kernel-evaluated): a single file whose name has 255 bytes
does not parse back ("path table truncated"): its length byte 0xFF is the node-value marker.
Replayed on the real code by corpus/C03/tvfs-name-255.case (sig tvfs-name-255-length-byte-is-marker). -/
theorem tvfs_name_255_counter_witness :
    (match parseTable (buildDir [Node.mk (List.replicate 255 97) [] (some 0)]) with
     | .error .trunc => true
     | _ => false) = true := by decide +kernel

open Cascette.Model.TvfsPath Cascette.Proofs.TvfsPath in
/-- non-vacuity: a two-level tree (dir/{aa,b}) meets the hypotheses -/
example : GoodL [Node.mk [100, 105, 114] [Node.mk [97, 97] [] (some 14), Node.mk [98] [] (some 0)] none] := by
  simp [GoodL, Good, GoodName, buildDir, buildEntry, frags, be32]

example : ¬ Cascette.Proofs.RootFile.Ambiguous 15 0 ∧ ¬ Cascette.Proofs.RootFile.Ambiguous 100 3 ∧
    ¬ Cascette.Proofs.RootFile.Ambiguous 50 10 := by
  unfold Cascette.Proofs.RootFile.Ambiguous; omega

end Cascette.Props.C03
