/-
Props/C11 — Concurrent cache use is linearizable and keeps its books (MemoryCache).
Property theorems only; helper lemmas live in Proofs/MemConc.  Model = Model/MemConc: every
MemoryCache operation cut into its accesses to shared state exactly where the `sched_point`
hooks sit, run under Spec/Interleave's `runSched` for ANY schedule and ANY number of threads.

The pinned tree violates the full statement in two places, each with a kernel-checked witness
schedule below, a corpus case replayed on the real code and a narrow oracle signature:
 * the expired-entry path of `get` / `contains` (guard dropped, then remove-by-key) deletes a
   value put in between and subtracts the size of the entry it saw earlier;
 * `clear` resets the counters in separate steps, so a racing put leaves them wrong for good.
What is proved instead (`_partial`) is the full claim for every history without expiring
entries (books: also without `clear`); provenance of `get` answers holds for every history.

The background cleanup task (`start_cleanup_task`, one tick = `Op.sweep`) is a thread of the
same model: it is included in every theorem above, the books are proved WITH expiring entries
for put / remove / sweep histories (`mem_books_pending_sweep`), and the clause "a value written
after an entry expired is not deleted by a reader that had seen the old entry" is proved for
this reader at full strength (`mem_sweep_spares_fresh_put`, `mem_sweep_spares_live_entries`),
with a kernel-checked witness that a sweep removing unconditionally violates it.

Second part (namespace `Cascette.Props.C11.Disk`): DiskCache cut at the `disk.*` schedule points
(Model/DiskConc, a directory of names over inodes): books at every moment for put / contains /
remove histories, puts of threads with separate file names (no failure, every value retrievable,
books), and the witness schedules of the races the tree has (shared `<stem>.tmp`, put vs remove,
get vs remove, expired-path get vs put).

Third part (namespace `Cascette.Props.C11.Multi`): MultiLayerCacheImpl over MemoryCache layers
(Model/MultiConc: every operation a walk over the layers plus one promotion-tracker access, cut
at `ml.layer.after_<op>` and at the layers' own schedule points): provenance of get answers for
every schedule, a remove that loses no race empties every layer WHATEVER the tracker knows, and
witness schedules: a stored key without a tracker entry, the operations are not atomic across
the layers (finding ml-not-atomic-across-layers).
-/
import Cascette.Proofs.MemConc
import Cascette.Proofs.DiskConc
import Cascette.Proofs.MultiConc
namespace Cascette.Props.C11
open Cascette.Spec.CacheMap (Key Val Ref)
open Cascette.Spec.Interleave
open Cascette.Model.CacheAssoc Cascette.Proofs.CacheAssoc
open Cascette.Model.MemCache (Config Entry Store State Policy sumSize)
open Cascette.Model.MemConc
open Cascette.Proofs.MemConc
open Cascette.Model

/-- the books are right in a state: `entry_count` = number of stored entries, `memory_usage` =
sum of their sizes -/
abbrev Books (s : State) : Prop :=
  s.count = (s.store.length : Int) ∧ s.bytes = (sumSize s.store : Int)

/-- **books, at every moment (ghost pending deltas).**  Any number of threads, any operation
lists from {get, contains, put, remove} without expiring entries, any victim choice of the
eviction snapshots, ANY schedule, stopped anywhere: the counters plus what the threads still
owe them (the delta each took from its last map access and has not yet applied) equal the real
contents. -/
theorem mem_books_pending (cfg : Config) (vic : Store → Nat → List Key) (s0 : State)
    (progs : List (List Op)) (sched : List Nat)
    (hn : NoDup s0.store) (hs : NoShort s0.store) (hb : Books s0)
    (hp : ∀ p ∈ progs, ∀ op ∈ p, OpOk false op) :
    let y := runSched (machine cfg vic) (sys s0 progs) sched
    y.shared.count + sumF (fun t => pendC t.pc) y.threads = (y.shared.store.length : Int) ∧
    y.shared.bytes + sumF (fun t => pendB t.pc) y.threads = (sumSize y.shared.store : Int) := by
  have h := runSched_inv (machine cfg vic) BInv (fun y i => binv_stepAt cfg vic y i) sched _
    (binv_sys hn hs hb.1 hb.2 hp)
  exact ⟨h.count, h.bytes⟩

/-- **books at quiescence (partial: no expiring entries, no `clear`).**  Once all threads
have finished, `entry_count` and `memory_usage` equal the real contents — for every number of
threads, every such operation list, every schedule.  In particular a decrement that overtakes
the matching increment (the wrapping `fetch_sub` of the Rust) is always made good. -/
theorem mem_books_quiescent_partial (cfg : Config) (vic : Store → Nat → List Key) (s0 : State)
    (progs : List (List Op)) (sched : List Nat)
    (hn : NoDup s0.store) (hs : NoShort s0.store) (hb : Books s0)
    (hp : ∀ p ∈ progs, ∀ op ∈ p, OpOk false op)
    (hq : quiescent (machine cfg vic) (runSched (machine cfg vic) (sys s0 progs) sched) = true) :
    Books (runSched (machine cfg vic) (sys s0 progs) sched).shared := by
  have h := mem_books_pending cfg vic s0 progs sched hn hs hb hp
  have hz := pend_zero_of_quiescent hq
  dsimp only at h
  rw [hz.1, hz.2] at h
  exact ⟨by have := h.1; omega, by have := h.2; omega⟩

/-- **a get returns a value some put wrote for that key** (full statement: every operation,
expiring entries, `clear`, evictions, every schedule).  Whatever a `get k` answered, at any
point of any schedule, is the value of an entry that was in the cache at the start under `k` or
of a `put k` in one of the programs — never another key's value, never a mixture. -/
theorem mem_get_reads_some_put (cfg : Config) (vic : Store → Nat → List Key) (s0 : State)
    (progs : List (List Op)) (sched : List Nat) (t : Thread) (k : Key) (v : Val)
    (ht : t ∈ (runSched (machine cfg vic) (sys s0 progs) sched).threads)
    (hr : (Op.get k, Out.val (some v)) ∈ t.results) :
    (∃ e, (k, e) ∈ s0.store ∧ e.val = v) ∨ (∃ p ∈ progs, ∃ sh, Op.put k v sh ∈ p) := by
  let Wr : Key → Val → Prop := fun k v =>
    (∃ e, (k, e) ∈ s0.store ∧ e.val = v) ∨ (∃ p ∈ progs, ∃ sh, Op.put k v sh ∈ p)
  have h0 : WInv Wr (sys s0 progs) := by
    refine ⟨fun p hp => Or.inl ⟨p.2, hp, rfl⟩, ?_⟩
    intro t ht
    obtain ⟨p, hp, rfl⟩ := List.mem_map.mp ht
    refine ⟨trivial, ?_, fun r hr => by cases hr⟩
    intro op hop
    cases op with
    | put k v sh => exact Or.inr ⟨p, hp, sh, hop⟩
    | get k => trivial
    | contains k => trivial
    | remove k => trivial
    | clear => trivial
    | sweep ord => trivial
  have h := runSched_inv (machine cfg vic) (WInv Wr) (fun y i => winv_stepAt cfg vic y i) sched _ h0
  exact (h.threads t ht).2.2 _ hr k v rfl rfl

/-! ## where the pinned tree violates the full statement: witness schedules -/

def cfgW : Config := { maxEntries := 1000, maxBytes := none, policy := .lru, defaultShort := false }

/-- the cache holds one entry for key 0 whose TTL has ended (3 bytes) and books that are right -/
def expired0 : State :=
  { store := [(0, { val := [1, 2, 3], size := 3, created := 1, last := 1, hits := 1, short := true })],
    count := 1, bytes := 3, clock := 1 }

/-- thread 0: `get 0`; thread 1: `put 0 [9]` (one byte, long TTL).  Schedule: the reader looks
(sees the ended TTL, drops the guard), the writer runs to completion, the reader continues. -/
def raceSched : List Nat := [0, 1, 1, 1, 0, 0, 0]

/-- **⟂ a fresh put is deleted by a reader that had seen the old entry.**  After the schedule
everybody has finished, the put answered `ok` after the entry had expired, nobody removed or
cleared anything — and the cache is empty. -/
theorem mem_expired_get_deletes_fresh_put_witness :
    let y := runSched (machine cfgW (detVic cfgW)) (sys expired0 [[.get 0], [.put 0 [9] false]]) raceSched
    quiescent (machine cfgW (detVic cfgW)) y = true ∧ y.shared.store = [] ∧
    y.threads.map (·.results) = [[(.get 0, .val none)], [(.put 0 [9] false, .unit)]] := by
  decide

/-- **⟂ counter drift from the same race.**  The reader subtracts the 3 bytes of the entry it
saw, the entry it removed had 1 byte: at quiescence `memory_usage` is −2 (the Rust counter wraps
to 2^64 − 2) over an empty cache, so the books are wrong for good. -/
theorem mem_counter_drift_expired_race_witness :
    let y := runSched (machine cfgW (detVic cfgW)) (sys expired0 [[.get 0], [.put 0 [9] false]]) raceSched
    quiescent (machine cfgW (detVic cfgW)) y = true ∧ Books expired0 ∧ ¬ Books y.shared ∧
    y.shared.bytes = -2 ∧ wrap y.shared.bytes = 18446744073709551614 := by
  decide

/-- **⟂ `clear` racing a put.**  Empty cache; thread 0 `put 0 [9]`, thread 1 `clear`.  The put
inserts, `clear` empties the map and zeroes both counters, the put then adds its 1 entry /
1 byte: at quiescence the counters say 1 / 1 over an empty cache. -/
theorem mem_clear_races_put_witness :
    let y := runSched (machine cfgW (detVic cfgW)) (sys MemCache.init [[.put 0 [9] false], [.clear]])
      [0, 0, 1, 1, 1, 0, 0]
    quiescent (machine cfgW (detVic cfgW)) y = true ∧ y.shared.store = [] ∧
    y.shared.count = 1 ∧ y.shared.bytes = 1 ∧ ¬ Books y.shared := by
  decide

/-! ## the background cleanup task (`MemoryCache::new_with_cleanup`) -/

/-- **books with expiring entries and the cleanup task, at every moment.**  Any number of
threads, any lists of put / put_with_ttl (expiring or not) / remove / sweep (one tick of the
cleanup task, any iteration order), any victim choice, ANY schedule, stopped anywhere: the
counters plus what the threads still owe them equal the real contents.  The sweep's
`remove_if(key, |_, e| e.is_expired())` tests the entry stored at that instant and books the
size of the entry it removed, so a put that re-writes a collected key in between — expiring or
not, of any size — leaves the books right. -/
theorem mem_books_pending_sweep (cfg : Config) (vic : Store → Nat → List Key) (s0 : State)
    (progs : List (List Op)) (sched : List Nat)
    (hn : NoDup s0.store) (hb : Books s0)
    (hp : ∀ p ∈ progs, ∀ op ∈ p, OpSw op) :
    let y := runSched (machine cfg vic) (sys s0 progs) sched
    y.shared.count + sumF (fun t => pendC t.pc) y.threads = (y.shared.store.length : Int) ∧
    y.shared.bytes + sumF (fun t => pendB t.pc) y.threads = (sumSize y.shared.store : Int) := by
  have h := runSched_inv (machine cfg vic) SInv (fun y i => sinv_stepAt cfg vic y i) sched _
    (sinv_sys hn hb.1 hb.2 hp)
  exact ⟨h.count, h.bytes⟩

/-- … hence at quiescence `entry_count` and `memory_usage` equal the real contents. -/
theorem mem_books_quiescent_sweep (cfg : Config) (vic : Store → Nat → List Key) (s0 : State)
    (progs : List (List Op)) (sched : List Nat)
    (hn : NoDup s0.store) (hb : Books s0)
    (hp : ∀ p ∈ progs, ∀ op ∈ p, OpSw op)
    (hq : quiescent (machine cfg vic) (runSched (machine cfg vic) (sys s0 progs) sched) = true) :
    Books (runSched (machine cfg vic) (sys s0 progs) sched).shared := by
  have h := mem_books_pending_sweep cfg vic s0 progs sched hn hb hp
  have hz := pend_zero_of_quiescent hq
  dsimp only at h
  rw [hz.1, hz.2] at h
  exact ⟨by have := h.1; omega, by have := h.2; omega⟩

/-- the hypotheses are satisfiable by a non-trivial instance: the cache holds an expired entry,
the cleanup task runs two ticks while one thread re-writes the key (long and short TTL) and
another removes it -/
example : (∀ p ∈ [[Op.sweep [0, 1], .sweep []], [.put 0 [9] false, .put 0 [7, 7] true], [.remove 0]],
    ∀ op ∈ p, OpSw op) ∧ NoDup expired0.store ∧ Books expired0 := ⟨by decide, ⟨rfl, trivial⟩, rfl, rfl⟩

/-- **the sweep leaves alone whatever has not expired** — from ANY state of ANY system: the
sweeping threads may stand anywhere in their loop, with ANY list of collected keys (so also
keys whose entry has been re-written since the collection); as long as only they take steps, in
any order and number, every entry whose TTL has not ended stays stored, unchanged. -/
theorem mem_sweep_spares_live_entries (cfg : Config) (vic : Store → Nat → List Key) :
    ∀ (sched : List Nat) (y : Sys State Thread Ev),
    (∀ i ∈ sched, ∀ t, y.threads[i]? = some t → SweepOnly t) →
    ∀ (k : Key) (e : Entry), lookup k y.shared.store = some e → e.short = false →
    lookup k (runSched (machine cfg vic) y sched).shared.store = some e := by
  intro sched
  induction sched with
  | nil => intro y _ k e hl _; exact hl
  | cons i rest ih =>
    intro y hs k e hl he
    have h1 := stepAt_sweeper_spares cfg vic y i (hs i List.mem_cons_self)
    refine ih (stepAt (machine cfg vic) y i) ?_ k e (h1.2 k e hl he) he
    intro i' hi' t ht
    obtain ⟨t0, ht0, himp⟩ := h1.1 i' t ht
    exact himp (hs i' (List.mem_cons_of_mem _ hi') t0 ht0)

/-- **a value written after an entry expired is not deleted by the sweep that had seen the old
entry.**  Thread `j` stands before the map step of a `put_with_ttl(k, v, long TTL)`; the other
threads are anywhere — in particular a cleanup task that has already collected `k` because the
entry it saw under `k` had expired.  The put inserts, and then the sweeping threads run, any
number of steps in any order: `k` still holds `v`. -/
theorem mem_sweep_spares_fresh_put (cfg : Config) (vic : Store → Nat → List Key)
    (y : Sys State Thread Ev) (j : Nat) (t : Thread) (a : PutArgs)
    (hj : y.threads[j]? = some t) (hpc : t.pc = .pInsert a) (ha : a.short = false)
    (sched : List Nat)
    (hs : ∀ i ∈ sched, ∀ u, (stepAt (machine cfg vic) y j).threads[i]? = some u → SweepOnly u) :
    (lookup a.k (runSched (machine cfg vic) y (j :: sched)).shared.store).map (·.val) = some a.v := by
  have hne : t.pc ≠ .idle := by rw [hpc]; exact fun h => by cases h
  have hins : ∃ e, lookup a.k (stepAt (machine cfg vic) y j).shared.store = some e ∧
      e.short = false ∧ e.val = a.v := by
    have hd : ¬ ((machine cfg vic).done t = true) := by
      show ¬ (Thread.done t = true)
      unfold Thread.done; rw [hpc]; simp
    have heq : stepAt (machine cfg vic) y j =
        { shared := (step cfg vic y.shared t).1, threads := y.threads.set j (step cfg vic y.shared t).2.1,
          log := y.log ++ (step cfg vic y.shared t).2.2.map (fun e => (j, e)) } := by
      unfold stepAt
      rw [hj]
      simp only [hd]
      rfl
    rw [heq]
    show ∃ e, lookup a.k (step cfg vic y.shared t).1.store = some e ∧ _
    rw [step_cont cfg vic y.shared hne, hpc]
    cases hl : lookup a.k (MemCache.tick y.shared).store with
    | none =>
      rw [contOp_pInsert_none cfg vic _ hl]
      exact ⟨_, lookup_cons_self _ _ _, ha, rfl⟩
    | some old =>
      rw [contOp_pInsert_some cfg vic _ hl]
      exact ⟨_, lookup_cons_self _ _ _, ha, rfl⟩
  obtain ⟨e, hl, he, hv⟩ := hins
  have := mem_sweep_spares_live_entries cfg vic sched (stepAt (machine cfg vic) y j) hs a.k e hl he
  show (lookup a.k (runSched (machine cfg vic) (stepAt (machine cfg vic) y j) sched).shared.store).map (·.val) = some a.v
  rw [this]; exact congrArg some hv

/-- thread 0: one tick of the cleanup task; thread 1: `put 0 [9]` (one byte, long TTL) over the
expired 3-byte entry.  Schedule: the sweep collects key 0, the writer runs to completion, the
sweep goes on (`remove_if` → still expired? no → next key). -/
def sweepRace : List (List Op) := [[.sweep []], [.put 0 [9] false]]

/-- (test, the code as written) the fresh value survives, the books are right -/
theorem mem_sweep_race_as_written :
    let y := runSched (machine cfgW (detVic cfgW)) (sys expired0 sweepRace) raceSched
    quiescent (machine cfgW (detVic cfgW)) y = true ∧
    y.shared.store.map (fun p => (p.1, p.2.val, p.2.short)) = [(0, [9], false)] ∧
    y.shared.count = 1 ∧ y.shared.bytes = 1 ∧ y.log = [(1, .put 0 [9])] := by
  decide

/-- the cleanup loop with an UNCONDITIONAL removal of every collected key (`storage.remove`, or
a `remove_if` whose closure does not look at the entry stored now) — NOT the code, the variant
the re-check exists to exclude -/
def stepU (cfg : Config) (vic : Store → Nat → List Key) (s0 : State) (t : Thread) :
    State × Thread × List Ev :=
  match t.pc with
  | .wRemove k ks =>
    let s := MemCache.tick s0
    match lookup k s.store with
    | some e => ({ s with store := erase k s.store }, { t with pc := .wCount e.size ks }, [.drop k])
    | none => (s, { t with pc := afterSweep ks }, [])
  | _ => step cfg vic s0 t

def machineU (cfg : Config) (vic : Store → Nat → List Key) : Machine State Thread Ev :=
  { step := stepU cfg vic, done := Thread.done }

/-- **⟂ with an unconditional removal the same schedule deletes the fresh put**: the put
answered `ok` after the entry had expired, nobody removed or cleared anything, and the cache is
empty — the statement of `mem_sweep_spares_fresh_put` fails for that variant. -/
theorem mem_sweep_unconditional_deletes_fresh_put_witness :
    let y := runSched (machineU cfgW (detVic cfgW)) (sys expired0 sweepRace) raceSched
    quiescent (machineU cfgW (detVic cfgW)) y = true ∧ y.shared.store = [] ∧
    y.threads.map (·.results) = [[(.sweep [], .unit)], [(.put 0 [9] false, .unit)]] ∧
    y.log = [(1, .put 0 [9]), (0, .drop 0)] := by
  decide

/-- **linearizability (partial: no expiring entries; `clear` and evictions included).**  For
every number of threads, every such operation lists, every victim choice and EVERY schedule,
stopped anywhere, the ghost log — one event per operation, appended by the operation's own
map-access step, hence inside its invocation–response interval and in an order that respects
real-time order, plus one `drop` per entry an eviction removed — is a sequential history in
which every answer is the one a plain map gives at that instant (`Legal`), the stored map is
exactly the result of that history, and the answers each thread has received are precisely its
events of the log, in program order.  So every operation appears to take effect at one instant.
-/
theorem mem_linearizable_partial (cfg : Config) (vic : Store → Nat → List Key) (s0 : State)
    (progs : List (List Op)) (sched : List Nat)
    (hn : NoDup s0.store) (hs : NoShort s0.store)
    (hp : ∀ p ∈ progs, ∀ op ∈ p, OpOk true op) :
    let y := runSched (machine cfg vic) (sys s0 progs) sched
    Legal (abs s0.store) (y.log.map (·.2)) ∧
    abs y.shared.store = applyAll (abs s0.store) (y.log.map (·.2)) ∧
    ∀ i t, y.threads[i]? = some t → evsOf t.results = clientLog i y.log := by
  have h0 : LInv (abs s0.store) (sys s0 progs) := by
    refine ⟨hn, hs, ?_, trivial, rfl, ?_⟩
    · intro t ht
      obtain ⟨p, hp', rfl⟩ := List.mem_map.mp ht
      exact ⟨trivial, hp p hp'⟩
    · intro i t hget
      obtain ⟨p, _, rfl⟩ := List.mem_map.mp (List.mem_of_getElem? hget)
      rfl
  have h := runSched_inv (machine cfg vic) (LInv (abs s0.store)) (fun y i => linv_stepAt cfg vic y i) sched _ h0
  exact ⟨h.legal, h.final, h.answers⟩

/-- **⟂ the same statement with expiring entries is false**: in the witness schedule above the
log is `get 0 ↦ none; put 0 [9]; drop 0`, the reader's removal of the fresh value is not an
operation anybody asked for — the final map is empty although the only completed write is the
put and nothing was removed, cleared or evicted (no eviction ran: 1 entry, max_entries 1000). -/
theorem mem_linearizable_expiring_witness :
    let y := runSched (machine cfgW (detVic cfgW)) (sys expired0 [[.get 0], [.put 0 [9] false]]) raceSched
    y.log = [(0, .get 0 none), (1, .put 0 [9]), (0, .drop 0)] ∧ y.shared.store = [] := by
  decide

/-- the hypotheses of the partial theorems are satisfiable by a non-trivial instance: three
threads racing put / remove / get on one key from an empty cache -/
example : ∃ progs : List (List Op), progs.length = 3 ∧ (∀ p ∈ progs, ∀ op ∈ p, OpOk false op) ∧
    NoDup MemCache.init.store ∧ NoShort MemCache.init.store ∧ Books MemCache.init :=
  ⟨[[.put 0 [1] false, .get 0], [.remove 0, .put 0 [2, 2] false], [.get 0, .contains 0]], rfl,
   by decide, trivial, (fun p hp => by cases hp), rfl, rfl⟩

/-- … and of the linearizability theorem, with `clear` -/
example : ∀ p ∈ [[Op.put 0 [1] false, .clear], [.get 0, .remove 0]], ∀ op ∈ p, OpOk true op := by decide

end Cascette.Props.C11

/-! # DiskCache under concurrency (Model/DiskConc)

Every DiskCache operation cut at the `disk.*` schedule points (temp-file open, write, rename,
index update under the RwLock), over a directory with inodes.  Theorems for ANY number of
threads and ANY schedule; the races the pinned tree has are kernel-checked witness schedules,
each replayed on the real DiskCache (corpus/C11/disk-*.case) and recorded as a finding. -/

namespace Cascette.Props.C11.Disk
open Cascette.Spec.CacheMap (Key Val)
open Cascette.Spec.Interleave
open Cascette.Model.CacheAssoc Cascette.Proofs.CacheAssoc
open Cascette.Model.DiskConc
open Cascette.Proofs.DiskConc
open Cascette.Proofs.MemConc (runSched_inv)
open Cascette.Spec.Interleave (quiescent)
open Cascette.Model.MemConc (wrap)

/-- **books of the disk cache, at every moment** (partial: programs without `get`).  Any number
of threads, any lists of put / put_with_ttl (expiring or not) / contains / remove on the same
or different keys, ANY file-name layout (shared temporary names included: a put whose rename
fails changes nothing), ANY schedule, stopped anywhere: `entry_count` is the number of index
entries and `disk_usage` the sum of their sizes — the index and both counters change in one
step under the index write lock. -/
theorem disk_books_always_partial (L : Layout) (s0 : State) (progs : List (List Op)) (sched : List Nat)
    (hb : DBooks s0) (hp : ∀ p ∈ progs, ∀ op ∈ p, OpNG op) :
    DBooks (runSched (machine L) (sys s0 progs) sched).shared :=
  (runSched_inv (machine L) BInv (fun y i => binv_stepAt L y i) sched _ (binv_sys hb hp)).books

/-- the hypotheses are satisfiable by a non-trivial instance: same-key puts racing a remove -/
example : DBooks init ∧ ∀ p ∈ [[Op.put 0 [1] false, .contains 0], [.put 0 [2, 2] true], [.remove 0]],
    ∀ op ∈ p, OpNG op := ⟨⟨trivial, rfl, rfl⟩, by decide⟩

/-! ## witness schedules: where the pinned tree violates the full statement -/

/-- file names of the run: key `k` is stored in file `k`; keys 0, 1 have their own temporary
file, keys 2 and 3 ("ribbit:us:e.a" / "ribbit:us:e.b") share one -/
def layW : Layout := { fin := fun k => k, tmp := fun k => if k = 3 then 6 else k + 4 }

abbrev run (s : State) (progs : List (List Op)) (sched : List Nat) := runSched (machine layW) (sys s progs) sched

/-- **(a) puts of threads that use different file names: nothing fails, every value is
retrievable, the books are exact** — for ANY number of threads, ANY lists of puts (expiring or
not, the same key any number of times within a thread), ANY schedule, stopped anywhere.
`own k` names the thread that puts key `k`; the layout must give different entry files to
different keys, never use an entry file as a temporary file, and give keys of different threads
different temporary files (`Sep`; keys of ONE thread may share theirs, as "x.a" / "x.b" do).
Then no put answers `Err`, and for every thread that is between operations the last value it put
under each key is what the index records (size, TTL class) and what the entry file holds —
whatever the other threads are in the middle of; the books are right at every moment. -/
theorem disk_puts_distinct_names (L : Layout) (own : Key → Nat) (hS : Sep L own) (s0 : State)
    (progs : List (List Op)) (sched : List Nat) (hf : FsOk s0.fs) (hb : DBooks s0)
    (hp : ∀ i p, progs[i]? = some p → ∀ op ∈ p, PutOwn own i op) :
    let y := runSched (machine L) (sys s0 progs) sched
    DBooks y.shared ∧
    ∀ (i : Nat) (t : Thread), y.threads[i]? = some t →
      (∀ r ∈ t.results, r.2 = Out.unit) ∧
      (t.pc = Pc.idle → ∀ k v sh, lastPut t.results k = some (v, sh) →
        lookup k y.shared.index = some { size := v.length, short := sh } ∧
        y.shared.fs.read (L.fin k) = some v) := by
  intro y
  have hng : ∀ p ∈ progs, ∀ op ∈ p, OpNG op := by
    intro p hp' op hop
    obtain ⟨i, hi⟩ := List.getElem?_of_mem hp'
    exact putOwn_opNG (hp i p hi op hop)
  refine ⟨disk_books_always_partial L s0 progs sched hb hng, ?_⟩
  have h := runSched_inv (machine L) (AInv L own) (fun y i => ainv_stepAt hS y i) sched _ (ainv_sys hf hp)
  intro i t ht
  have hti := h.threads i t ht
  refine ⟨fun r hr => (hti.res r hr).1, ?_⟩
  intro hidle k v sh hl
  have hown : own k = i := hti.lp k (by rw [hl]; exact fun e => by cases e)
  have := hti.retr k hown (by rw [hidle]; exact fun e => by cases e)
  rw [hl] at this
  exact this

/-- … in particular at quiescence: both (all) values are there -/
theorem disk_puts_distinct_names_quiescent (L : Layout) (own : Key → Nat) (hS : Sep L own) (s0 : State)
    (progs : List (List Op)) (sched : List Nat) (hf : FsOk s0.fs) (hb : DBooks s0)
    (hp : ∀ i p, progs[i]? = some p → ∀ op ∈ p, PutOwn own i op)
    (hq : quiescent (machine L) (runSched (machine L) (sys s0 progs) sched) = true) :
    let y := runSched (machine L) (sys s0 progs) sched
    DBooks y.shared ∧ ∀ t : Thread, t ∈ y.threads → (∀ r ∈ t.results, r.2 = Out.unit) ∧
      ∀ k v sh, lastPut t.results k = some (v, sh) →
        lookup k y.shared.index = some { size := v.length, short := sh } ∧
        y.shared.fs.read (L.fin k) = some v := by
  intro y
  have h := disk_puts_distinct_names L own hS s0 progs sched hf hb hp
  refine ⟨h.1, ?_⟩
  intro t ht
  obtain ⟨i, hi⟩ := List.getElem?_of_mem ht
  have hd : t.done = true := List.all_eq_true.mp hq t ht
  have hidle : t.pc = Pc.idle := by
    unfold Thread.done at hd
    simp only [Bool.and_eq_true, decide_eq_true_eq] at hd
    exact hd.1
  exact ⟨(h.2 i t hi).1, (h.2 i t hi).2 hidle⟩

/-- a stored value is what a `get` run alone returns (three steps: look, read, touch) -/
theorem disk_get_of_stored (L : Layout) (s : State) (k : Key) (v : Val)
    (h1 : lookup k s.index = some { size := v.length, short := false }) (h2 : s.fs.read (L.fin k) = some v) :
    (runSched (machine L) (sys s [[.get k]]) [0, 0, 0]).threads.map (·.results) = [[(.get k, .val (some v))]] := by
  simp [runSched, stepAt, sys, machine, Thread.new, Thread.done, step, startOp, contOp, pcOp, h1, h2]

/-- a layout over all keys: entry file 2k, temporary file 2k+1, except that key 3 uses key 2's
temporary file (as "ribbit:us:e.a" / "ribbit:us:e.b" do) -/
def layS : Layout := { fin := fun k => 2 * k, tmp := fun k => if k = 3 then 5 else 2 * k + 1 }

/-- the hypotheses are satisfiable by a non-trivial instance: keys 2 and 3 share their temporary
file and belong to one thread; three threads, a repeated key -/
example : Sep layS (fun k => if k = 3 then 2 else k) ∧ FsOk init.fs ∧ DBooks init ∧
    ∀ i p, [[Op.put 0 [1] false, .put 0 [2, 2] true], [.put 1 [3] false], [.put 2 [4] false, .put 3 [5] false]][i]? = some p →
      ∀ op ∈ p, PutOwn (fun k => if k = 3 then 2 else k) i op := by
  refine ⟨⟨?_, ?_, ?_⟩, fsOk_empty, ⟨trivial, rfl, rfl⟩, ?_⟩
  · intro (k : Nat) (k' : Nat) (h : 2 * k = 2 * k'); exact Nat.eq_of_mul_eq_mul_left (by decide) h
  · intro (k : Nat) (k' : Nat); show (if k = 3 then 5 else 2 * k + 1) ≠ 2 * k'; split <;> omega
  · intro (k : Nat) (k' : Nat) (h : (if k = 3 then 5 else 2 * k + 1) = (if k' = 3 then 5 else 2 * k' + 1))
    show (if k = 3 then 2 else k) = (if k' = 3 then 2 else k')
    by_cases e1 : k = 3 <;> by_cases e2 : k' = 3 <;> simp only [e1, e2, if_true, if_false] at h ⊢ <;> omega
  · intro i p hi op hop
    match i, hi with
    | 0, hi => cases hi; simp at hop; rcases hop with rfl | rfl <;> rfl
    | 1, hi => cases hi; simp at hop; subst hop; rfl
    | 2, hi => cases hi; simp at hop; rcases hop with rfl | rfl <;> rfl
    | n + 3, hi => simp at hi

/-- **⟂ a put that loses no race for the index fails** (`disk-shared-tmp-rename-fails`).  Two
threads put the same value under the same key; both open `<key>.tmp`, thread 1 writes and
renames it away, thread 0's rename finds no such file: `Err(Io)`. -/
theorem disk_shared_tmp_rename_fails_witness :
    let y := run init [[.put 0 [0xa1] false], [.put 0 [0xa1] false]] [0, 0, 0, 1, 1, 1, 1, 0, 1]
    quiescent (machine layW) y = true ∧
    y.threads.map (·.results) = [[(.put 0 [0xa1] false, .err)], [(.put 0 [0xa1] false, .unit)]] := by
  decide

/-- **⟂ a torn value is published** (`disk-shared-tmp-foreign-bytes`).  Thread 0 puts 1 byte,
thread 1 puts 3 bytes under the same key.  Both open the shared temporary file (one inode),
thread 1 writes `b2 b2 b2`, thread 0 writes `a1` over its beginning and renames: the entry file
holds `a1 b2 b2`, a value nobody wrote; the index says 1 byte; thread 1's rename fails. -/
theorem disk_shared_tmp_torn_value_witness :
    let y := run init [[.put 0 [0xa1] false], [.put 0 [0xb2, 0xb2, 0xb2] false]] [0, 0, 1, 1, 1, 0, 0, 0, 1]
    quiescent (machine layW) y = true ∧
    y.shared.fs.read (layW.fin 0) = some [0xa1, 0xb2, 0xb2] ∧
    lookup 0 y.shared.index = some { size := 1, short := false } ∧ y.shared.bytes = 1 ∧
    y.threads.map (·.results) =
      [[(.put 0 [0xa1] false, .unit)], [(.put 0 [0xb2, 0xb2, 0xb2] false, .err)]] := by
  decide

/-- **⟂ another key's bytes are published** (same sig).  Keys 2 and 3 share their temporary
name.  Thread 1 (key 3) writes into the inode thread 0 (key 2) has already renamed to key 2's
file: key 2 serves key 3's value, key 3's put fails. -/
theorem disk_shared_tmp_foreign_bytes_witness :
    let y := run init [[.put 2 [0x2a, 0x2a] false], [.put 3 [0x3b, 0x3b, 0x3b] false]] [0, 0, 0, 1, 1, 0, 0, 1, 1]
    quiescent (machine layW) y = true ∧
    y.shared.fs.read (layW.fin 2) = some [0x3b, 0x3b, 0x3b] ∧
    lookup 2 y.shared.index = some { size := 2, short := false } ∧ lookup 3 y.shared.index = none ∧
    y.threads.map (·.results) =
      [[(.put 2 [0x2a, 0x2a] false, .unit)], [(.put 3 [0x3b, 0x3b, 0x3b] false, .err)]] := by
  decide

/-- **⟂ put racing remove leaves an index entry without a file**
(`disk-put-remove-index-without-file`).  The put has renamed its file into place, the remove
(not indexed yet: it deletes the file it finds) runs, the put then indexes the key: both
answered successfully, the books count an entry, and a `get` run alone afterwards fails. -/
theorem disk_put_remove_index_without_file_witness :
    let y := run init [[.put 0 [0xa1] false], [.remove 0]] [0, 0, 0, 0, 1, 0]
    quiescent (machine layW) y = true ∧
    y.threads.map (·.results) = [[(.put 0 [0xa1] false, .unit)], [(.remove 0, .bool true)]] ∧
    lookup 0 y.shared.index = some { size := 1, short := false } ∧ y.shared.fs.read (layW.fin 0) = none ∧
    (run y.shared [[.get 0]] [0, 0]).threads.map (·.results) = [[(.get 0, .err)]] := by
  decide

/-- key 0 stored (2 bytes), books right -/
def live0 : State :=
  { index := [(0, { size := 2, short := false })], fs := { dir := [(0, 0)], inodes := [[0x1e, 0x1e]] },
    count := 1, bytes := 2 }

/-- key 0 stored with a TTL that has ended (6 bytes), books right -/
def expired0 : State :=
  { index := [(0, { size := 6, short := true })], fs := { dir := [(0, 0)], inodes := [[0xf6, 0xf6, 0xf6, 0xf6, 0xf6, 0xf6]] },
    count := 1, bytes := 6 }

/-- (test) these start states are what a put leaves behind -/
example : (run init [[.put 0 [0x1e, 0x1e] false]] [0, 0, 0, 0, 0]).shared = live0 := by decide
example : (run init [[.put 0 [0xf6, 0xf6, 0xf6, 0xf6, 0xf6, 0xf6] true]] [0, 0, 0, 0, 0]).shared = expired0 := by decide

/-- **⟂ get racing remove fails and corrupts the books** (`disk-get-fails-racing-remove`,
`disk-counter-drift-stale-get`).  The get looks the entry up, the remove deletes entry and file,
the get's read fails: it answers `Err`, removes the key from the index again (nothing there)
and decrements both counters regardless — `entry_count` = −1 (2^64 − 1 in the Rust) over an
empty cache, for good. -/
theorem disk_get_fails_racing_remove_witness :
    let y := run live0 [[.remove 0], [.get 0]] [1, 0, 1]
    quiescent (machine layW) y = true ∧ DBooks live0 ∧
    y.threads.map (·.results) = [[(.remove 0, .bool true)], [(.get 0, .err)]] ∧
    y.shared.index = [] ∧ y.shared.count = -1 ∧ y.shared.bytes = -2 ∧ ¬ DBooks y.shared ∧
    wrap y.shared.count = 18446744073709551615 := by
  refine ⟨by decide, ⟨⟨rfl, trivial⟩, rfl, rfl⟩, by decide, by decide, by decide, by decide, ?_, by decide⟩
  intro h; exact absurd h.count (by decide)

/-- **⟂ a get with an old index entry serves the file of a put that is not indexed yet**
(`disk-get-serves-unindexed-put`).  The get looks key 0 up (entry of the old value, lock
dropped); the other thread removes the key (answer `true`) and then puts `8a`: file written and
renamed into place, index step still to come.  The get now reads the file — the NEW bytes —
and answers `8a`; the same thread's `contains` right after says `false` (the index is empty
until the put's last step).  No sequential order explains `get = 8a` followed by
`contains = false` with the only remove BEFORE that put in its thread: file publication and
index update are two instants. -/
theorem disk_get_serves_unindexed_put_witness :
    let y := run live0 [[.get 0, .contains 0], [.remove 0, .put 0 [0x8a] false]] [0, 1, 1, 1, 1, 1, 0, 0, 0, 1]
    quiescent (machine layW) y = true ∧
    y.threads.map (·.results) =
      [[(.get 0, .val (some [0x8a])), (.contains 0, .bool false)],
       [(.remove 0, .bool true), (.put 0 [0x8a] false, .unit)]] ∧
    lookup 0 y.shared.index = some { size := 1, short := false } ∧
    y.shared.fs.read (layW.fin 0) = some [0x8a] := by
  decide

/-- **⟂ a value written after an entry expired is deleted by a reader that had seen the old
entry** (`disk-expired-get-deletes-fresh-put`, `disk-counter-drift-stale-get`).  The get sees
the ended TTL, the put runs to completion (file renamed, entry replaced: 1 byte), the get then
removes the key from the index, deletes the file and subtracts the 6 bytes it saw: put answered
`Ok`, nobody removed anything, the cache is empty and `disk_usage` = −5. -/
theorem disk_expired_get_deletes_fresh_put_witness :
    let y := run expired0 [[.get 0], [.put 0 [0xa1] false]] [0, 1, 1, 1, 1, 1, 0]
    quiescent (machine layW) y = true ∧ DBooks expired0 ∧
    y.threads.map (·.results) = [[(.get 0, .val none)], [(.put 0 [0xa1] false, .unit)]] ∧
    y.shared.index = [] ∧ y.shared.fs.read (layW.fin 0) = none ∧
    y.shared.count = 0 ∧ y.shared.bytes = -5 ∧ wrap y.shared.bytes = 18446744073709551611 := by
  refine ⟨by decide, ⟨⟨rfl, trivial⟩, rfl, rfl⟩, by decide, by decide, by decide, by decide, by decide, by decide⟩

/-- **⟂ two readers of one expired entry**: both see the ended TTL, both decrement —
`entry_count` = −1 over an empty cache without any writer at all (same sig
`disk-counter-drift-stale-get`). -/
theorem disk_expired_two_readers_witness :
    let y := run expired0 [[.get 0], [.get 0]] [0, 1, 0, 1]
    quiescent (machine layW) y = true ∧ y.shared.index = [] ∧ y.shared.count = -1 ∧ y.shared.bytes = -6 := by
  decide

end Cascette.Props.C11.Disk

/-! # MultiLayerCacheImpl (Model/MultiConc)

The multi-layer cache over MemoryCache layers: every operation a walk over the layers (each
per-layer call = the MemoryCache operation of Model/MemConc, cut at its own schedule points) plus
one access to the promotion tracker, cut at `ml.layer.after_<op>` between two layers and between
a layer and the tracker.  Any number of layers, threads, operations; ANY schedule. -/

namespace Cascette.Props.C11.Multi
open Cascette.Spec.CacheMap (Key Val)
open Cascette.Spec.Interleave
open Cascette.Model.CacheAssoc Cascette.Proofs.CacheAssoc
open Cascette.Model.MemCache (Config Entry Store State)
open Cascette.Model.MemConc (detVic)
open Cascette.Model.MultiConc
open Cascette.Proofs.MultiConc
open Cascette.Proofs.MemConc (runSched_inv)
open Cascette.Model

/-- **a multi-layer get returns a value some put wrote for that key** (full statement: every
operation of the model, any number of layers, every schedule).  Whatever a `get k` answered, at
any point of any schedule, is the value of an entry some layer held under `k` at the start, or of
a `put k` / `put_to_layer k` in one of the programs — whichever layer served it, however the
walk over the layers was interleaved with other threads' walks. -/
theorem ml_get_reads_some_put (cfg : Config) (vic : Store → Nat → List Key) (s0 : MState)
    (progs : List (List MOp)) (sched : List Nat) (t : MThread) (k : Key) (v : Val)
    (ht : t ∈ (runSched (machine cfg vic) (sys s0 progs) sched).threads)
    (hr : (MOp.get k, MOut.val (some v)) ∈ t.results) :
    (∃ ls ∈ s0.layers, ∃ e, (k, e) ∈ ls.store ∧ e.val = v) ∨
    (∃ p ∈ progs, MOp.put k v ∈ p ∨ ∃ l, MOp.putTo k v l ∈ p) := by
  let Wr : Key → Val → Prop := fun k v =>
    (∃ ls ∈ s0.layers, ∃ e, (k, e) ∈ ls.store ∧ e.val = v) ∨
    (∃ p ∈ progs, MOp.put k v ∈ p ∨ ∃ l, MOp.putTo k v l ∈ p)
  have h0 : MWInv Wr (sys s0 progs) := by
    refine ⟨fun ls hls p hp => Or.inl ⟨ls, hls, p.2, hp, rfl⟩, ?_⟩
    intro t ht
    obtain ⟨p, hp, rfl⟩ := List.mem_map.mp ht
    refine ⟨trivial, ?_, fun r hr => by cases hr⟩
    intro op hop
    cases op with
    | put k v => exact Or.inr ⟨p, hp, Or.inl hop⟩
    | putTo k v l => exact Or.inr ⟨p, hp, Or.inr ⟨l, hop⟩⟩
    | get k => trivial
    | contains k => trivial
    | remove k => trivial
    | clear => trivial
  have h := runSched_inv (machine cfg vic) (MWInv Wr) (fun y i => mwinv_stepAt cfg vic y i) sched _ h0
  exact (h.threads t ht).2.2 _ hr k v rfl rfl

/-- **a remove that loses no race removes the key from every layer, whatever the promotion
tracker knows.**  From ANY state — any number of layers holding anything (a value stored by a
`put` still in flight in another thread, by `put_to_layer`, by a promotion), ANY tracker
contents, in particular NO tracker entry for the key — a `remove k` that runs with no other
thread taking a step: once it has returned, no layer holds `k`, `k` has no tracker entry, and
its answer is `true` exactly when some layer held `k`.  (The promotion tracker is not a
membership filter: see `ml_stored_key_without_tracker_witness`.) -/
theorem ml_remove_alone_empties_every_layer (cfg : Config) (vic : Store → Nat → List Key)
    (s0 : MState) (k : Key) (hne : s0.layers ≠ []) (sched : List Nat)
    (hq : quiescent (machine cfg vic) (runSched (machine cfg vic) (sys s0 [[.remove k]]) sched) = true) :
    let y := runSched (machine cfg vic) (sys s0 [[.remove k]]) sched
    (∀ ls ∈ y.shared.layers, lookup k ls.store = none) ∧ k ∉ y.shared.tracked ∧
    y.threads.map (·.results) =
      [[(.remove k, .bool (s0.layers.any (fun ls => (lookup k ls.store).isSome)))]] := by
  have hlen : 0 < (stores s0).length := by
    rw [stores_length]
    exact List.length_pos_iff.mpr hne
  have h := runSched_inv (machine cfg vic) (RmSys k (stores s0))
    (fun y i => rmSys_stepAt cfg vic k hlen y i) sched _ (rmSys_init k s0)
  have hfin := rmSys_quiescent cfg vic k h hq
  refine ⟨?_, hfin.2.1, ?_⟩
  · intro ls hls
    exact hfin.1 ls.store (List.mem_map.mpr ⟨ls, hls, rfl⟩)
  · rw [hfin.2.2]
    simp only [stores, List.any_map]
    rfl

/-! ## witness schedules (kernel-checked runs of the model; tests of single schedules) -/

def cfgM : Config := { maxEntries := 1000, maxBytes := none, policy := .lru, defaultShort := false }

abbrev runM (s : MState) (progs : List (List MOp)) (sched : List Nat) : Sys MState MThread Unit :=
  runSched (machine cfgM (detVic cfgM)) (sys s progs) sched

def ent (v : Val) : Entry := { val := v, size := v.length, created := 0, last := 0, hits := 1, short := false }

/-- key 0 in both layers: `put_to_layer(0, 9797, 1)` then `put(0, e5)` -/
def both0 : MState :=
  { layers := [{ store := [(0, ent [0xe5])], count := 1, bytes := 1, clock := 2 },
               { store := [(0, ent [0x97, 0x97])], count := 1, bytes := 2, clock := 2 }],
    tracked := [0] }

/-- **the promotion tracker is not a membership filter.**  (a) thread 0's `put 0` has inserted
into layer 0 and not returned yet (it stands before its counter updates); thread 1's `contains 0`
answers `true` — and the key has no tracker entry.  (b) after `put_to_layer(0, v, 1)` run alone
the key is stored and has no tracker entry either. -/
theorem ml_stored_key_without_tracker_witness :
    (let y := runM (init 2) [[.put 0 [9]], [.contains 0]] [0, 0, 1, 1]
     y.threads.map (·.results) = [[], [(.contains 0, .bool true)]] ∧ y.shared.tracked = [] ∧
     y.shared.layers.map (fun ls => lookup 0 ls.store |>.map (·.val)) = [some [9], none]) ∧
    (let y := runM (init 2) [[.putTo 0 [9] 1]] [0, 0, 0, 0, 0]
     quiescent (machine cfgM (detVic cfgM)) y = true ∧ y.shared.tracked = [] ∧
     y.shared.layers.map (fun ls => lookup 0 ls.store |>.map (·.val)) = [none, some [9]]) := by
  decide

/-- **the schedule of the missed seeded change, on the code as written.**  Thread 0 `put 0`
stands after its map insert; thread 1 runs `contains 0` (true) and `remove 0` to completion;
thread 0 finishes.  The remove answers `true`, the key is in no layer at the end, both layers'
books are right — and the key HAS a tracker entry again (the put's tracker insert came last):
a tracker entry does not mean the key is stored either. -/
theorem ml_remove_after_visible_inflight_put_witness :
    let y := runM (init 2) [[.put 0 [9]], [.contains 0, .remove 0]] [0, 0, 1, 1, 1, 1, 1, 1, 1, 0, 0, 0]
    quiescent (machine cfgM (detVic cfgM)) y = true ∧
    y.threads.map (·.results) = [[(.put 0 [9], .unit)], [(.contains 0, .bool true), (.remove 0, .bool true)]] ∧
    y.shared.layers.map (·.store) = [[], []] ∧ y.shared.layers.map (·.count) = [0, 0] ∧
    y.shared.layers.map (·.bytes) = [0, 0] ∧ y.shared.tracked = [0] := by
  decide

/-- **⟂ operations are not atomic across the layers (finding ml-not-atomic-across-layers): a get
served from below a half-done remove.**  Key 0 is in both layers (`e5` above `9797`); thread 1's
`remove 0` has emptied layer 0 and not yet layer 1 when thread 0's `get 0` walks down: it answers
`9797` — not what a get before the remove answers (`e5`), not what one after it answers (none),
and nobody else writes. -/
theorem ml_get_below_half_done_remove_witness :
    let y := runM both0 [[.get 0], [.remove 0]] [1, 1, 1, 0, 0, 0, 1, 1, 1, 1]
    quiescent (machine cfgM (detVic cfgM)) y = true ∧
    y.threads.map (·.results) = [[(.get 0, .val (some [0x97, 0x97]))], [(.remove 0, .bool true)]] ∧
    y.shared.layers.map (·.store) = [[], []] ∧
    (runM both0 [[.get 0]] [0, 0]).threads.map (·.results) = [[(.get 0, .val (some [0xe5]))]] ∧
    (runM both0 [[.remove 0, .get 0]] [0, 0, 0, 0, 0, 0, 0, 0, 0, 0]).threads.map (·.results) =
      [[(.remove 0, .bool true), (.get 0, .val none)]] := by
  decide

/-- **⟂ same finding: two removes of one key both answer `true`.**  Thread 0 removes the key
from layer 0, thread 1 finds layer 0 empty and removes it from layer 1: each reports that it
removed the key; no order of two atomic removes gives `true` twice. -/
theorem ml_two_removes_both_true_witness :
    let y := runM both0 [[.remove 0], [.remove 0]] [0, 1, 1, 0, 0, 0, 0, 1, 1, 1]
    quiescent (machine cfgM (detVic cfgM)) y = true ∧
    y.threads.map (·.results) = [[(.remove 0, .bool true)], [(.remove 0, .bool true)]] ∧
    y.shared.layers.map (·.store) = [[], []] := by
  decide

end Cascette.Props.C11.Multi
