/-
Props/C11 — Concurrent cache use is linearizable and keeps its books (MemoryCache).
Property theorems only; helper lemmas live in Proofs/MemConc.  Model = Model/MemConc: every
MemoryCache operation cut into its accesses to shared state exactly where the `sched_point`
hooks sit, run under Spec/Interleave's `runSched` for ANY schedule and ANY number of threads.

The pinned tree violates the full statement in two places, each with a kernel-checked witness
schedule below, a corpus case replayed on the real code and a narrow oracle signature:
 * the expired-entry path of `get` / `contains` (guard dropped, then remove-by-key) deletes a
   value put in between and subtracts the size of the entry it saw earlier;
 * `clear` resets the counters in separate steps, so a racing put leaves them wrong for good.
What is proved instead (`_partial`) is the full claim for every history without expiring
entries (books: also without `clear`); provenance of `get` answers holds for every history.
-/
import Cascette.Proofs.MemConc
namespace Cascette.Props.C11
open Cascette.Spec.CacheMap (Key Val Ref)
open Cascette.Spec.Interleave
open Cascette.Model.CacheAssoc Cascette.Proofs.CacheAssoc
open Cascette.Model.MemCache (Config Entry Store State Policy sumSize)
open Cascette.Model.MemConc
open Cascette.Proofs.MemConc
open Cascette.Model

/-- the books are right in a state: `entry_count` = number of stored entries, `memory_usage` =
sum of their sizes -/
abbrev Books (s : State) : Prop :=
  s.count = (s.store.length : Int) ∧ s.bytes = (sumSize s.store : Int)

/-- **books, at every moment (ghost pending deltas).**  Any number of threads, any operation
lists from {get, contains, put, remove} without expiring entries, any victim choice of the
eviction snapshots, ANY schedule, stopped anywhere: the counters plus what the threads still
owe them (the delta each took from its last map access and has not yet applied) equal the real
contents. -/
theorem mem_books_pending (cfg : Config) (vic : Store → Nat → List Key) (s0 : State)
    (progs : List (List Op)) (sched : List Nat)
    (hn : NoDup s0.store) (hs : NoShort s0.store) (hb : Books s0)
    (hp : ∀ p ∈ progs, ∀ op ∈ p, OpOk false op) :
    let y := runSched (machine cfg vic) (sys s0 progs) sched
    y.shared.count + sumF (fun t => pendC t.pc) y.threads = (y.shared.store.length : Int) ∧
    y.shared.bytes + sumF (fun t => pendB t.pc) y.threads = (sumSize y.shared.store : Int) := by
  have h := runSched_inv (machine cfg vic) BInv (fun y i => binv_stepAt cfg vic y i) sched _
    (binv_sys hn hs hb.1 hb.2 hp)
  exact ⟨h.count, h.bytes⟩

/-- **books at quiescence (partial: no expiring entries, no `clear`).**  Once all threads
have finished, `entry_count` and `memory_usage` equal the real contents — for every number of
threads, every such operation list, every schedule.  In particular a decrement that overtakes
the matching increment (the wrapping `fetch_sub` of the Rust) is always made good. -/
theorem mem_books_quiescent_partial (cfg : Config) (vic : Store → Nat → List Key) (s0 : State)
    (progs : List (List Op)) (sched : List Nat)
    (hn : NoDup s0.store) (hs : NoShort s0.store) (hb : Books s0)
    (hp : ∀ p ∈ progs, ∀ op ∈ p, OpOk false op)
    (hq : quiescent (machine cfg vic) (runSched (machine cfg vic) (sys s0 progs) sched) = true) :
    Books (runSched (machine cfg vic) (sys s0 progs) sched).shared := by
  have h := mem_books_pending cfg vic s0 progs sched hn hs hb hp
  have hz := pend_zero_of_quiescent hq
  dsimp only at h
  rw [hz.1, hz.2] at h
  exact ⟨by have := h.1; omega, by have := h.2; omega⟩

/-- **a get returns a value some put wrote for that key** (full statement: every operation,
expiring entries, `clear`, evictions, every schedule).  Whatever a `get k` answered, at any
point of any schedule, is the value of an entry that was in the cache at the start under `k` or
of a `put k` in one of the programs — never another key's value, never a mixture. -/
theorem mem_get_reads_some_put (cfg : Config) (vic : Store → Nat → List Key) (s0 : State)
    (progs : List (List Op)) (sched : List Nat) (t : Thread) (k : Key) (v : Val)
    (ht : t ∈ (runSched (machine cfg vic) (sys s0 progs) sched).threads)
    (hr : (Op.get k, Out.val (some v)) ∈ t.results) :
    (∃ e, (k, e) ∈ s0.store ∧ e.val = v) ∨ (∃ p ∈ progs, ∃ sh, Op.put k v sh ∈ p) := by
  let Wr : Key → Val → Prop := fun k v =>
    (∃ e, (k, e) ∈ s0.store ∧ e.val = v) ∨ (∃ p ∈ progs, ∃ sh, Op.put k v sh ∈ p)
  have h0 : WInv Wr (sys s0 progs) := by
    refine ⟨fun p hp => Or.inl ⟨p.2, hp, rfl⟩, ?_⟩
    intro t ht
    obtain ⟨p, hp, rfl⟩ := List.mem_map.mp ht
    refine ⟨trivial, ?_, fun r hr => by cases hr⟩
    intro op hop
    cases op with
    | put k v sh => exact Or.inr ⟨p, hp, sh, hop⟩
    | get k => trivial
    | contains k => trivial
    | remove k => trivial
    | clear => trivial
  have h := runSched_inv (machine cfg vic) (WInv Wr) (fun y i => winv_stepAt cfg vic y i) sched _ h0
  exact (h.threads t ht).2.2 _ hr k v rfl rfl

/-! ## where the pinned tree violates the full statement: witness schedules -/

def cfgW : Config := { maxEntries := 1000, maxBytes := none, policy := .lru, defaultShort := false }

/-- the cache holds one entry for key 0 whose TTL has ended (3 bytes) and books that are right -/
def expired0 : State :=
  { store := [(0, { val := [1, 2, 3], size := 3, created := 1, last := 1, hits := 1, short := true })],
    count := 1, bytes := 3, clock := 1 }

/-- thread 0: `get 0`; thread 1: `put 0 [9]` (one byte, long TTL).  Schedule: the reader looks
(sees the ended TTL, drops the guard), the writer runs to completion, the reader continues. -/
def raceSched : List Nat := [0, 1, 1, 1, 0, 0, 0]

/-- **⟂ a fresh put is deleted by a reader that had seen the old entry.**  After the schedule
everybody has finished, the put answered `ok` after the entry had expired, nobody removed or
cleared anything — and the cache is empty. -/
theorem mem_expired_get_deletes_fresh_put_witness :
    let y := runSched (machine cfgW (detVic cfgW)) (sys expired0 [[.get 0], [.put 0 [9] false]]) raceSched
    quiescent (machine cfgW (detVic cfgW)) y = true ∧ y.shared.store = [] ∧
    y.threads.map (·.results) = [[(.get 0, .val none)], [(.put 0 [9] false, .unit)]] := by
  decide

/-- **⟂ counter drift from the same race.**  The reader subtracts the 3 bytes of the entry it
saw, the entry it removed had 1 byte: at quiescence `memory_usage` is −2 (the Rust counter wraps
to 2^64 − 2) over an empty cache, so the books are wrong for good. -/
theorem mem_counter_drift_expired_race_witness :
    let y := runSched (machine cfgW (detVic cfgW)) (sys expired0 [[.get 0], [.put 0 [9] false]]) raceSched
    quiescent (machine cfgW (detVic cfgW)) y = true ∧ Books expired0 ∧ ¬ Books y.shared ∧
    y.shared.bytes = -2 ∧ wrap y.shared.bytes = 18446744073709551614 := by
  decide

/-- **⟂ `clear` racing a put.**  Empty cache; thread 0 `put 0 [9]`, thread 1 `clear`.  The put
inserts, `clear` empties the map and zeroes both counters, the put then adds its 1 entry /
1 byte: at quiescence the counters say 1 / 1 over an empty cache. -/
theorem mem_clear_races_put_witness :
    let y := runSched (machine cfgW (detVic cfgW)) (sys MemCache.init [[.put 0 [9] false], [.clear]])
      [0, 0, 1, 1, 1, 0, 0]
    quiescent (machine cfgW (detVic cfgW)) y = true ∧ y.shared.store = [] ∧
    y.shared.count = 1 ∧ y.shared.bytes = 1 ∧ ¬ Books y.shared := by
  decide

/-- **linearizability (partial: no expiring entries; `clear` and evictions included).**  For
every number of threads, every such operation lists, every victim choice and EVERY schedule,
stopped anywhere, the ghost log — one event per operation, appended by the operation's own
map-access step, hence inside its invocation–response interval and in an order that respects
real-time order, plus one `drop` per entry an eviction removed — is a sequential history in
which every answer is the one a plain map gives at that instant (`Legal`), the stored map is
exactly the result of that history, and the answers each thread has received are precisely its
events of the log, in program order.  So every operation appears to take effect at one instant.
-/
theorem mem_linearizable_partial (cfg : Config) (vic : Store → Nat → List Key) (s0 : State)
    (progs : List (List Op)) (sched : List Nat)
    (hn : NoDup s0.store) (hs : NoShort s0.store)
    (hp : ∀ p ∈ progs, ∀ op ∈ p, OpOk true op) :
    let y := runSched (machine cfg vic) (sys s0 progs) sched
    Legal (abs s0.store) (y.log.map (·.2)) ∧
    abs y.shared.store = applyAll (abs s0.store) (y.log.map (·.2)) ∧
    ∀ i t, y.threads[i]? = some t → evsOf t.results = clientLog i y.log := by
  have h0 : LInv (abs s0.store) (sys s0 progs) := by
    refine ⟨hn, hs, ?_, trivial, rfl, ?_⟩
    · intro t ht
      obtain ⟨p, hp', rfl⟩ := List.mem_map.mp ht
      exact ⟨trivial, hp p hp'⟩
    · intro i t hget
      obtain ⟨p, _, rfl⟩ := List.mem_map.mp (List.mem_of_getElem? hget)
      rfl
  have h := runSched_inv (machine cfg vic) (LInv (abs s0.store)) (fun y i => linv_stepAt cfg vic y i) sched _ h0
  exact ⟨h.legal, h.final, h.answers⟩

/-- **⟂ the same statement with expiring entries is false**: in the witness schedule above the
log is `get 0 ↦ none; put 0 [9]; drop 0`, the reader's removal of the fresh value is not an
operation anybody asked for — the final map is empty although the only completed write is the
put and nothing was removed, cleared or evicted (no eviction ran: 1 entry, max_entries 1000). -/
theorem mem_linearizable_expiring_witness :
    let y := runSched (machine cfgW (detVic cfgW)) (sys expired0 [[.get 0], [.put 0 [9] false]]) raceSched
    y.log = [(0, .get 0 none), (1, .put 0 [9]), (0, .drop 0)] ∧ y.shared.store = [] := by
  decide

/-- the hypotheses of the partial theorems are satisfiable by a non-trivial instance: three
threads racing put / remove / get on one key from an empty cache -/
example : ∃ progs : List (List Op), progs.length = 3 ∧ (∀ p ∈ progs, ∀ op ∈ p, OpOk false op) ∧
    NoDup MemCache.init.store ∧ NoShort MemCache.init.store ∧ Books MemCache.init :=
  ⟨[[.put 0 [1] false, .get 0], [.remove 0, .put 0 [2, 2] false], [.get 0, .contains 0]], rfl,
   by decide, trivial, (fun p hp => by cases hp), rfl, rfl⟩

/-- … and of the linearizability theorem, with `clear` -/
example : ∀ p ∈ [[Op.put 0 [1] false, .clear], [.get 0, .remove 0]], ∀ op ∈ p, OpOk true op := by decide

end Cascette.Props.C11
