/-
Props/C09 — Cipher and hash primitives compute the functions the formats specify.
Property theorems only; helper lemmas live in Proofs/*.  Model = the Rust code as written
(Model/Salsa20, Model/Jenkins, Model/Arc4); Spec = the published algorithm (Spec/Salsa20 after
DJB's specification, Spec/Lookup3 after lookup3.c).
-/
import Cascette.Proofs.Salsa20
import Cascette.Proofs.Jenkins
import Cascette.Proofs.Arc4
import Cascette.Proofs.Rc4
import Cascette.Model.HashGuards
import Cascette.Proofs.Simd
namespace Cascette.Props.C09
open Cascette

/-! ### Salsa20 (CASC variant) -/

/-- For every 16-byte key, every IV (4 or 8 bytes accepted, anything else rejected by both), every
block index and every message of any length — including streams long enough to carry the 32-bit
counter in slot 8 into slot 9 — the model of the Rust cipher equals DJB's Salsa20/20 with the
CASC nonce rule. -/
theorem salsa20_model_eq_spec (key iv : Bytes) (idx : Nat) (msg : Bytes) (hk : key.length = 16) :
    Model.Salsa20.crypt key iv idx msg = Spec.Salsa20.casc key iv idx msg :=
  Proofs.Salsa20.crypt_eq_casc key iv idx msg hk

/-- IV length guard: accepted iff 4 or 8 bytes. -/
theorem salsa20_iv_len_guard (key iv : Bytes) (idx : Nat) (msg : Bytes) (hk : key.length = 16) :
    (Model.Salsa20.crypt key iv idx msg).isSome ↔ (iv.length = 4 ∨ iv.length = 8) := by
  rw [salsa20_model_eq_spec key iv idx msg hk]
  obtain ⟨a0,a1,a2,a3,b0,b1,b2,b3,c0,c1,c2,c3,d0,d1,d2,d3, rfl⟩ := Proofs.Salsa20.len16 key hk
  unfold Spec.Salsa20.casc Spec.Salsa20.keyOfBytes Spec.Salsa20.cascNonce
  match iv with
  | [_,_,_,_] | [_,_,_,_,_,_,_,_] => simp
  | [] | [_] | [_,_] | [_,_,_] | [_,_,_,_,_] | [_,_,_,_,_,_] | [_,_,_,_,_,_,_] => simp
  | _::_::_::_::_::_::_::_::_::_ => simp

/-- decrypt ∘ encrypt = id (same key, IV, block index). -/
theorem salsa20_decrypt_encrypt (key iv : Bytes) (idx : Nat) (msg ct : Bytes) (hk : key.length = 16)
    (h : Model.Salsa20.crypt key iv idx msg = some ct) :
    Model.Salsa20.crypt key iv idx ct = some msg := by
  rw [salsa20_model_eq_spec key iv idx _ hk] at h ⊢
  unfold Spec.Salsa20.casc at h ⊢
  split at h
  · rename_i k v0 v1 hk' hn
    simp only [Option.some.injEq] at h
    subst h
    simp only [Proofs.Salsa20.xorStream_involutive]
  · cases h

/-- a keystream applied in pieces equals the keystream applied at once, for every split. -/
theorem salsa20_piecewise (c : Model.Salsa20.Cipher) (a b : Bytes) :
    (Model.Salsa20.apply c (a ++ b)).2 =
      (Model.Salsa20.apply c a).2 ++ (Model.Salsa20.apply (Model.Salsa20.apply c a).1 b).2 := by
  rw [Proofs.Salsa20.apply_append]

/-- ciphertext length = plaintext length. -/
theorem salsa20_length (key iv : Bytes) (idx : Nat) (msg ct : Bytes) (hk : key.length = 16)
    (h : Model.Salsa20.crypt key iv idx msg = some ct) : ct.length = msg.length := by
  rw [salsa20_model_eq_spec key iv idx _ hk] at h
  unfold Spec.Salsa20.casc at h
  split at h
  · simp only [Option.some.injEq] at h
    subst h
    exact Proofs.Salsa20.xorStream_length _ _ _ _ _
  · cases h

/-- TEST (kernel evaluation) of the transcription Spec/Salsa20 AND of the model on the published
ECRYPT Salsa20/20 128-bit vector (set 1, vector 0: key `80 00…00`, IV 0, keystream bytes 0..63). -/
theorem salsa20_ecrypt_known_answer :
    Spec.Salsa20.casc [0x80,0,0,0,0,0,0,0,0,0,0,0,0,0,0,0] [0,0,0,0,0,0,0,0] 0 (List.replicate 64 0) =
      some [0x4d,0xfa,0x5e,0x48,0x1d,0xa2,0x3e,0xa0,0x9a,0x31,0x02,0x20,0x50,0x85,0x99,0x36,
            0xda,0x52,0xfc,0xee,0x21,0x80,0x05,0x16,0x4f,0x26,0x7c,0xb6,0x5f,0x5c,0xfd,0x7f,
            0x2b,0x4f,0x97,0xe0,0xff,0x16,0x92,0x4a,0x52,0xdf,0x26,0x95,0x15,0x11,0x0a,0x07,
            0xf9,0xe4,0x60,0xbc,0x65,0xef,0x95,0xda,0x58,0xf7,0x40,0xb7,0xd1,0xdb,0xb0,0xaa] ∧
    Model.Salsa20.crypt [0x80,0,0,0,0,0,0,0,0,0,0,0,0,0,0,0] [0,0,0,0,0,0,0,0] 0 (List.replicate 64 0) =
      Spec.Salsa20.casc [0x80,0,0,0,0,0,0,0,0,0,0,0,0,0,0,0] [0,0,0,0,0,0,0,0] 0 (List.replicate 64 0) := by
  refine ⟨by decide +kernel, ?_⟩
  exact salsa20_model_eq_spec _ _ _ _ (by decide)

/-! ### lookup3 -/

/-- `hashlittle2_impl` (block loop + 12-case tail) = lookup3.c `hashlittle2`, every seed pair,
every input shorter than 2^32 bytes (beyond that the Rust saturates the length where lookup3.c
truncates it: outside the hypothesis, see DESIGN.md). -/
theorem hashlittle2_eq_spec (k : Bytes) (pc pb : W32) (hlen : k.length < 2 ^ 32) :
    Model.Jenkins.hashlittle2 k pc pb = Spec.Lookup3.hashlittle2 k pc pb :=
  Proofs.Jenkins.hashlittle2_eq_spec k pc pb hlen

theorem hashlittle_eq_spec (k : Bytes) (initval : W32) (hlen : k.length < 2 ^ 32) :
    Model.Jenkins.hashlittle k initval = Spec.Lookup3.hashlittle k initval :=
  Proofs.Jenkins.hashlittle_eq_spec k initval hlen

/-- `Jenkins96::hash`: `hash32` is `pc`, `hash64` is `pc` high / `pb` low of `hashlittle2(·,0,0)`. -/
theorem jenkins96_parts (k : Bytes) (hlen : k.length < 2 ^ 32) :
    (Model.Jenkins.jenkins96 k).2 = (Spec.Lookup3.hashlittle2 k 0 0).1 ∧
    (Model.Jenkins.jenkins96 k).1 =
      (((Spec.Lookup3.hashlittle2 k 0 0).1.setWidth 64) <<< 32) |||
        (Spec.Lookup3.hashlittle2 k 0 0).2.setWidth 64 := by
  unfold Model.Jenkins.jenkins96
  rw [hashlittle2_eq_spec k 0 0 hlen]
  exact ⟨rfl, rfl⟩

/-- `x | 0x8000_0000` on a 32-bit word: bit 31 set, the low 31 bits kept. -/
theorem or_top_bit (x : W32) : (x ||| 0x80000000).toNat = x.toNat % 2 ^ 31 + 2 ^ 31 := by
  have hx := x.isLt
  rw [BitVec.toNat_or]
  show x.toNat ||| 2147483648 = _
  have e : (2147483648 : Nat) = 1 <<< 31 := by decide
  by_cases h : x.toNat < 2 ^ 31
  · rw [Nat.or_comm, e, ← Nat.shiftLeft_add_eq_or_of_lt h, Nat.mod_eq_of_lt h]; omega
  · have hy : x.toNat - 2 ^ 31 < 2 ^ 31 := by omega
    have hd : x.toNat = 1 <<< 31 ||| (x.toNat - 2 ^ 31) := by
      rw [← Nat.shiftLeft_add_eq_or_of_lt hy]; simp only [Nat.shiftLeft_eq]; omega
    have : x.toNat ||| 1 <<< 31 = x.toNat := by
      rw [hd, Nat.or_comm, ← Nat.or_assoc, Nat.or_self]
    rw [e, this]; omega

/-! ### users of the seeded hash (LocalHeader checksum_a, UpdateEntry hash guard) -/

/-- `LocalHeader::compute_checksum_a` on a 30-byte header: lookup3.c `hashlittle` of exactly header
bytes `[0, 0x16)` with seed `0x3D6BE971` (Agent.exe `hashlittle(&header[0], 0x16, 0x3D6BE971)`);
it does not depend on bytes `0x16..` (the two checksum fields); and C07's `validate_checksums`
acceptor instantiated with C09's hash compares the stored little-endian word at `[0x16, 0x1A)` with
exactly this value (and bytes `[0x1A, 0x1E)` with the XOR lanes). -/
theorem checksum_a_def (h : Bytes) (hl : h.length = 30) :
    Model.HashGuards.checksumA h = Spec.Lookup3.hashlittle (h.take 22) 0x3D6BE971 ∧
    (∀ t : Bytes, Model.HashGuards.checksumA (h.take 22 ++ t) = Model.HashGuards.checksumA h) ∧
    (∀ base, Model.HashGuards.lhdrValidate base h =
      (Model.Integrity.leNat (Model.Integrity.slice h 22 4) == (Model.HashGuards.checksumA h).toNat &&
        Model.Integrity.slice h 26 4 == Model.Integrity.Lhdr.checksumB base h)) := by
  refine ⟨?_, ?_, ?_⟩
  · unfold Model.HashGuards.checksumA Model.HashGuards.checksumASeed
    exact hashlittle_eq_spec _ _ (by
      have : (h.take 22).length ≤ 22 := by simp only [List.length_take]; omega
      omega)
  · intro t
    unfold Model.HashGuards.checksumA
    rw [List.take_append_of_le_length (by simp only [List.length_take]; omega), List.take_take]
    simp
  · intro base
    unfold Model.HashGuards.lhdrValidate Model.Integrity.Lhdr.validate Model.HashGuards.checksumA
    rw [Nat.mod_eq_of_lt (BitVec.isLt _)]

/-- `UpdateEntry::compute_hash_guard` on a 24-byte entry: lookup3.c `hashlittle` of exactly entry
bytes `[4, 23)` with seed 0, with bit 31 forced to 1 and the low 31 bits of the hash kept (so a
valid guard is never 0, the empty-slot marker); it does not depend on bytes `[0,4)` (the guard
field itself) nor on byte 23 (padding); and it is the `guardOf` that C07's `validate_hash_guard`
acceptor uses when instantiated with C09's hash. -/
theorem hash_guard_def (e : Bytes) (hl : e.length = 24) :
    Model.HashGuards.hashGuard e =
      Spec.Lookup3.hashlittle (Model.Integrity.slice e 4 19) 0 ||| 0x80000000 ∧
    (Model.HashGuards.hashGuard e).toNat =
      (Spec.Lookup3.hashlittle (Model.Integrity.slice e 4 19) 0).toNat % 2 ^ 31 + 2 ^ 31 ∧
    (Model.HashGuards.hashGuard e).toNat ≠ 0 ∧
    (∀ g p : Bytes, g.length = 4 → Model.HashGuards.hashGuard (g ++ Model.Integrity.slice e 4 19 ++ p) =
        Model.HashGuards.hashGuard e) ∧
    (Model.HashGuards.hashGuard e).toNat =
      Model.Integrity.Upd.guardOf (fun r => (Model.Jenkins.hashlittle r 0).toNat)
        (Model.Integrity.slice e 4 19) := by
  have hs : (Model.Integrity.slice e 4 19).length = 19 := by
    simp only [Model.Integrity.slice, List.length_take, List.length_drop]; omega
  have h1 : Model.HashGuards.hashGuard e =
      Spec.Lookup3.hashlittle (Model.Integrity.slice e 4 19) 0 ||| 0x80000000 := by
    unfold Model.HashGuards.hashGuard
    rw [hashlittle_eq_spec _ _ (by omega)]
  refine ⟨h1, ?_, ?_, ?_, ?_⟩
  · rw [h1, or_top_bit]
  · rw [h1, or_top_bit]; omega
  · intro g p hg
    unfold Model.HashGuards.hashGuard
    have : Model.Integrity.slice (g ++ Model.Integrity.slice e 4 19 ++ p) 4 19 =
        Model.Integrity.slice e 4 19 := by
      show ((g ++ Model.Integrity.slice e 4 19 ++ p).drop 4).take 19 = _
      have hd : g.drop 4 = [] := List.drop_eq_nil_of_le (by omega)
      rw [List.append_assoc, List.drop_append_of_le_length (by omega), hd,
        List.nil_append, List.take_append_of_le_length (by omega), List.take_of_length_le (by omega)]
    rw [this]
  · unfold Model.Integrity.Upd.guardOf Model.HashGuards.hashGuard
    rw [or_top_bit]

/-! ### ARC4 -/

theorem arc4_key_len_guard (key : Bytes) :
    (Model.Arc4.new key).isSome ↔ 1 ≤ key.length ∧ key.length ≤ 256 :=
  Proofs.Arc4.new_isSome_iff key

theorem arc4_decrypt_encrypt (key msg ct : Bytes) (h : Model.Arc4.crypt key msg = some ct) :
    Model.Arc4.crypt key ct = some msg := by
  unfold Model.Arc4.crypt at h ⊢
  cases hn : Model.Arc4.new key with
  | none => simp [hn] at h
  | some c =>
    simp only [hn, Option.map_some, Option.some.injEq] at h ⊢
    subst h
    exact Proofs.Arc4.apply_apply c msg

theorem arc4_piecewise (c : Model.Arc4.Cipher) (a b : Bytes) :
    (Model.Arc4.apply c (a ++ b)).2 =
      (Model.Arc4.apply c a).2 ++ (Model.Arc4.apply (Model.Arc4.apply c a).1 b).2 := by
  rw [Proofs.Arc4.apply_append]

/-- **ARC4 = RC4.** For every key (1..256 bytes accepted, anything else rejected by both) and every
message, the model of the Rust `Arc4Cipher` (a 256-byte array, `u8` wrapping index arithmetic,
`getD`/`setIfInBounds` accesses) produces exactly the output of textbook RC4 written over a
permutation function with `mod 256` arithmetic (Spec/Rc4). No hypothesis. -/
theorem arc4_model_eq_spec (key msg : Bytes) :
    Model.Arc4.crypt key msg = Spec.Rc4.crypt key msg :=
  Proofs.Rc4.crypt_eq_spec key msg

/-- The streaming interface too: after `Arc4Cipher::new(key)`, a first `apply_keystream(a)` and a
second `apply_keystream(b)` XOR `a` with RC4 keystream bytes `0..|a|` and `b` with bytes
`|a|..|a|+|b|` of the published generator. -/
theorem arc4_stream_eq_spec (key : Bytes) (c : Model.Arc4.Cipher) (a b : Bytes)
    (hk : 0 < key.length) (h : Model.Arc4.new key = some c) :
    (Model.Arc4.apply c a).2 =
      List.zipWith (fun m k => m ^^^ BitVec.ofNat 8 k) a
        (Spec.Rc4.keystream (Spec.Rc4.init key hk) a.length) ∧
    (Model.Arc4.apply (Model.Arc4.apply c a).1 b).2 =
      List.zipWith (fun m k => m ^^^ BitVec.ofNat 8 k) b
        (Spec.Rc4.keystream (Spec.Rc4.after (Spec.Rc4.init key hk) a.length) b.length) := by
  have hr := Proofs.Rc4.rel_of_new key hk c h
  have h1 := Proofs.Rc4.rel_apply a c _ hr
  exact ⟨h1.2, (Proofs.Rc4.rel_apply b _ _ h1.1).2⟩

/-- Every array access of KSA and PRGA is in bounds: the model with CHECKED indexing (`s[i]?`,
`none` where the Rust would panic on an out-of-range index or on `i % 0`) returns exactly what the
model returns, for every key and message — so no `getD` ever defaults and no `setIfInBounds` is
ever dropped, and (with `arc4_key_len_guard`) no accepted key can panic. -/
theorem arc4_index_in_bounds (key msg : Bytes) :
    Model.Arc4.Checked.crypt key msg = Model.Arc4.crypt key msg :=
  Proofs.Rc4.checked_crypt_eq key msg

/-- The S-box stays a permutation of the 256 byte values, with 256 slots, in every state reachable
from `new` by any amount of keystream. -/
theorem arc4_sbox_permutation (key : Bytes) (c : Model.Arc4.Cipher) (msg : Bytes)
    (h : Model.Arc4.new key = some c) :
    (Model.Arc4.apply c msg).1.s.size = 256 ∧
    (Model.Arc4.apply c msg).1.s.Perm ((Array.range 256).map (BitVec.ofNat 8)) := by
  have hs := Proofs.Rc4.new_size key c h
  exact ⟨by rw [Proofs.Rc4.apply_size]; exact hs,
    (Proofs.Rc4.apply_perm msg c hs).trans (Proofs.Rc4.new_perm key c h)⟩

/-- … and so does the specification's permutation function (sanity of the transcription: every
reachable `S` maps `0..255` into itself injectively). -/
theorem rc4_spec_permutation (key : Bytes) (hk : 0 < key.length) (n : Nat) :
    Spec.Rc4.IsPerm (Spec.Rc4.after (Spec.Rc4.init key hk) n).S :=
  Proofs.Rc4.isPerm_after n _ (Proofs.Rc4.isPerm_init key hk)

/-- TEST of the transcription Spec/Rc4 (kernel evaluation): the published RC4 vectors
"Key"/"Plaintext", "Wiki"/"pedia", "Secret"/"Attack at dawn". -/
theorem rc4_spec_known_answers :
    Spec.Rc4.crypt [0x4b, 0x65, 0x79] [0x50, 0x6c, 0x61, 0x69, 0x6e, 0x74, 0x65, 0x78, 0x74] =
      some [0xbb, 0xf3, 0x16, 0xe8, 0xd9, 0x40, 0xaf, 0x0a, 0xd3] ∧
    Spec.Rc4.crypt [0x57, 0x69, 0x6b, 0x69] [0x70, 0x65, 0x64, 0x69, 0x61] =
      some [0x10, 0x21, 0xbf, 0x04, 0x20] ∧
    Spec.Rc4.crypt [0x53, 0x65, 0x63, 0x72, 0x65, 0x74]
        [0x41, 0x74, 0x74, 0x61, 0x63, 0x6b, 0x20, 0x61, 0x74, 0x20, 0x64, 0x61, 0x77, 0x6e] =
      some [0x45, 0xa0, 0x1f, 0x64, 0x5f, 0xc3, 0x5b, 0x38, 0x35, 0x52, 0x54, 0x4b, 0x9b, 0xf5] := by
  decide +kernel

/-! ### accelerated helpers = portable fallbacks (lane width 32 = AVX2, 16 = SSE2) -/

open Model.Simd in
/-- every feature set returns the scalar `vectorized_memcmp` result, for all buffers. -/
theorem simd_memcmp_eq_scalar (f : Model.Simd.Features) (a b : List Nat) :
    vectorizedMemcmp f a b = vectorizedMemcmp ⟨false, false⟩ a b := by
  unfold vectorizedMemcmp
  by_cases hl : a.length ≠ b.length
  · rw [if_pos hl, if_pos hl]
  · have hl' : a.length = b.length := by omega
    rw [if_neg hl, if_neg hl]
    simp only [Bool.false_eq_true, ↓reduceIte]
    split
    · exact Proofs.Simd.memcmpLanes_eq 32 _ a b hl'
    · split
      · exact Proofs.Simd.memcmpLanes_eq 16 _ a b hl'
      · rfl

open Model.Simd in
/-- `batch_mem_equal` is slice equality for every feature set. -/
theorem simd_mem_equal_eq_scalar (f : Model.Simd.Features) (a b : List Nat) :
    memEqual f a b = (a == b) := by
  unfold memEqual
  by_cases hl : a.length ≠ b.length
  · rw [if_pos hl]
    have : a ≠ b := fun h => hl (by rw [h])
    simp [this]
  · rw [if_neg hl]
    split
    · exact Proofs.Simd.memEqLanes_eq 32 _ a b
    · split
      · exact Proofs.Simd.memEqLanes_eq 16 _ a b
      · rfl

open Model.Simd in
/-- `vectorized_memmem` returns the first match position of the scalar scan, for every feature
set, every haystack, every needle (any length, any position). -/
theorem simd_memmem_eq_scalar (f : Model.Simd.Features) (hay needle : List Nat) :
    vectorizedMemmem f hay needle = vectorizedMemmem ⟨false, false⟩ hay needle := by
  unfold vectorizedMemmem
  cases needle with
  | nil => rfl
  | cons first tl =>
    simp only
    split
    · rfl
    · simp only [Bool.false_eq_true, false_and, ↓reduceIte]
      split
      · exact Proofs.Simd.memmemLanes_eq 32 _ first tl rfl _ 0 hay
      · split
        · exact Proofs.Simd.memmemLanes_eq 16 _ first tl rfl _ 0 hay
        · rfl

open Model.Simd in
theorem simd_memset_eq_scalar (f : Model.Simd.Features) (d : List Nat) (v : Nat) :
    memset f d v = List.replicate d.length v := by
  unfold memset
  split
  · exact Proofs.Simd.memsetLanes_eq 32 v _ d
  · split
    · exact Proofs.Simd.memsetLanes_eq 16 v _ d
    · simp [List.map_const']

open Model.Simd in
theorem simd_memcpy_eq_scalar (f : Model.Simd.Features) (dest src : List Nat) :
    memcpy f dest src =
      src.take (min dest.length src.length) ++ dest.drop (min dest.length src.length) := by
  unfold memcpy
  simp only
  split
  · rw [Proofs.Simd.memcpyLanes_eq]
  · split
    · rw [Proofs.Simd.memcpyLanes_eq]
    · rfl

/-! ### non-vacuity: the hypotheses are met by concrete, non-trivial instances -/

example : (List.replicate 16 (0x11 : Byte)).length = 16 := by decide
example : (Model.Salsa20.crypt (List.replicate 16 1) [2,3,4,5] 7 [0x41, 0x42]).isSome = true := by
  rw [salsa20_iv_len_guard _ _ _ _ (by decide)]; decide
example : (Model.Arc4.new [0x4b, 0x65, 0x79]).isSome = true := by
  rw [arc4_key_len_guard]; decide
/-- 30-byte headers / 24-byte entries exist (hypotheses of `checksum_a_def` / `hash_guard_def`). -/
example : ((List.range 30).map (BitVec.ofNat 8)).length = 30 ∧ ((List.range 24).map (BitVec.ofNat 8)).length = 24 := by
  decide
/-- the hypothesis `new key = some c` of `arc4_stream_eq_spec` / `arc4_sbox_permutation` is met by
every key of 1..256 bytes (e.g. "Key"). -/
example : ∃ c, Model.Arc4.new [0x4b, 0x65, 0x79] = some c :=
  Option.isSome_iff_exists.mp ((arc4_key_len_guard _).mpr (by decide))

end Cascette.Props.C09
