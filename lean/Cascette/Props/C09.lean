/-
Props/C09 — Cipher and hash primitives compute the functions the formats specify.
Property theorems only; helper lemmas live in Proofs/*.  Model = the Rust code as written
(Model/Salsa20, Model/Jenkins, Model/Arc4); Spec = the published algorithm (Spec/Salsa20 after
DJB's specification, Spec/Lookup3 after lookup3.c).
-/
import Cascette.Proofs.Salsa20
import Cascette.Proofs.Jenkins
import Cascette.Proofs.Arc4
import Cascette.Proofs.Simd
namespace Cascette.Props.C09
open Cascette

/-! ### Salsa20 (CASC variant) -/

/-- For every 16-byte key, every IV (4 or 8 bytes accepted, anything else rejected by both), every
block index and every message of any length — including streams long enough to carry the 32-bit
counter in slot 8 into slot 9 — the model of the Rust cipher equals DJB's Salsa20/20 with the
CASC nonce rule. -/
theorem salsa20_model_eq_spec (key iv : Bytes) (idx : Nat) (msg : Bytes) (hk : key.length = 16) :
    Model.Salsa20.crypt key iv idx msg = Spec.Salsa20.casc key iv idx msg :=
  Proofs.Salsa20.crypt_eq_casc key iv idx msg hk

/-- IV length guard: accepted iff 4 or 8 bytes. -/
theorem salsa20_iv_len_guard (key iv : Bytes) (idx : Nat) (msg : Bytes) (hk : key.length = 16) :
    (Model.Salsa20.crypt key iv idx msg).isSome ↔ (iv.length = 4 ∨ iv.length = 8) := by
  rw [salsa20_model_eq_spec key iv idx msg hk]
  obtain ⟨a0,a1,a2,a3,b0,b1,b2,b3,c0,c1,c2,c3,d0,d1,d2,d3, rfl⟩ := Proofs.Salsa20.len16 key hk
  unfold Spec.Salsa20.casc Spec.Salsa20.keyOfBytes Spec.Salsa20.cascNonce
  match iv with
  | [_,_,_,_] | [_,_,_,_,_,_,_,_] => simp
  | [] | [_] | [_,_] | [_,_,_] | [_,_,_,_,_] | [_,_,_,_,_,_] | [_,_,_,_,_,_,_] => simp
  | _::_::_::_::_::_::_::_::_::_ => simp

/-- decrypt ∘ encrypt = id (same key, IV, block index). -/
theorem salsa20_decrypt_encrypt (key iv : Bytes) (idx : Nat) (msg ct : Bytes) (hk : key.length = 16)
    (h : Model.Salsa20.crypt key iv idx msg = some ct) :
    Model.Salsa20.crypt key iv idx ct = some msg := by
  rw [salsa20_model_eq_spec key iv idx _ hk] at h ⊢
  unfold Spec.Salsa20.casc at h ⊢
  split at h
  · rename_i k v0 v1 hk' hn
    simp only [Option.some.injEq] at h
    subst h
    simp only [Proofs.Salsa20.xorStream_involutive]
  · cases h

/-- a keystream applied in pieces equals the keystream applied at once, for every split. -/
theorem salsa20_piecewise (c : Model.Salsa20.Cipher) (a b : Bytes) :
    (Model.Salsa20.apply c (a ++ b)).2 =
      (Model.Salsa20.apply c a).2 ++ (Model.Salsa20.apply (Model.Salsa20.apply c a).1 b).2 := by
  rw [Proofs.Salsa20.apply_append]

/-- ciphertext length = plaintext length. -/
theorem salsa20_length (key iv : Bytes) (idx : Nat) (msg ct : Bytes) (hk : key.length = 16)
    (h : Model.Salsa20.crypt key iv idx msg = some ct) : ct.length = msg.length := by
  rw [salsa20_model_eq_spec key iv idx _ hk] at h
  unfold Spec.Salsa20.casc at h
  split at h
  · simp only [Option.some.injEq] at h
    subst h
    exact Proofs.Salsa20.xorStream_length _ _ _ _ _
  · cases h

/-! ### lookup3 -/

/-- `hashlittle2_impl` (block loop + 12-case tail) = lookup3.c `hashlittle2`, every seed pair,
every input shorter than 2^32 bytes (beyond that the Rust saturates the length where lookup3.c
truncates it: outside the hypothesis, see DESIGN.md). -/
theorem hashlittle2_eq_spec (k : Bytes) (pc pb : W32) (hlen : k.length < 2 ^ 32) :
    Model.Jenkins.hashlittle2 k pc pb = Spec.Lookup3.hashlittle2 k pc pb :=
  Proofs.Jenkins.hashlittle2_eq_spec k pc pb hlen

theorem hashlittle_eq_spec (k : Bytes) (initval : W32) (hlen : k.length < 2 ^ 32) :
    Model.Jenkins.hashlittle k initval = Spec.Lookup3.hashlittle k initval :=
  Proofs.Jenkins.hashlittle_eq_spec k initval hlen

/-- `Jenkins96::hash`: `hash32` is `pc`, `hash64` is `pc` high / `pb` low of `hashlittle2(·,0,0)`. -/
theorem jenkins96_parts (k : Bytes) (hlen : k.length < 2 ^ 32) :
    (Model.Jenkins.jenkins96 k).2 = (Spec.Lookup3.hashlittle2 k 0 0).1 ∧
    (Model.Jenkins.jenkins96 k).1 =
      (((Spec.Lookup3.hashlittle2 k 0 0).1.setWidth 64) <<< 32) |||
        (Spec.Lookup3.hashlittle2 k 0 0).2.setWidth 64 := by
  unfold Model.Jenkins.jenkins96
  rw [hashlittle2_eq_spec k 0 0 hlen]
  exact ⟨rfl, rfl⟩

/-! ### ARC4 -/

theorem arc4_key_len_guard (key : Bytes) :
    (Model.Arc4.new key).isSome ↔ 1 ≤ key.length ∧ key.length ≤ 256 :=
  Proofs.Arc4.new_isSome_iff key

theorem arc4_decrypt_encrypt (key msg ct : Bytes) (h : Model.Arc4.crypt key msg = some ct) :
    Model.Arc4.crypt key ct = some msg := by
  unfold Model.Arc4.crypt at h ⊢
  cases hn : Model.Arc4.new key with
  | none => simp [hn] at h
  | some c =>
    simp only [hn, Option.map_some, Option.some.injEq] at h ⊢
    subst h
    exact Proofs.Arc4.apply_apply c msg

theorem arc4_piecewise (c : Model.Arc4.Cipher) (a b : Bytes) :
    (Model.Arc4.apply c (a ++ b)).2 =
      (Model.Arc4.apply c a).2 ++ (Model.Arc4.apply (Model.Arc4.apply c a).1 b).2 := by
  rw [Proofs.Arc4.apply_append]

/-! ### accelerated helpers = portable fallbacks (lane width 32 = AVX2, 16 = SSE2) -/

open Model.Simd in
/-- every feature set returns the scalar `vectorized_memcmp` result, for all buffers. -/
theorem simd_memcmp_eq_scalar (f : Model.Simd.Features) (a b : List Nat) :
    vectorizedMemcmp f a b = vectorizedMemcmp ⟨false, false⟩ a b := by
  unfold vectorizedMemcmp
  by_cases hl : a.length ≠ b.length
  · rw [if_pos hl, if_pos hl]
  · have hl' : a.length = b.length := by omega
    rw [if_neg hl, if_neg hl]
    simp only [Bool.false_eq_true, ↓reduceIte]
    split
    · exact Proofs.Simd.memcmpLanes_eq 32 _ a b hl'
    · split
      · exact Proofs.Simd.memcmpLanes_eq 16 _ a b hl'
      · rfl

open Model.Simd in
/-- `batch_mem_equal` is slice equality for every feature set. -/
theorem simd_mem_equal_eq_scalar (f : Model.Simd.Features) (a b : List Nat) :
    memEqual f a b = (a == b) := by
  unfold memEqual
  by_cases hl : a.length ≠ b.length
  · rw [if_pos hl]
    have : a ≠ b := fun h => hl (by rw [h])
    simp [this]
  · rw [if_neg hl]
    split
    · exact Proofs.Simd.memEqLanes_eq 32 _ a b
    · split
      · exact Proofs.Simd.memEqLanes_eq 16 _ a b
      · rfl

open Model.Simd in
/-- `vectorized_memmem` returns the first match position of the scalar scan, for every feature
set, every haystack, every needle (any length, any position). -/
theorem simd_memmem_eq_scalar (f : Model.Simd.Features) (hay needle : List Nat) :
    vectorizedMemmem f hay needle = vectorizedMemmem ⟨false, false⟩ hay needle := by
  unfold vectorizedMemmem
  cases needle with
  | nil => rfl
  | cons first tl =>
    simp only
    split
    · rfl
    · simp only [Bool.false_eq_true, false_and, ↓reduceIte]
      split
      · exact Proofs.Simd.memmemLanes_eq 32 _ first tl rfl _ 0 hay
      · split
        · exact Proofs.Simd.memmemLanes_eq 16 _ first tl rfl _ 0 hay
        · rfl

open Model.Simd in
theorem simd_memset_eq_scalar (f : Model.Simd.Features) (d : List Nat) (v : Nat) :
    memset f d v = List.replicate d.length v := by
  unfold memset
  split
  · exact Proofs.Simd.memsetLanes_eq 32 v _ d
  · split
    · exact Proofs.Simd.memsetLanes_eq 16 v _ d
    · simp [List.map_const']

open Model.Simd in
theorem simd_memcpy_eq_scalar (f : Model.Simd.Features) (dest src : List Nat) :
    memcpy f dest src =
      src.take (min dest.length src.length) ++ dest.drop (min dest.length src.length) := by
  unfold memcpy
  simp only
  split
  · rw [Proofs.Simd.memcpyLanes_eq]
  · split
    · rw [Proofs.Simd.memcpyLanes_eq]
    · rfl

/-! ### non-vacuity: the hypotheses are met by concrete, non-trivial instances -/

example : (List.replicate 16 (0x11 : Byte)).length = 16 := by decide
example : (Model.Salsa20.crypt (List.replicate 16 1) [2,3,4,5] 7 [0x41, 0x42]).isSome = true := by
  rw [salsa20_iv_len_guard _ _ _ _ (by decide)]; decide
example : (Model.Arc4.new [0x4b, 0x65, 0x79]).isSome = true := by
  rw [arc4_key_len_guard]; decide

end Cascette.Props.C09
