/-
Driver/C03 — line-protocol driver over the C03 models (encoding table, CDN archive index, archive
group, root manifest, TVFS manifest). Every case starts with `begin <area> …`.
-/
import Driver.Common
import Cascette.Model.Paged
import Cascette.Model.Encoding
import Cascette.Model.ArchiveIndex
import Cascette.Model.RootFile
import Cascette.Model.TvfsPath
import Cascette.Model.TvfsTables
import Cascette.Model.Jenkins
import Cascette.Model.Resolver
open Cascette Drv
open Cascette.Model

structure St where
  mode : String := ""
  -- encoding
  cpage : Nat := 0
  epage : Nat := 0
  cents : List Encoding.CEntry := []
  eents : List (Paged.Key × Encoding.ESpec × Nat) := []
  enc : Option Encoding.File := none
  -- archive index
  ks : Nat := 16
  ob : Nat := 4
  rpb : Nat := 170
  ients : List ArchiveIndex.Entry := []
  idx : Option (Paged.Chunked ArchiveIndex.Entry) := none
  gents : List ArchiveIndex.GEntry := []
  grp : Option (List ArchiveIndex.GEntry) := none
  -- merged archive group: sources (archive number, entries) newest first, entries newest first
  srpb : Nat := 170
  msrcs : List (Nat × List ArchiveIndex.Entry) := []
  -- root
  rver : RootFile.Version := .v1
  rrecs : List (Nat × Nat × RootFile.Rec) := []
  root : Option RootFile.Parsed := none
  -- tvfs
  tflags : Nat := 1
  tspecs : List (List Nat) := []
  tfiles : List TvfsPath.FileRec := []
  tvfs : Option TvfsTables.Built := none
  -- resolver chain
  presecs : List (Nat × List Nat × List Nat × Nat × Nat) := []
  res : Option (RootFile.Parsed × Encoding.File) := none
  built : Bool := false

def hx (k : List Nat) : String := hexOfNats k

def specStr (sp : List Nat) : String := String.ofList (sp.map Char.ofNat)

def keys? (s : String) : Option (List (List Nat)) :=
  (s.splitOn ",").mapM parseHexNat

def optHex (s : String) : Option (Option (List Nat)) :=
  if s == "-" then some none else (parseHexNat s).map some

def joinOr (l : List String) (sep : String) : String :=
  if l.isEmpty then "none" else sep.intercalate l

def groupBlocks (recs : List (Nat × Nat × RootFile.Rec)) : List (Nat × Nat × List RootFile.Rec) :=
  recs.foldl (fun acc (l, c, r) =>
    if acc.any (fun b => b.1 == l && b.2.1 == c) then
      acc.map fun b => if b.1 == l && b.2.1 == c then (b.1, b.2.1, b.2.2 ++ [r]) else b
    else acc ++ [(l, c, [r])]) []

def verOf : Nat → Option RootFile.Version
  | 1 => some .v1 | 2 => some .v2 | 3 => some .v3 | 4 => some .v4 | _ => none

def showHeader : RootFile.Header → String
  | .classic l t n => s!"c:{if l then 1 else 0},{t},{n}"
  | .ext l hs v t n p => s!"x:{if l then 1 else 0},{hs},{v},{t},{n},{p}"

def idxEntryStr (e : ArchiveIndex.Entry) : String :=
  s!"{e.size} {e.offset} " ++ (match e.archive with | some a => toString a | none => "-")


/-- `calculate_name_hash` for ASCII paths: upper-case, `/` → `\\`, Jenkins96 hash64 -/
def nameHash (path : List Nat) : Nat :=
  let norm := path.map fun b => if 97 ≤ b ∧ b ≤ 122 then b - 32 else if b = 47 then 92 else b
  (Model.Jenkins.jenkins96 (norm.map (BitVec.ofNat 8))).1.toNat

/-- `ContentResolver::resolve_path_to_encoding`: `calculate_name_hash`, then the chain of
Model/Resolver (the model the theorem `resolver_chain` is about) -/
def pathToEkey (p : RootFile.Parsed) (f : Encoding.File) (path : List Nat) : Option (List Nat) :=
  Resolver.hashToEkey p f (nameHash path)

/-- canonical listing of the parsed blocks: locale:content:count:fdid+fdid+… per block, in order -/
def showBlocks (p : RootFile.Parsed) : String :=
  joinOr (p.blocks.map fun b =>
    s!"{b.locale}:{b.content}:{b.numRecords}:" ++ "+".intercalate (b.recs.map fun r => toString r.fdid)) ";"

/-- canonical listing of lookup-table entries: blockIndex:locale:content:ckey per entry, in order -/
def showEntries (es : List RootFile.Entry) : String :=
  joinOr (es.map fun e => s!"{e.blockIndex}:{e.locale}:{e.content}:{hx e.ckey}") ";"

def step (s : St) (toks : List String) : St × String :=
  match toks with
  | ["begin", "enc", cp, ep] =>
    match cp.toNat?, ep.toNat? with
    | some cp, some ep => ({ mode := "enc", cpage := cp, epage := ep }, "ok")
    | _, _ => ({}, "bad-op")
  | ["begin", "idx", ks, ob, rpb] =>
    match ks.toNat?, ob.toNat?, rpb.toNat? with
    | some ks, some ob, some rpb =>
      if rpb = 0 ∨ ¬ (ob = 4 ∨ ob = 5 ∨ ob = 6) then ({}, "bad-op") else ({ mode := "idx", ks := ks, ob := ob, rpb := rpb }, "ok")
    | _, _, _ => ({}, "bad-op")
  | ["begin", "grp", rpb] =>
    match rpb.toNat? with
    | some rpb => if rpb = 0 then ({}, "bad-op") else ({ mode := "grp", rpb := rpb }, "ok")
    | none => ({}, "bad-op")
  | ["begin", "grpm", rpb, srpb] =>
    match rpb.toNat?, srpb.toNat? with
    | some rpb, some srpb => if rpb = 0 ∨ srpb = 0 then ({}, "bad-op") else ({ mode := "grpm", rpb := rpb, srpb := srpb }, "ok")
    | _, _ => ({}, "bad-op")
  | ["begin", "root", v] =>
    match v.toNat?.bind verOf with
    | some v => ({ mode := "root", rver := v }, "ok")
    | none => ({}, "bad-op")
  | ["begin", "res", v] =>
    match v.toNat?.bind verOf with
    | some v => ({ mode := "res", rver := v }, "ok")
    | none => ({}, "bad-op")
  | ["begin", "tvfs", fl] =>
    match fl.toNat? with
    | some fl => if fl > 7 then ({}, "bad-op") else ({ mode := "tvfs", tflags := fl }, "ok")
    | none => ({}, "bad-op")
  | ["hdr", kind, little, a, b, c, d, e] =>
    match a.toNat?, b.toNat?, c.toNat?, d.toNat?, e.toNat? with
    | some a, some b, some c, some d, some e =>
      let l := little == "l"
      let h : RootFile.Header := if kind == "c" then .classic l a b else .ext l a b c d e
      let bytes := h.write ++ List.replicate 128 0
      let det := match RootFile.detect bytes with | some v => toString v.num | none => "err"
      let rd := match RootFile.Header.read bytes with
        | some (h', rest) => showHeader h' ++ s!" hv={h'.version.num} left={rest.length}"
        | none => "err"
      (s, s!"det={det} rd={rd}")
    | _, _, _, _, _ => (s, "bad-op")
  | ["deltas", ids] =>
    match (ids.splitOn ",").mapM String.toNat? with
    | some ids =>
      let ds := RootFile.encodeDeltas ids
      (s, ",".intercalate (ds.map toString) ++ " " ++ ",".intercalate ((RootFile.decodeDeltas ds).map toString))
    | none => (s, "bad-op")
  | _ =>
  if s.mode == "enc" then
    match toks with
    | ["ck", k, sz, eks] =>
      match parseHexNat k, sz.toNat?, keys? eks with
      | some k, some sz, some eks =>
        if k.length ≠ 16 ∨ eks.any (·.length ≠ 16) ∨ s.built then (s, "bad-op")
        else ({ s with cents := { ckey := k, size := sz, ekeys := eks } :: s.cents }, "ok")
      | _, _, _ => (s, "bad-op")
    | ["ek", k, spec, sz] =>
      match parseHexNat k, sz.toNat? with
      | some k, some sz =>
        if k.length ≠ 16 ∨ s.built then (s, "bad-op") else ({ s with eents := (k, spec.toList.map Char.toNat, sz) :: s.eents }, "ok")
      | _, _ => (s, "bad-op")
    | ["build"] =>
      let b : Encoding.Builder := { cpage := s.cpage, epage := s.epage, centries := s.cents.reverse, eentries := s.eents.reverse }
      match b.buildParse with
      | some f =>
        let c := (f.ctable.map (·.2.length)).sum
        let e := (f.etable.map (·.2.length)).sum
        ({ s with enc := some f, built := true }, s!"ok c={c} e={e} cp={f.ctable.length} ep={f.etable.length}")
      | none => ({ s with enc := none, built := true }, "err:parse")
    | [op, arg] =>
      match s.enc with
      | none => (s, if s.built then "err:nofile" else "bad-op")
      | some f =>
        match op with
        | "fe" =>
          match parseHexNat arg with
          | some k => (s, match f.findEncoding k with
              | some (some (some ek)) => hx ek
              | some _ => "none"
              | none => "panic")
          | none => (s, "bad-op")
        | "fa" =>
          match parseHexNat arg with
          | some k => (s, match f.findAll k with
              | some eks => joinOr (eks.map hx) ","
              | none => "panic")
          | none => (s, "bad-op")
        | "fs" =>
          match parseHexNat arg with
          | some k => (s, match f.findEspec k with
              | some (some sp) => specStr sp
              | some none => "none"
              | none => "panic")
          | none => (s, "bad-op")
        | "bfe" =>
          match keys? arg with
          | some ks => (s, ",".intercalate ((f.batchEncodings ks).map fun r =>
              match r.bind (·.ekeys.head?) with | some ek => hx ek | none => "none"))
          | none => (s, "bad-op")
        | "bfa" =>
          match keys? arg with
          | some ks => (s, ",".intercalate ((f.batchEncodings ks).map fun r =>
              match r with | some e => joinOr (e.ekeys.map hx) "+" | none => "none"))
          | none => (s, "bad-op")
        | "bfs" =>
          match keys? arg with
          | some ks => (s, ",".intercalate ((f.batchEspecs ks).map fun r =>
              match r.bind (fun e => f.especs[e.especIdx]?) with | some sp => specStr sp | none => "none"))
          | none => (s, "bad-op")
        | _ => (s, "bad-op")
    | _ => (s, "bad-op")
  else if s.mode == "idx" then
    match toks with
    | ["e", k, sz, off] =>
      match parseHexNat k, sz.toNat?, off.toNat? with
      | some k, some sz, some off =>
        if k.length ≠ s.ks ∨ s.built then (s, "bad-op")
        else ({ s with ients := { key := k, size := sz, offset := off, archive := none } :: s.ients }, "ok")
      | _, _, _ => (s, "bad-op")
    | ["build"] =>
      match ArchiveIndex.buildParse s.ks s.ob s.rpb s.ients.reverse with
      | some c => ({ s with idx := some c, built := true }, s!"ok n={c.entries.length} toc={c.toc.length}")
      | none => ({ s with idx := none, built := true }, "err:parse")
    | ["toc"] =>
      match s.idx with
      | none => (s, if s.built then "err:nofile" else "bad-op")
      | some c => (s, joinOr (c.toc.map hx) ",")
    | [op, arg] =>
      match s.idx, parseHexNat arg with
      | none, _ => (s, if s.built then "err:nofile" else "bad-op")
      | some _, none => (s, "bad-op")
      | some c, some k =>
        match op with
        | "f" => (s, match ArchiveIndex.find c k with
            | some (some e) => idxEntryStr e
            | some none => "none"
            | none => "panic")
        | "fa" => (s, match ArchiveIndex.findAll c k with
            | some es => joinOr (es.map idxEntryStr) ";"
            | none => "panic")
        | _ => (s, "bad-op")
    | _ => (s, "bad-op")
  else if s.mode == "grp" then
    match toks with
    | ["g", k, a, off, sz] =>
      match parseHexNat k, a.toNat?, off.toNat?, sz.toNat? with
      | some k, some a, some off, some sz =>
        if k.length ≠ 16 ∨ s.built then (s, "bad-op")
        else ({ s with gents := { key := k, archive := a, offset := off, size := sz } :: s.gents }, "ok")
      | _, _, _, _ => (s, "bad-op")
    | ["build"] =>
      match ArchiveIndex.groupBuildParse s.rpb s.gents.reverse with
      | some g => ({ s with grp := some g, built := true }, s!"ok n={g.length}")
      | none => ({ s with grp := none, built := true }, "err:parse")
    | ["f", arg] =>
      match s.grp, parseHexNat arg with
      | none, _ => (s, if s.built then "err:nofile" else "bad-op")
      | some _, none => (s, "bad-op")
      | some g, some k => (s, match ArchiveIndex.groupFind g k with
          | some e => s!"{e.archive} {e.offset} {e.size}"
          | none => "none")
    | _ => (s, "bad-op")
  else if s.mode == "grpm" then
    match toks with
    | ["a", a] =>
      match a.toNat? with
      | some a => if a ≥ 65536 ∨ s.built then (s, "bad-op") else ({ s with msrcs := (a, []) :: s.msrcs }, "ok")
      | none => (s, "bad-op")
    | ["e", k, sz, off] =>
      match parseHexNat k, sz.toNat?, off.toNat?, s.msrcs with
      | some k, some sz, some off, (a, es) :: rest =>
        if k.length ≠ 16 ∨ s.built ∨ sz ≥ 4294967296 ∨ off ≥ 4294967296 then (s, "bad-op")
        else ({ s with msrcs := (a, { key := k, size := sz, offset := off, archive := none } :: es) :: rest }, "ok")
      | _, _, _, _ => (s, "bad-op")
    | ["build"] =>
      -- every source: ArchiveIndexBuilder::new (16-byte keys, 4-byte offsets) → bytes → parse
      let parsed : List (Option ArchiveIndex.Src) := s.msrcs.reverse.map fun (a, es) =>
        (ArchiveIndex.buildParse 16 4 s.srpb es.reverse).map fun (c : Paged.Chunked ArchiveIndex.Entry) => (a, c.entries)
      match parsed.mapM id with
      | none => ({ s with grp := none, built := true }, "err:parse-src")
      | some srcs =>
        match ArchiveIndex.mergedBuildParse s.rpb srcs, ArchiveIndex.addArchivesBuildParse s.rpb srcs with
        | some g, some g' =>
          ({ s with grp := some g, built := true },
            s!"ok n={g.length} same={if g == g' then 1 else 0} src=" ++ "+".intercalate (srcs.map fun (x : ArchiveIndex.Src) => toString x.2.length))
        | _, _ => ({ s with grp := none, built := true }, "err:parse")
    | ["f", arg] =>
      match s.grp, parseHexNat arg with
      | none, _ => (s, if s.built then "err:nofile" else "bad-op")
      | some _, none => (s, "bad-op")
      | some g, some k => (s, match ArchiveIndex.groupFind g k with
          | some e => s!"{e.archive} {e.offset} {e.size}"
          | none => "none")
    | _ => (s, "bad-op")
  else if s.mode == "root" then
    match toks with
    | [op, fd, ck, nh, loc, cf] =>
      -- `r`: numeric name hash or `-`; `rp`: ASCII path (hex) hashed as `RootBuilder::add_file` does
      let nh? : Option (Option Nat) :=
        if op == "r" then (if nh == "-" then some none else nh.toNat?.map some)
        else if op == "rp" then
          match parseHexNat nh with
          | some path => if path.any (· ≥ 128) then none else some (some (nameHash path))
          | none => none
        else none
      match fd.toNat?, parseHexNat ck, nh?, loc.toNat?, cf.toNat? with
      | some fd, some ck, some nh, some loc, some cf =>
        if ck.length ≠ 16 ∨ s.built ∨ fd ≥ 4294967296 ∨ loc ≥ 4294967296 ∨ cf ≥ 18446744073709551616 then (s, "bad-op")
        else ({ s with rrecs := (loc, cf, { fdid := fd, ckey := ck, nameHash := nh }) :: s.rrecs }, "ok")
      | _, _, _, _, _ => (s, "bad-op")
    | ["build"] =>
      match RootFile.build s.rver (groupBlocks s.rrecs.reverse) with
      | none => ({ s with built := true }, "err:build")
      | some bytes =>
        match RootFile.parse bytes with
        | none => ({ s with built := true }, "err:parse")
        | some p =>
          ({ s with root := some p, built := true },
            s!"ok ver={p.version.num} blocks={p.blocks.length} recs={(p.blocks.map (·.recs.length)).sum}")
    | ["blocks"] =>
      match s.root with
      | none => (s, if s.built then "err:nofile" else "bad-op")
      | some p => (s, showBlocks p)
    | ["stats"] =>
      match s.root with
      | none => (s, if s.built then "err:nofile" else "bad-op")
      | some p => let st := p.lookupStats; (s, s!"fdids={st.1} names={st.2}")
    | [op, a] =>
      if op != "ids" && op != "paths" then (s, "bad-op") else
      match s.root with
      | none => (s, if s.built then "err:nofile" else "bad-op")
      | some p =>
        if op == "ids" then
          match a.toNat? with
          | some fd => if fd ≥ 18446744073709551616 then (s, "bad-op") else (s, showEntries (p.entriesById (fd % 4294967296)))
          | none => (s, "bad-op")
        else if op == "paths" then
          match parseHexNat a with
          | some path => if path.any (· ≥ 128) then (s, "bad-op") else (s, showEntries (p.entriesByHash (nameHash path)))
          | none => (s, "bad-op")
        else (s, "bad-op")
    | [op, a, loc, cf] =>
      if op != "id" && op != "nh" && op != "path" then (s, "bad-op") else
      match s.root with
      | none => (s, if s.built then "err:nofile" else "bad-op")
      | some p =>
        let showCk (r : Option (List Nat)) : String := match r with | some ck => hx ck | none => "none"
        match loc.toNat?, cf.toNat? with
        | some loc, some cf =>
          if loc ≥ 4294967296 ∨ cf ≥ 18446744073709551616 then (s, "bad-op")
          else if op == "id" then
            match a.toNat? with
            | some fd => if fd ≥ 18446744073709551616 then (s, "bad-op") else (s, showCk (p.resolveById (fd % 4294967296) loc cf))
            | none => (s, "bad-op")
          else if op == "nh" then
            match a.toNat? with
            | some h => if h ≥ 18446744073709551616 then (s, "bad-op") else (s, showCk (p.resolveByHash h loc cf))
            | none => (s, "bad-op")
          else if op == "path" then
            match parseHexNat a with
            | some path => if path.any (· ≥ 128) then (s, "bad-op") else (s, showCk (p.resolveByHash (nameHash path) loc cf))
            | none => (s, "bad-op")
          else (s, "bad-op")
        | _, _ => (s, "bad-op")
    | _ => (s, "bad-op")
  else if s.mode == "tvfs" then
    match toks with
    | ["s", spec] =>
      match parseHexNat spec with
      | some sp => if sp.isEmpty ∨ sp.any (fun b => b ≥ 128 ∨ b = 0) ∨ s.built then (s, "bad-op") else ({ s with tspecs := sp :: s.tspecs }, "ok")
      | none => (s, "bad-op")
    | op :: p :: ek :: es :: cs :: ck :: rest =>
      let est? : Option (Option Nat) :=
        match op, rest with
        | "t", [] => some none
        | "te", [e] => (e.toNat?.bind fun e => if e < 4294967296 then some e else none).map some
        | _, _ => none
      match parseHexNat p, parseHexNat ek, es.toNat?, cs.toNat?, optHex ck, est? with
      | some p, some ek, some es, some cs, some ck, some est =>
        if ek.length ≠ 9 ∨ (ck.any (·.length != 16)) ∨ s.built ∨ es ≥ 4294967296 ∨ cs ≥ 4294967296 then (s, "bad-op")
        else ({ s with tfiles := { path := p, ekey := ek, esize := es, csize := cs, ckey := ck, est := est } :: s.tfiles }, "ok")
      | _, _, _, _, _, _ => (s, "bad-op")
    | ["build"] =>
      match TvfsTables.buildParse s.tflags s.tspecs.reverse s.tfiles.reverse with
      | .ok b => ({ s with tvfs := some b, built := true }, s!"ok files={b.files.length} vfs={b.vfs.length} cft={b.cft.length}")
      | .error (.path .trunc) => ({ s with built := true }, "err:path-trunc")
      | .error (.path .node) => ({ s with built := true }, "err:path-node")
      | .error .vfs => ({ s with built := true }, "err:vfs-trunc")
    | ["specs"] =>
      match s.tvfs with
      | none => (s, if s.built then "err:nofile" else "bad-op")
      | some b => (s, joinOr (b.est.map hx) ",")
    | ["p", arg] =>
      match s.tvfs, parseHexNat arg with
      | none, _ => (s, if s.built then "err:nofile" else "bad-op")
      | some _, none => (s, "bad-op")
      | some b, some path =>
        let num (x : Option Nat) : String := match x with | some v => toString v | none => "-"
        (s, match b.resolve path with
          | some e => s!"{hx e.ekey} {e.esize} " ++ (match e.ckey with | some c => hx c | none => "-") ++ s!" {num e.est} {num e.patch}"
          | none => "none")
    | _ => (s, "bad-op")
  else if s.mode == "res" then
    match toks with
    | ["rp", fd, ck, path, loc, cf] =>
      match fd.toNat?, parseHexNat ck, parseHexNat path, loc.toNat?, cf.toNat? with
      | some fd, some ck, some path, some loc, some cf =>
        if ck.length ≠ 16 ∨ s.built ∨ path.any (· ≥ 128) then (s, "bad-op")
        else ({ s with presecs := (fd, ck, path, loc, cf) :: s.presecs }, "ok")
      | _, _, _, _, _ => (s, "bad-op")
    | ["ck", k, sz, eks] =>
      match parseHexNat k, sz.toNat?, keys? eks with
      | some k, some sz, some eks =>
        if k.length ≠ 16 ∨ eks.any (·.length ≠ 16) ∨ s.built then (s, "bad-op")
        else ({ s with cents := { ckey := k, size := sz, ekeys := eks } :: s.cents }, "ok")
      | _, _, _ => (s, "bad-op")
    | ["ek", k, spec, sz] =>
      match parseHexNat k, sz.toNat? with
      | some k, some sz =>
        if k.length ≠ 16 ∨ s.built then (s, "bad-op") else ({ s with eents := (k, spec.toList.map Char.toNat, sz) :: s.eents }, "ok")
      | _, _ => (s, "bad-op")
    | ["build"] =>
      let recs := s.presecs.reverse.map fun (fd, ck, path, loc, cf) =>
        (loc, cf, ({ fdid := fd, ckey := ck, nameHash := some (nameHash path) } : RootFile.Rec))
      match RootFile.build s.rver (groupBlocks recs) with
      | none => ({ s with built := true }, "err:build")
      | some bytes =>
        let b : Encoding.Builder := { cpage := 1024, epage := 1024, centries := s.cents.reverse, eentries := s.eents.reverse }
        match RootFile.parse bytes, b.buildParse with
        | some p, some f => ({ s with res := some (p, f), built := true }, "ok")
        | _, _ => ({ s with built := true }, "err:parse")
    | [op, arg] =>
      match s.res with
      | none => (s, if s.built then "err:nofile" else "bad-op")
      | some (p, f) =>
        if op == "rf" then
          match arg.toNat? with
          | some fd => (s, match Resolver.fdidToEkey p f fd with | some ek => hx ek | none => "none")
          | none => (s, "bad-op")
        else if op == "rq" then
          match parseHexNat arg with
          | some path => (s, match pathToEkey p f path with | some ek => hx ek | none => "none")
          | none => (s, "bad-op")
        else (s, "bad-op")
    | _ => (s, "bad-op")
  else (s, "bad-op")

def main : IO Unit := do
  loopState (← IO.getStdin) (← IO.getStdout) step {}
