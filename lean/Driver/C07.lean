/-
Driver/C07 — runs the integrity acceptor models (Model/Integrity) on protocol lines, with the
hash parameter instantiated by the executable specs: MD5 (Spec/Md5), SHA-256 (Spec/Sha256),
lookup3 `hashlittle` (Model/Jenkins, = Spec/Lookup3 by Props/C09).

  begin <kind> [args] <hex>      set the base artifact (kind: enc aidx aidxc lru upd lhdr seg v1) → ok
  load | flip <bit> | sub <pos> <byte> | sub2 <pos> <byte> <pos> <byte> | trunc <n> | ext <pos> <hex>
                                 evaluate the acceptor on the (mutated) base artifact
  fvalid                         (after an aidx / aidxc line) `IndexFooter::is_valid` of the last 28 bytes read
                                 field by field: valid=0|1, or `short`
  v1ck                           (after a v1 line) the checksum text extract_checksum found
  fields                         (after an aidx line) the footer fields of the accepted index
  encmap                         (after an enc line) for an accepted table: page counts, number of ESpec
                                 strings, rolling digest of (first key, stored checksum, MD5 of the page bytes)
                                 of every page at the MODEL's offsets (Enc.layout / pageMap)
  begin consts ; consts          the constants lib/rs2lean_integrity.py extracted from the Rust source
                                 (Generated/IntegritySrc) — the harness prints the compiled crates' values
  begin cache hooks=<0|1> skip=<n> layers=<n>
  putv k c v | putl i k v | corrupt i k v | getv k <c|none> | has k
  caput c v | cacorrupt c v | caget c
  getvf k c <m> <alt>           get_with_validation (memory + disk) while the disk layer's backing file is
                                 rewritten with `alt` during the call (m = 0: before its first read of the
                                 file, m = 1, 2: after its m-th read) → outcome and `dreads=<reads of the file>`
  cagetf c <n> <put|once> <alt|none>
                                 get_validated while the backing store answers `alt` (none = entry gone) at
                                 the n-th read of this call (`put`: rewritten just before that read and from
                                 then on; `once`: that read only) → outcome and `reads=<number of reads made>`
-/
import Driver.Common
import Cascette.Model.Integrity
import Cascette.Model.Jenkins
import Cascette.Spec.Md5
import Cascette.Spec.Sha256
import Cascette.Generated.IntegritySrc
open Cascette Drv
open Cascette.Model.Integrity

def md5H : Hash := Spec.Md5.md5
def shaH : Hash := Spec.Sha256.sha256
def hl0 (b : Bytes) : Nat := (Model.Jenkins.hashlittle b 0).toNat
/-- seed = `CHECKSUM_A_SEED` as extracted from local_header.rs (0x3D6BE971 today). -/
def hlA (b : Bytes) : Nat :=
  (Model.Jenkins.hashlittle b (BitVec.ofNat 32 Generated.IntegritySrc.lhdr_checksum_a_seed)).toNat

/-- rolling digest both sides print for longer values. -/
def fold32 (acc : Nat) (xs : List Nat) : Nat := xs.foldl (fun a x => (a * 31 + x) % 4294967296) acc

def bytesNat (b : Bytes) : List Nat := b.map (·.toNat)

structure St where
  kind : String := ""
  base : Bytes := []
  param : Nat := 0
  last : Bytes := []          -- last evaluated input
  lastOk : Bool := false      -- enc: the last evaluated table was accepted
  lastV1 : String := "none"   -- v1: the `v1ck` answer of the last evaluated input
  memo : List (Bytes × Bytes) := []  -- (hashed region of the BASE artifact, its digest): see `memoH`
  cfg : Cache.Cfg := ⟨true, 0⟩
  layers : List Cache.Layer := []
  ca : Cache.Layer := []

def encErr : Enc.Err → String
  | .checksum => "err:checksum" | .magic => "err:magic" | .header => "err:header"
  | .espec => "err:espec" | .io => "err:io" | .binrw => "err:binrw"

def evalArtifact (kind : String) (param : Nat) (d : Bytes) : String :=
  match kind with
  | "enc" =>
    match Enc.parse md5H d with
    | .ok (c, e) => s!"ok c={c} e={e}"
    | .error e => encErr e
  | "aidx" | "aidxc" =>
    match Aidx.footerCheck md5H (kind == "aidx") d with
    | .panic => "panic" | .io => "err:io" | .checksum => "err:checksum" | .format => "err:format" | .size => "err:size"
    | .pass _ _ _ _ => "pass"
  | "lru" =>
    match Lru.deserialize md5H d with
    | none => "none"
    | some f =>
      let x := f.entries.foldl (fun a e => fold32 a ([e.prev, e.next] ++ bytesNat e.ekey ++ [e.flags])) 7
      s!"ok v={f.version} h={f.head} t={f.tail} n={f.entries.length} x={x}"
  | "upd" =>
    let es := Upd.sectionEntries (d.length / Upd.pageSize + 1) d
    let bad := (es.filter (fun e => !Upd.validate hl0 e)).length
    let x := es.foldl (fun a e =>
      let p := Upd.fromBytes e
      fold32 a ([p.guard] ++ bytesNat p.ekey ++ [p.archiveId, p.archiveOffset, p.size, p.status])) 7
    s!"n={es.length} bad={bad} x={x}"
  | "lhdr" =>
    if d.length < Lhdr.size then "none" else
    let h := d.take Lhdr.size
    let v := if Lhdr.validate hlA param h then 1 else 0
    s!"valid={v} key={hexOf (h.take 16).reverse} size={beNat (slice h 16 4)} flags={leNat (slice h 20 2)}"
  | "seg" =>
    match Lhdr.segmentLoad d with
    | none => "none"
    | some hs =>
      let bad := ((hs.zipIdx).filter (fun (h, i) => !Lhdr.validate hlA (i * Lhdr.size) h)).length
      let x := hs.foldl (fun a h => fold32 a (bytesNat (h.take 22))) 7
      s!"ok bad={bad} x={x}"
  | "v1" =>
    match V1.check shaH d with
    | .checksumErr => "err:checksum"
    | .pass _ _ => "pass"
  | _ => "bad-op"

/-- `H` with a table of digests computed by `H` itself for the hashed regions of the base artifact
(the pages of an encoding table, the message of a V1 response): a mutation that leaves a region
untouched (every substitution inside a stored checksum, every flip in another page) does not pay
for hashing it again. Extensionally `H`: the table holds only pairs `(b, H b)` and is searched by
full equality. -/
def memoH (memo : List (Bytes × Bytes)) (H : Hash) : Hash := fun b =>
  match memo.find? (fun p => p.1 == b) with
  | some p => p.2
  | none => H b

/-- the table for a base artifact. -/
def memoOf (kind : String) (d : Bytes) : List (Bytes × Bytes) :=
  match kind with
  | "enc" =>
    match Enc.readHeader d with
    | .ok h =>
      if !Enc.headerOk h || d.length < Enc.dataSize h then [] else
      let L := Enc.layout h
      ((Enc.pageMap d L.ckIndex L.ckPages (h.ckKb * 1024) h.ckCount) ++
        (Enc.pageMap d L.ekIndex L.ekPages (h.ekKb * 1024) h.ekCount)).map fun (_, page) => (page, md5H page)
    | .error _ => []
  | "v1" =>
    match V1.extract d with
    | (m, some _) => [(m, shaH m)]
    | _ => []
  | _ => []

/-- `encmap`: what an accepted encoding table looks like through the model's layout (`ok` = the
verdict of `Enc.parse` on `d`, computed once by the line before). -/
def encMap (memo : List (Bytes × Bytes)) (ok : Bool) (d : Bytes) : String :=
  match ok, Enc.readHeader d with
  | true, .ok h =>
    let L := Enc.layout h
    let one (idxOff pagesOff ps n : Nat) (acc : Nat) : Nat :=
      ((List.range n).zip (Enc.pageMap d idxOff pagesOff ps n)).foldl (fun a (i, (sum, page)) =>
        fold32 a (bytesNat (slice d (idxOff + 32 * i) 16) ++ bytesNat sum ++ bytesNat (memoH memo md5H page))) acc
    let x := one L.ekIndex L.ekPages (h.ekKb * 1024) h.ekCount (one L.ckIndex L.ckPages (h.ckKb * 1024) h.ckCount 7)
    let especs := ((slice d 22 h.especSize).filter (· == 0)).length
    s!"ok ck={h.ckCount} ek={h.ekCount} especs={especs} x={x}"
  | _, _ => "rejected"

def constsStr : String :=
  s!"lru={Generated.IntegritySrc.lru_header_size},{Generated.IntegritySrc.lru_entry_size},{Generated.IntegritySrc.lru_max_version} " ++
  s!"upd={Generated.IntegritySrc.upd_entry_size},{Generated.IntegritySrc.upd_page_size} " ++
  s!"lhdr={Generated.IntegritySrc.lhdr_size} seg={Generated.IntegritySrc.seg_header_size} " ++
  s!"skip={Generated.IntegritySrc.max_validation_size}"

def outStr : Cache.Out → String
  | .ok => "ok" | .none => "none" | .hit v => "hit " ++ hexOf v | .invalid => "err:validation"
  | .corrupt => "err:corruption" | .badLayer => "err:layer"

def kv? (s : String) (key : String) : Option Nat :=
  match s.splitOn "=" with
  | [k, v] => if k == key then v.toNat? else none
  | _ => none

/-- cache keys and content keys are 16 bytes. -/
def key16? (s : String) : Option Bytes :=
  match parseHex s with
  | some b => if b.length = 16 then some b else none
  | none => none

/-- evaluate the acceptor once; the follow-up lines (`encmap`, `v1ck`) reuse the verdict. -/
def mutate (st : St) (d : Bytes) : St × String :=
  match st.kind with
  | "enc" =>
    match Enc.parse (memoH st.memo md5H) d with
    | .ok (c, e) => ({ st with last := d, lastOk := true }, s!"ok c={c} e={e}")
    | .error e => ({ st with last := d, lastOk := false }, encErr e)
  | "v1" =>
    match V1.check (memoH st.memo shaH) d with
    | .checksumErr => ({ st with last := d, lastV1 := "err:checksum" }, "err:checksum")
    | .pass _ none => ({ st with last := d, lastV1 := "none" }, "pass")
    | .pass _ (some c) => ({ st with last := d, lastV1 := hexOf c }, "pass")
  | _ => ({ st with last := d }, evalArtifact st.kind st.param d)

def handle (st : St) : List String → St × String
  | ["begin", "cache", h, sk, ly] =>
    match kv? h "hooks", kv? sk "skip", kv? ly "layers" with
    | some h, some sk, some ly =>
      -- the exemption size the harness states must be the one found in the Rust source
      if sk != Generated.IntegritySrc.max_validation_size then (st, s!"err:const skip={Generated.IntegritySrc.max_validation_size}") else
      ({ st with kind := "cache", cfg := ⟨h == 1, sk⟩, layers := List.replicate ly [], ca := [] }, "ok")
    | _, _, _ => (st, "bad-op")
  | ["begin", "consts"] => ({ st with kind := "consts" }, "ok")
  | ["consts"] => if st.kind == "consts" then (st, constsStr) else (st, "bad-op")
  | ["encmap"] => if st.kind == "enc" then (st, encMap st.memo st.lastOk st.last) else (st, "bad-op")
  | ["fvalid"] =>
    if st.kind != "aidx" && st.kind != "aidxc" then (st, "bad-op") else
    if st.last.length < 28 then (st, "short") else
    (st, if Aidx.isValid md5H (st.last.drop (st.last.length - 28)) then "valid=1" else "valid=0")
  | ["begin", "lhdr", p, hx] =>
    match p.toNat?, parseHex hx with
    | some p, some b => ({ st with kind := "lhdr", base := b, param := p, last := b, lastOk := false, lastV1 := "none", memo := [] }, "ok")
    | _, _ => (st, "bad-op")
  | ["begin", kind, hx] =>
    if ["enc", "aidx", "aidxc", "lru", "upd", "seg", "v1"].contains kind then
      match parseHex hx with
      | some b => ({ st with kind := kind, base := b, param := 0, last := b, lastOk := false, lastV1 := "none", memo := memoOf kind b }, "ok")
      | none => (st, "bad-op")
    else (st, "bad-op")
  | ["load"] => if st.kind == "cache" || st.kind == "consts" || st.kind == "" then (st, "bad-op") else mutate st st.base
  | ["flip", bit] =>
    if st.kind == "cache" || st.kind == "" then (st, "bad-op") else
    match bit.toNat? with
    | some bit =>
      let i := bit / 8
      if i < st.base.length then
        mutate st (st.base.set i (st.base.getD i 0 ^^^ BitVec.ofNat 8 (2 ^ (bit % 8))))
      else (st, "bad-op")
    | none => (st, "bad-op")
  | ["sub", pos, byte] =>
    if st.kind == "cache" || st.kind == "" then (st, "bad-op") else
    match pos.toNat?, byte.toNat? with
    | some i, some x => if i < st.base.length ∧ x < 256 then mutate st (st.base.set i (BitVec.ofNat 8 x)) else (st, "bad-op")
    | _, _ => (st, "bad-op")
  | ["sub2", p1, x1, p2, x2] =>
    if st.kind == "cache" || st.kind == "" then (st, "bad-op") else
    match p1.toNat?, x1.toNat?, p2.toNat?, x2.toNat? with
    | some i, some x, some j, some y =>
      if i < st.base.length ∧ j < st.base.length ∧ i ≠ j ∧ x < 256 ∧ y < 256 then
        mutate st ((st.base.set i (BitVec.ofNat 8 x)).set j (BitVec.ofNat 8 y))
      else (st, "bad-op")
    | _, _, _, _ => (st, "bad-op")
  | ["trunc", n] =>
    if st.kind == "cache" || st.kind == "" then (st, "bad-op") else
    match n.toNat? with
    | some n => if n ≤ st.base.length then mutate st (st.base.take n) else (st, "bad-op")
    | none => (st, "bad-op")
  | ["ext", pos, hx] =>
    if st.kind == "cache" || st.kind == "" then (st, "bad-op") else
    match pos.toNat?, parseHex hx with
    | some i, some x => if i ≤ st.base.length then mutate st (st.base.take i ++ x ++ st.base.drop i) else (st, "bad-op")
    | _, _ => (st, "bad-op")
  | ["fields"] =>
    if st.kind != "aidx" then (st, "bad-op") else
    match Aidx.footerCheck md5H true st.last with
    | .pass v ob ekl cnt => (st, s!"v={v} ob={ob} ekl={ekl} cnt={cnt}")
    | _ => (st, "rejected")
  | ["v1ck"] => if st.kind != "v1" then (st, "bad-op") else (st, st.lastV1)
  | ["big", n] =>
    -- a value of `n` bytes read back under a content key that is not its MD5 (the harness does
    -- not ship the 100 MiB value through the protocol): only the size exemption decides
    if st.kind != "cache" then (st, "bad-op") else
    match n.toNat? with
    | some n =>
      if n ≤ st.cfg.skipAbove + 16 then
        (st, if !st.cfg.hooks || Cache.hooksValidLen st.cfg n false then s!"hit len={n}" else "err:corruption")
      else (st, "bad-op")
    | none => (st, "bad-op")
  | ["putv", k, c, v] =>
    if st.kind != "cache" then (st, "bad-op") else
    match key16? k, key16? c, parseHex v with
    | some k, some c, some v =>
      let (s, o) := Cache.putValidated md5H st.cfg st.layers k c v
      ({ st with layers := s }, outStr o)
    | _, _, _ => (st, "bad-op")
  | ["putl", i, k, v] =>
    if st.kind != "cache" then (st, "bad-op") else
    match i.toNat?, key16? k, parseHex v with
    | some i, some k, some v =>
      let (s, o) := Cache.putLayer st.layers i k v
      ({ st with layers := s }, outStr o)
    | _, _, _ => (st, "bad-op")
  | ["corrupt", i, k, v] =>
    if st.kind != "cache" then (st, "bad-op") else
    match i.toNat?, key16? k, parseHex v with
    | some i, some k, some v =>
      if i != 1 || st.layers.length != 2 then (st, "bad-op") else
      let (s, o) := Cache.corruptLayer st.layers i k v
      ({ st with layers := s }, outStr o)
    | _, _, _ => (st, "bad-op")
  | ["getv", k, c] =>
    if st.kind != "cache" then (st, "bad-op") else
    match key16? k, (if c == "none" then some none else (key16? c).map some) with
    | some k, some e =>
      let (s, o) := Cache.getValidated md5H st.cfg st.layers k e
      ({ st with layers := s }, outStr o)
    | _, _ => (st, "bad-op")
  | ["has", k] =>
    if st.kind != "cache" then (st, "bad-op") else
    match key16? k with
    | some k => (st, String.ofList (st.layers.map fun l => if (Cache.lookup k l).isSome then '1' else '0'))
    | none => (st, "bad-op")
  | ["caput", c, v] =>
    if st.kind != "cache" then (st, "bad-op") else
    match key16? c, parseHex v with
    | some c, some v =>
      let (l, o) := Cache.caPut md5H st.ca c v
      ({ st with ca := l }, outStr o)
    | _, _ => (st, "bad-op")
  | ["cacorrupt", c, v] =>
    if st.kind != "cache" then (st, "bad-op") else
    match key16? c, parseHex v with
    | some c, some v =>
      if (Cache.lookup c st.ca).isSome then ({ st with ca := Cache.insert c v st.ca }, "ok") else (st, "none")
    | _, _ => (st, "bad-op")
  | ["caget", c] =>
    if st.kind != "cache" then (st, "bad-op") else
    match key16? c with
    | some c => (st, outStr (Cache.caGet md5H st.ca c))
    | none => (st, "bad-op")
  | ["getvf", k, c, m, alt] =>
    if st.kind != "cache" then (st, "bad-op") else
    match key16? k, key16? c, m.toNat?, parseHex alt with
    | some k, some c, some m, some alt =>
      if st.layers.length != 2 || 2 < m then (st, "bad-op") else
      let (s, o, made) := Cache.getValidatedFault md5H st.cfg st.layers k (some c) m alt
      ({ st with layers := s }, s!"{outStr o} dreads={made}")
    | _, _, _, _ => (st, "bad-op")
  | ["cagetf", c, n, mode, alt] =>
    if st.kind != "cache" then (st, "bad-op") else
    match key16? c, n.toNat?, (if mode == "put" then some true else if mode == "once" then some false else none),
          (if alt == "none" then some none else (parseHex alt).map some) with
    | some c, some n, some stays, some alt =>
      if n = 0 ∨ 3 < n then (st, "bad-op") else
      let f : Cache.Fault := ⟨n, stays, alt⟩
      let (o, made) := Cache.caGetReads md5H (f.reads (Cache.lookup c st.ca)) c
      ({ st with ca := f.after c st.ca made }, s!"{outStr o} reads={made}")
    | _, _, _, _ => (st, "bad-op")
  | _ => (st, "bad-op")

def main : IO Unit := do
  loopState (← IO.getStdin) (← IO.getStdout) handle ({} : St)
