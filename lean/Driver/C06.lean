/-
Driver/C06 — runs Model/SaveProtocols over Spec/Fs on the request stream of harness/src/bin/c06.rs.

  begin <routine> … jver=<v> jmax=<m>           -> ok          (directory := empty)
  step <script> | <model parameters>            -> the calls the model produces, then dir := run dir (their effect)
       idx parameters: v=<version> <bucket>=<file bytes> … [o<bucket>=<outcome>,<outcome>,…]
       outcome = k (ok) | c (create failed) | w<n> (write failed, n bytes reached the file) | s | r
  state <i> <k>                                 -> name:len:synced:fnv …  of `run before (cutAtCalls calls i k)`
  resume <i> <k> <asis|trunc|zeros>             -> name:len:fnv …        of the crash image; dir := image
  jload <hex|-|none>                            -> [s1,s2,…]   `ExtractorCompactorBackup::load` on that file content
  lload <name>:<0|1>,…                          -> fresh | loaded <gen> | err   `run_cycle`'s load step on a directory
                                                   listing (1 = `lru_file::deserialize` accepts the file)

File contents are given as hex, or (disk-cache values from 128 KiB on) as `@<len>:<seed>:<mlen>` =
the last `len` bytes of the first `mlen` bytes of the harness's value stream for `seed`
(`harness/src/lib.rs` `Rng`: splitmix64 start, xorshift64* steps, bits 32..39 of every output): the
values of one size-class family (c-1, c, c+1 bytes) are tails of ONE master list, which is built
once and shared (a 16 MiB value is a 16 Mi-cell list). The `write … LEN FNV` of the response ties
the stream generated here to the bytes the real code wrote.
-/
import Driver.Common
import Cascette.Spec.Fs
import Cascette.Model.SaveProtocols
open Drv Cascette Cascette.Spec.Fs Cascette.Model.SaveProtocols

namespace C06

structure St where
  routine : String := ""
  dir : Dir String := fun _ => none
  names : List String := []
  before : Dir String := fun _ => none
  trace : List (Call String) := []
  jver : Nat := 1
  jmax : Nat := 1023
  /-- the last generated value stream: seed, length, bytes -/
  master : Option (Nat × Nat × Bytes) := none

/-! ### the harness's value stream (`Rng::new(seed)`, `Rng::byte`) -/

def rngNew (seed : UInt64) : UInt64 :=
  let z := seed + 0x9E3779B97F4A7C15
  let z := (z ^^^ (z >>> 30)) * 0xBF58476D1CE4E5B9
  let z := (z ^^^ (z >>> 27)) * 0x94D049BB133111EB
  let z := z ^^^ (z >>> 31)
  if z == 0 then 0x123456789ABCDEF1 else z

def rngStep (x : UInt64) : UInt64 :=
  let x := x ^^^ (x >>> 12)
  let x := x ^^^ (x <<< 25)
  x ^^^ (x >>> 27)

def streamArr : Nat → UInt64 → ByteArray → ByteArray
  | 0, _, acc => acc
  | n + 1, x, acc =>
    let x := rngStep x
    streamArr n x (acc.push ((x * 0x2545F4914F6CDD1D) >>> 32).toUInt8)

def arrToBytes (a : ByteArray) : Nat → Bytes → Bytes
  | 0, acc => acc
  | i + 1, acc => arrToBytes a i (BitVec.ofNat 8 (a.get! i).toNat :: acc)

/-- the first `n` bytes of the stream for `seed`. -/
def stream (seed n : Nat) : Bytes :=
  arrToBytes (streamArr n (rngNew seed.toUInt64) (ByteArray.emptyWithCapacity n)) n []

/-- hex → bytes without deep recursion (index files with a 64 KiB alignment gap are long). -/
def parseHexFast (s : String) : Option Bytes :=
  if s == "-" then some [] else
  let rec go : List Char → Bytes → Option Bytes
    | [], acc => some acc.reverse
    | [_], _ => none
    | a :: b :: rest, acc =>
      match hexDigit a, hexDigit b with
      | some x, some y => go rest (BitVec.ofNat 8 (16 * x + y) :: acc)
      | _, _ => none
  go s.toList []

/-- a file content parameter: hex, or `@len:seed:mlen`; returns the (possibly new) master cache. -/
def contentOf (st : St) (v : String) : Option (St × Bytes) :=
  if v.startsWith "@" then
    match ((v.drop 1).toString.splitOn ":").map String.toNat? with
    | [some len, some seed, some mlen] =>
      if len > mlen then none else
      match st.master with
      | some (sd, ml, bs) =>
        if sd = seed ∧ ml = mlen then some (st, bs.drop (mlen - len))
        else
          let bs := stream seed mlen
          some ({ st with master := some (seed, mlen, bs) }, bs.drop (mlen - len))
      | none =>
        let bs := stream seed mlen
        some ({ st with master := some (seed, mlen, bs) }, bs.drop (mlen - len))
    | _ => none
  else (parseHexFast v).map fun b => (st, b)

def fnv64 (b : Bytes) : UInt64 :=
  b.foldl (fun h x => (h ^^^ x.toNat.toUInt64) * 0x100000001b3) 0xcbf29ce484222325

def fnvHex (b : Bytes) : String := hexFixed 16 (fnv64 b).toNat

def opNames : Op String → List String
  | .create n | .openAppend n | .write n _ | .fsync n | .unlink n => [n]
  | .rename a b => [a, b]

/-- render one call against the state it runs in (`!` = the call fails and changes nothing). -/
def opText (d : Dir String) : Op String → String
  | .create n => s!"creat {n}"
  | .openAppend n => s!"append {n}"
  | .write n bs => s!"write {n} {bs.length} {fnvHex bs}"
  | .fsync n => s!"fsync {n}"
  | .rename a b => if (d a).isSome then s!"rename {a} {b}" else s!"rename! {a} {b}"
  | .unlink n => if (d n).isSome then s!"unlink {n}" else s!"unlink! {n}"

def traceText (d : Dir String) (t : List (Op String)) : String :=
  if t.isEmpty then "-" else
  let (_, out) := t.foldl (fun (acc : Dir String × List String) o => (step acc.1 o, opText acc.1 o :: acc.2)) (d, [])
  ";".intercalate out.reverse

/-- the harness's canonical form of a trace: failed writes and failed fsyncs dropped (they change
nothing and the harness only counts them), consecutive writes to one file coalesced, empty writes
(no system call is made for them) dropped. -/
def canon : List (Call String) → List (Call String)
  | [] => []
  | .failed (.write _ _) :: rest => canon rest
  | .failed (.fsync _) :: rest => canon rest
  | .did (.write n bs) :: rest =>
    match canon rest with
    | .did (.write m cs) :: r => if n = m then .did (.write n (bs ++ cs)) :: r else
        if bs.isEmpty then .did (.write m cs) :: r else .did (.write n bs) :: .did (.write m cs) :: r
    | r => if bs.isEmpty then r else .did (.write n bs) :: r
  | o :: rest => o :: canon rest

def callText (d : Dir String) : Call String → String
  | .did o => opText d o
  | .failed (.create n) => s!"creat! {n}"
  | .failed (.openAppend n) => s!"append! {n}"
  | .failed (.rename a b) => s!"rename! {a} {b}"
  | .failed (.unlink n) => s!"unlink! {n}"
  | .failed (.write n _) => s!"write! {n}"
  | .failed (.fsync n) => s!"fsync! {n}"

def callsText (d : Dir String) (t : List (Call String)) : String :=
  if t.isEmpty then "-" else
  let (_, out) := t.foldl (fun (acc : Dir String × List String) c =>
    (c.eff.foldl step acc.1, callText acc.1 c :: acc.2)) (d, [])
  ";".intercalate out.reverse

def attemptOf (t : String) : Option Attempt :=
  if t == "k" then some .ok
  else if t == "c" then some .failCreate
  else if t == "s" then some .failSync
  else if t == "r" then some .failRename
  else if t.startsWith "w" then (t.drop 1).toString.toNat?.map .failWrite
  else none

def insertSorted (n : String) : List String → List String
  | [] => [n]
  | m :: r => if n < m then n :: m :: r else if n = m then m :: r else m :: insertSorted n r

def listing (withSynced : Bool) (names : List String) (files : String → Option (Bytes × Nat)) : String :=
  let rows := names.filterMap fun n =>
    match files n with
    | some (b, s) =>
      some (if withSynced then s!"{n}:{b.length}:{min s b.length}:{fnvHex b}" else s!"{n}:{b.length}:{fnvHex b}")
    | none => none
  if rows.isEmpty then "-" else " ".intercalate rows

def kv (toks : List String) (k : String) : Option String :=
  toks.findSome? fun t => if t.startsWith (k ++ "=") then some ((t.drop (k.length + 1)).toString) else none

def asciiOfHex (h : String) : Option String :=
  (parseHexNat h).map fun l => String.ofList (l.map Char.ofNat)

/-- the trace of one save, from the model parameters and the current directory. -/
def modelOps (st : St) (p : List String) : Option (St × List (Op String)) :=
  match p with
  | "res" :: rest =>
    match (kv rest "name").bind asciiOfHex, kv rest "dirty", (kv rest "data").bind parseHexFast with
    | some name, some dirty, some bytes =>
      some (st, residencySave (dirty == "1") (String.ofList (withExtTmp name.toList)) name bytes)
    | _, _, _ => none
  | "lru" :: rest =>
    match (kv rest "gen").bind String.toNat?, (kv rest "prev").bind String.toNat?, (kv rest "data").bind parseHexFast with
    | some g, some pv, some bytes =>
      some (st, lruCheckpoint (fun g => String.ofList (lruName g)) (fun g => String.ofList (lruTmp g)) g pv bytes)
    | _, _, _ => none
  | "dc" :: rest =>
    match (kv rest "sub").bind String.toNat?, (kv rest "key").bind parseHexNat, (kv rest "data").bind (contentOf st) with
    | some sub, some keyBytes, some (st, bytes) =>
      let key := keyBytes.map Char.ofNat
      let dirs := subDirs sub (keyHash keyBytes)
      some (st, diskCacheWrite (String.ofList (dirs ++ withExtTmp key)) (String.ofList (dirs ++ key)) bytes)
    | _, _, _ => none
  | "jrn" :: rest =>
    match (kv rest "seg").bind String.toNat? with
    | some seg =>
      let name := "extract_bu"
      some (st, journalRecord name (journalIsEmpty st.dir name) (BitVec.ofNat 8 st.jver) st.jmax seg)
    | none => none
  | _ => none

/-- the calls of one save, from the model parameters and the current directory. -/
def modelTrace (st : St) (p : List String) : Option (St × List (Call String)) :=
  match p with
  | "idx" :: rest =>
    let ver := ((kv rest "v").bind String.toNat?).getD 1
    let buckets := rest.filterMap fun t =>
      match t.splitOn "=" with
      | [b, h] =>
        if b == "v" || b.startsWith "o" then none else
        match parseHexNat b, parseHexFast h with
        | some [bn], some bytes =>
          let outs := ((kv rest ("o" ++ b)).map fun o => (o.splitOn ",").filterMap attemptOf).getD []
          some ({ tmp := String.ofList (idxTmp bn ver), fin := String.ofList (idxName bn ver), bytes := bytes, outcomes := outs } : BucketSave String)
        | _, _ => none
      | _ => none
    some (st, saveAllCalls buckets)
  | _ => (modelOps st p).map fun (st, t) => (st, t.map Call.did)

def variantOf : String → Option Variant
  | "asis" => some .asis
  | "trunc" => some .trunc
  | "zeros" => some .zeros
  | _ => none

def handle (st : St) (toks : List String) : St × String :=
  match toks with
  | "begin" :: routine :: rest =>
    ({ routine := routine,
       jver := ((kv rest "jver").bind String.toNat?).getD 1,
       jmax := ((kv rest "jmax").bind String.toNat?).getD 1023,
       master := st.master }, "ok")
  | "step" :: rest =>
    let params := (rest.dropWhile (· ≠ "|")).drop 1
    match modelTrace st params with
    | none => (st, "bad-op")
    | some (st, t) =>
      let t := canon t
      let names := ((effOps t).flatMap opNames).foldl (fun acc n => insertSorted n acc) st.names
      let after := run st.dir (effOps t)
      -- the process has exited and the history goes on: everything it wrote is on disk
      -- (the lengths are computed once per file, as data, not per lookup: a value can be a 16 Mi-cell list)
      let files : List (String × File) := names.filterMap fun n =>
        (after n).map fun f => (n, { f with synced := f.data.length })
      let settled : Dir String := fun n => (files.find? fun p => p.1 == n).map (·.2)
      ({ st with before := st.dir, trace := t, names := names, dir := settled }, callsText st.dir t)
  | ["pre", ops] =>
    -- what the saving process's own reopen did before the save (run_cycle's scan_directory)
    let d := (ops.splitOn ",").foldl (fun (d : Dir String) o =>
      match o.splitOn ":" with
      | ["unlink", n] => step d (.unlink n)
      | ["put", n, h] =>
        -- an earlier, completed save of the worker's history (flush_all_updates): durable content
        match parseHexFast h with
        | some b => upd d n (some ⟨b, b.length⟩)
        | none => d
      | _ => d) st.dir
    let names := (ops.splitOn ",").foldl (fun acc o =>
      match o.splitOn ":" with
      | [_, n] => insertSorted n acc
      | [_, n, _] => insertSorted n acc
      | _ => acc) st.names
    ({ st with dir := d, names := names }, "ok")
  | ["state", i, k] =>
    match i.toNat?, k.toNat? with
    | some i, some k =>
      let d := run st.before (cutAtCalls st.trace i k)
      (st, listing true st.names fun n => (d n).map fun f => (f.data, f.synced))
    | _, _ => (st, "bad-op")
  | ["resume", i, k, v] =>
    match i.toNat?, k.toNat?, variantOf v with
    | some i, some k, some v =>
      let img := dirImage v (run st.before (cutAtCalls st.trace i k))
      ({ st with dir := ofData img }, listing false st.names fun n => (img n).map fun b => (b, b.length))
    | _, _, _ => (st, "bad-op")
  | ["jload", c] =>
    let content : Option (Option Bytes) :=
      if c == "none" then some none else if c == "-" then some (some []) else (parseHexFast c).map some
    match content with
    | some c => (st, "[" ++ ",".intercalate ((journalLoad (BitVec.ofNat 8 st.jver) c).map toString) ++ "]")
    | none => (st, "bad-op")
  | ["lload", listing] =>
    let files : List (String × Bool) := (listing.splitOn ",").filterMap fun t =>
      match t.splitOn ":" with
      | [n, f] => some (n, f == "1")
      | _ => none
    -- generations that have a file with a generation name (`filename_to_generation`)
    let gens := files.filterMap fun (n, _) =>
      if isLruName n.toList then (parseHexNat ((n.take 16).toString)).map (fun bs => bs.foldl (fun a b => a * 256 + b) 0) else none
    let img : String → Option Bytes := fun n =>
      (files.find? (fun p => p.1 == n)).map fun p => if p.2 then [1] else [0]
    let deser : Bytes → Option Unit := fun b => if b == [1] then some () else none
    match lruLoad (fun g => String.ofList (lruName g)) deser gens img with
    | .fresh => (st, "fresh")
    | .loaded g _ => (st, s!"loaded {g}")
    | .err => (st, "err")
  | _ => (st, "bad-op")

end C06

def main : IO Unit := do
  loopState (← IO.getStdin) (← IO.getStdout) C06.handle {}
