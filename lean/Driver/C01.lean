/-
Driver/C01 — runs the executable BLTE model on protocol lines (see harness/src/bin/c01.rs).
The parameters of the model are instantiated per request line: zlib/LZ4 by the graph of the real
compressor that the harness puts on the line (`M:plain:comp,…`; decompress = the inverse graph,
i.e. the law `decompress (compress x) = x` the theorems assume and the harness checks on the real
library), MD5 by Spec/Md5, the key store by the `name:key,…` list.
-/
import Driver.Common
import Cascette.Model.Blte
import Cascette.Spec.Md5
open Cascette Drv
open Cascette.Model.Blte

/-! ### byte strings on the line

Lower-case hex (`-` = empty) or the compact notation of harness/src/bin/c01.rs: `<unit>*<n>` = the
unit cycled to exactly `n` bytes, segments concatenated with `+`. Output is canonical: the greedy segmentation of the
harness's `hex` (strings of at least `compactMin` bytes; at each position the longest stretch with
a period `k ≤ 8`, smallest `k` on ties, becomes `unit*n` when it has at least `runMin` bytes). -/

def compactMin : Nat := 1024

/-- `unit` cycled to `n` bytes (`unit ≠ []`). -/
def cycleTo (unit : Bytes) (n : Nat) : Bytes :=
  let reps := n / unit.length
  ((List.replicate reps unit).flatten ++ unit.take (n % unit.length))

/-! generated content (`~<k><seed>.<off>*<n>`, see harness/src/bin/c01.rs): `n` = LCG noise, `w` =
words of a fixed dictionary separated by blanks, `m` = stretches of both in turn. Written twice
(Rust and here); both sides only ever parse this notation, responses to cases that use it are
digests. -/

def lcg (x : UInt64) : UInt64 := x * 6364136223846793005 + 1442695040888963407

def genByte (st : UInt64) : Byte := BitVec.ofNat 8 (st >>> 33).toNat

/-- `n` noise bytes pushed onto `acc` (reversed) -/
def genNoiseRev (seed : UInt64) (n : Nat) (acc : Bytes) : Bytes := Id.run do
  let mut st := seed * 0x9E3779B97F4A7C15 + 1
  let mut acc := acc
  for _ in [0:n] do
    st := lcg st
    acc := genByte st :: acc
  return acc

/-- word `i` of the dictionary has `2 + i % 9` letters drawn from one LCG stream -/
def genDict : Array Bytes := Id.run do
  let mut st : UInt64 := 0x5eed
  let mut d : Array Bytes := #[]
  for i in [0:256] do
    let mut w : Bytes := []
    for _ in [0:2 + i % 9] do
      st := lcg st
      w := BitVec.ofNat 8 (97 + ((st >>> 33) % 26).toNat) :: w
    d := d.push w   -- letters reversed: pushed onto a reversed accumulator as they are
  return d

/-- at least `n` bytes of words (whole words) pushed onto `acc` (reversed); returns the count -/
partial def genWordsRev (dict : Array Bytes) (st : UInt64) (n : Nat) (have_ : Nat) (acc : Bytes) : Bytes × Nat :=
  if have_ ≥ n then (acc, have_)
  else
    let st := lcg st
    let w := dict[((st >>> 33) % 256).toNat]!
    genWordsRev dict st n (have_ + w.length + 1) ((0x20 : Byte) :: (w ++ acc))

/-- the first `n` bytes of stream `kind` / `seed` -/
partial def genStream (kind : Char) (seed : UInt64) (n : Nat) : Option Bytes :=
  if kind == 'n' then some (genNoiseRev seed n []).reverse
  else if kind == 'w' then
    let (acc, have_) := genWordsRev genDict (seed * 0x9E3779B97F4A7C15 + 7) n 0 []
    some (acc.drop (have_ - n)).reverse
  else if kind == 'm' then
    let dict := genDict
    let rec go (k : UInt64) (have_ : Nat) (acc : Bytes) : Bytes × Nat :=
      if have_ ≥ n then (acc, have_)
      else if k % 2 == 0 then go (k + 1) (have_ + 3000) (genNoiseRev (seed + k) 3000 acc)
      else
        let (a, h) := genWordsRev dict ((seed + k) * 0x9E3779B97F4A7C15 + 7) 5000 0 []
        go (k + 1) (have_ + 5000) (a.drop (h - 5000) ++ acc)
    let (acc, have_) := go 0 0 []
    some (acc.drop (have_ - n)).reverse
  else none

def allDigits (s : String) : Bool := !s.isEmpty && s.all Char.isDigit

/-- `<k><seed>.<off>*<n>` (the text after `~`) -/
def parseGen (g : String) : Option Bytes :=
  match g.toList with
  | kind :: rest =>
    match (String.ofList rest).splitOn "." with
    | [seed, r] =>
      match r.splitOn "*" with
      | [off, n] =>
        if allDigits seed ∧ allDigits off ∧ allDigits n then
          match seed.toNat?, off.toNat?, n.toNat? with
          | some seed, some off, some n =>
            if seed < 2 ^ 64 ∧ off + n ≤ 2 ^ 28 then
              (genStream kind seed.toUInt64 (off + n)).map (·.drop off)
            else none
          | _, _, _ => none
        else none
      | _ => none
    | _ => none
  | [] => none

def parseSeg (seg : String) : Option Bytes :=
  if seg.startsWith "~" then parseGen (seg.drop 1).toString else
  match seg.splitOn "*" with
  | [h] => parseHex h
  | [u, n] =>
    match parseHex u, (if n.isEmpty ∨ ¬ n.all Char.isDigit then none else n.toNat?) with
    | some u, some n => if u.isEmpty ∨ n > 2 ^ 28 then none else some (cycleTo u n)
    | _, _ => none
  | _ => none

/-- request-side parser: plain hex, or `+`-separated segments. -/
def parseD (s : String) : Option Bytes :=
  if s.contains '*' ∨ s.contains '+' ∨ s.contains '~' then
    ((s.splitOn "+").mapM parseSeg).map List.flatten
  else parseHex s

/-- number of leading positions on which the two lists agree -/
def matchLen : Bytes → Bytes → Nat → Nat
  | a :: as, b :: bs, acc => if a == b then matchLen as bs (acc + 1) else acc
  | _, _, acc => acc

/-- length of the longest `k`-periodic stretch at the head of `l` (0 if `l` has fewer than `k`
bytes) -/
def runLen (l : Bytes) (k : Nat) : Nat :=
  match l.drop (k - 1) with
  | [] => 0
  | _ :: t => k + matchLen t l 0

/-- best period at the head: the longest stretch, the smallest `k` on ties -/
def bestRun (l : Bytes) : Nat × Nat :=
  [1, 2, 3, 4, 5, 6, 7, 8].foldl (fun (bk, bl) k =>
    let n := runLen l k
    if n > bl then (k, n) else (bk, bl)) (0, 0)

def runMin : Nat := 64

/-- greedy segmentation (see `hex` in harness/src/bin/c01.rs); `lit` = pending literal bytes,
reversed; `segs` = finished segments, reversed -/
partial def segments (l : Bytes) (lit : Bytes) (segs : List String) : List String :=
  match l with
  | [] => (if lit.isEmpty then segs else hexOf lit.reverse :: segs).reverse
  | b :: t =>
    let (k, n) := bestRun l
    if n ≥ runMin then
      let segs := if lit.isEmpty then segs else hexOf lit.reverse :: segs
      segments (l.drop n) [] ((hexOf (l.take k) ++ "*" ++ toString n) :: segs)
    else segments t (b :: lit) segs

/-- response-side printer (canonical).  The segmented text is used only if the request-side
parser reads it back as exactly `l` (else plain hex), so whatever this prints denotes `l`: equal
response lines mean equal byte strings, whatever the segmentation does. -/
def hexC (l : Bytes) : String :=
  if (l.take compactMin).length < compactMin then hexOf l
  else
    let segs := segments l [] []
    if segs.any (·.contains '*') then
      let text := "+".intercalate segs
      if parseD text = some l then text else hexOf l
    else hexOf l

def modeOf : String → Option Mode
  | "N" => some .none | "Z" => some .zlib | "4" => some .lz4 | "E" => some .enc | "F" => some .frame
  | _ => none

def errStr : Err → String
  | .compression => "err:compression"
  | .chunkCount => "err:chunk-count"
  | .chunkSize => "err:chunk-size"
  | .unsupported => "err:unsupported"
  | .iv => "err:iv"
  | .nested => "err:nested"
  | .singleEnc => "err:single-enc"
  | .parse => "err:parse"

/-- one point of a parameter's graph: `dOnly = false`: `compress m a = b` (and so `decompress m b
= a`); `dOnly = true`: `decompress m a = b` (`none` = the library refused), for inputs outside the
compressor's range (garbage after decryption with a foreign block index). -/
structure Ent where
  dOnly : Bool
  m : Mode
  a : Bytes
  b : Option Bytes

abbrev Tab := List Ent

def parseTab (s : String) : Option Tab :=
  if s == "-" then some [] else
  (s.splitOn ",").mapM fun ent =>
    match ent.splitOn ":" with
    | [m, p, c] =>
      if m.startsWith "d" then
        match modeOf (m.drop 1).toString, parseD p with
        | some m, some p => if c == "!" then some ⟨true, m, p, none⟩ else (parseD c).map fun c => ⟨true, m, p, some c⟩
        | _, _ => none
      else
        match modeOf m, parseD p, parseD c with
        | some m, some p, some c => some ⟨false, m, p, some c⟩
        | _, _, _ => none
    | _ => none

def codecOf (t : Tab) : Codec where
  compress m x := (t.find? fun e => !e.dOnly ∧ e.m = m ∧ e.a = x).bind (·.b)
  decompress m c :=
    match t.find? fun e => e.dOnly ∧ e.m = m ∧ e.a = c with
    | some e => e.b
    | none => (t.find? fun e => !e.dOnly ∧ e.m = m ∧ e.b = some c).map (·.a)

def parseKeys (s : String) : Option (List (Nat × Bytes)) :=
  if s == "-" then some [] else
  (s.splitOn ",").mapM fun ent =>
    match ent.splitOn ":" with
    | [n, k] =>
      match n.toNat?, parseD k with
      | some n, some k => if k.length = 16 then some (n, k) else none
      | _, _ => none
    | _ => none

/-- `HashMap::insert`: the last entry for a name wins. -/
def keysOf (l : List (Nat × Bytes)) (n : Nat) : Option Bytes :=
  (l.reverse.find? fun e => e.1 = n).map (·.2)

def specOf (et name iv key : String) : Option (EncSpec × Bytes) :=
  match et.toNat?, name.toNat?, parseD iv, parseD key with
  | some et, some name, some iv, some key =>
    if et < 256 ∧ name < 2 ^ 64 ∧ iv.length = 4 ∧ key.length = 16 then
      some (⟨name, iv, BitVec.ofNat 8 et⟩, key)
    else none
  | _, _, _, _ => none

/-- one element of the chunk vector handed to `multi_chunk`: `M:hex` = `ChunkData::new(d, M)?`,
`rM:hex:decl` = `ChunkData::from_compressed(M, d, decl)` (`decl` a number or `-` for `None`). -/
inductive Item
  | new (d : Bytes) (m : Mode)
  | raw (c : Chunk)

def parseItems (s : String) : Option (List Item) :=
  if s == "-" then some [] else
  (s.splitOn ",").mapM fun ent =>
    match ent.splitOn ":" with
    | [m, d] =>
      match modeOf m, parseD d with
      | some m, some d => some (.new d m)
      | _, _ => none
    | [m, d, decl] =>
      if m.startsWith "r" then
        match modeOf (m.drop 1).toString, parseD d with
        | some m, some d =>
          if decl == "-" then some (.raw ⟨m, d, none⟩)
          else decl.toNat?.map fun n => .raw ⟨m, d, some n⟩
        | _, _ => none
      else none
    | _ => none

def allNew : List Item → Option (List (Bytes × Mode))
  | [] => some []
  | .new d m :: rest => (allNew rest).map ((d, m) :: ·)
  | .raw _ :: _ => none

/-- the chunk vector in the order the caller builds it; the first failing `ChunkData::new` is the
caller's error.  A vector of `new` items only is the model's `newChunks`. -/
def itemChunks (cd : Codec) (items : List Item) : Except Err (List Chunk) :=
  match allNew items with
  | some ds => newChunks cd ds
  | none =>
    items.foldr (fun it acc =>
      match (match it with
             | .new d m => Chunk.new cd d m
             | .raw c => .ok c), acc with
      | .error e, _ => .error e
      | .ok _, .error e => .error e
      | .ok c, .ok cs => .ok (c :: cs)) (.ok [])

def outFile : Except Err File → String
  | .ok f => "ok " ++ hexC (serialize f)
  | .error e => errStr e

/-- the builder of the case and the compressor graph its request lines carried so far (the
`#`-ops decode with it, so a container never has to be repeated on a line) -/
structure St where
  b : Option Builder := none
  tab : Tab := []

def stepResp (st : St) (t : Tab) (op : Op) : St × String :=
  let st := { st with tab := st.tab ++ t }
  match st.b with
  | none => ({ st with b := none }, "dead")
  | some b =>
    match step (codecOf t) b op with
    | .ok b' => ({ st with b := some b' }, "ok")
    | .error e => ({ st with b := none }, errStr e)

def rowsLine (f : File) : String :=
  match f.table with
  | none => s!"single chunks={f.chunks.length}"
  | some rows =>
    let rs := rows.map fun r => s!"{r.csize}:{r.dsize}:{hexC r.checksum}"
    s!"table hs={f.headerSize} n={rows.length} " ++ (if rs.isEmpty then "-" else ",".intercalate rs)

/-! digests in the responses of the `#`-ops: length + FNV-1a 64 -/

def fnv1a (b : Bytes) : UInt64 :=
  b.foldl (fun h x => (h ^^^ x.toNat.toUInt64) * 1099511628211) 14695981039346656037

def dig (b : Bytes) : String := "#" ++ toString b.length ++ ":" ++ hexFixed 16 (fnv1a b).toNat

def digBytes : Except Err Bytes → String
  | .ok b => "ok " ++ dig b
  | .error e => errStr e

/-- answer of a `#`-op for a serialised container (see `digest_views` in the harness) -/
def digestViews (cd : Codec) (keys : Nat → Option Bytes) (bytes : Bytes) : String :=
  let p := parse bytes
  "ok c=" ++ dig bytes ++ " | dec " ++
    digBytes (match p with | .ok f => decode cd keys f | .error e => .error e) ++ " | " ++
    (match p with | .ok f => rowsLine f | .error e => errStr e)

def outFileDigest (cd : Codec) : Except Err File → String
  | .ok f => digestViews cd (fun _ => none) (serialize f)
  | .error e => errStr e

def outBytes : Except Err Bytes → String
  | .ok b => "ok " ++ hexC b
  | .error e => errStr e

def handle (st : St) : List String → St × String
  | ["begin"] => ({ b := some Builder.init, tab := [] }, "ok")
  | ["mode", m] =>
    match modeOf m with
    | some m => stepResp st [] (.withCompression m)
    | none => (st, "bad-op")
  | ["cs", n] =>
    match n.toNat? with
    | some n => stepResp st [] (.withChunkSize n)
    | none => (st, "bad-op")
  | ["csv", n] =>
    match n.toNat? with
    | some n => stepResp st [] (.withChunkSizeChecked n)
    | none => (st, "bad-op")
  | ["enc", et, name, iv, key] =>
    match specOf et name iv key with
    | some (s, k) => stepResp st [] (.withEncryption s k)
    | none => (st, "bad-op")
  | ["noenc"] => stepResp st [] .withoutEncryption
  | ["add", d, tab] =>
    match parseD d, parseTab tab with
    | some d, some t => stepResp st t (.addData d)
    | _, _ => (st, "bad-op")
  | ["mixed", d, "none", tab] =>
    match parseD d, parseTab tab with
    | some d, some t => stepResp st t (.addMixed d none)
    | _, _ => (st, "bad-op")
  | ["mixed", d, et, name, iv, key, tab] =>
    match parseD d, specOf et name iv key, parseTab tab with
    | some d, some e, some t => stepResp st t (.addMixed d (some e))
    | _, _, _ => (st, "bad-op")
  | ["encdata", d, et, name, iv, key, idx, tab] =>
    match parseD d, specOf et name iv key, idx.toNat?, parseTab tab with
    | some d, some (s, k), some idx, some t => stepResp st t (.addEncrypted d s k idx)
    | _, _, _, _ => (st, "bad-op")
  | ["chunk", m, d, tab] =>
    match modeOf m, parseD d, parseTab tab with
    | some m, some d, some t => stepResp st t (.addChunkNew d m)
    | _, _, _ => (st, "bad-op")
  -- chunk-COUNT family: `add_chunk(ChunkData::new(piece, m)?)` for every `k`-byte piece of `d`
  -- (the slices of the same `while offset < len` loop), answered by the first answer that is not
  -- `ok`; a request line of ~30 bytes reaches 65536 and more `add_chunk` calls
  | ["chunks", m, d, k, tab] =>
    match modeOf m, parseD d, k.toNat?, parseTab tab with
    | some m, some d, some k, some t =>
      if k = 0 then (st, "bad-op") else
      let cd := codecOf t
      (splitLoop k d.length d).foldl (fun (acc : St × String) pc =>
        if acc.2 != "ok" then acc else
        match acc.1.b with
        | none => ({ acc.1 with b := none }, "dead")
        | some b =>
          match step cd b (.addChunkNew pc m) with
          | .ok b' => ({ acc.1 with b := some b' }, "ok")
          | .error e => ({ acc.1 with b := none }, errStr e))
        ({ st with tab := st.tab ++ t }, "ok")
    | _, _, _, _ => (st, "bad-op")
  -- the table writers on `ChunkData::new` chunks of every `k`-byte piece of `d`:
  -- `BlteFile::multi_chunk` (`std`) / `BlteHeader::multi_chunk_extended` (`ext`), answered with digests
  | ["multi#", fmt, m, d, k, tab] =>
    match modeOf m, parseD d, k.toNat?, parseTab tab with
    | some m, some d, some k, some t =>
      if k = 0 ∨ (fmt != "std" ∧ fmt != "ext") then (st, "bad-op") else
      match newChunks (codecOf t) ((splitLoop k d.length d).map (·, m)) with
      | .error e => (st, errStr e)
      | .ok chunks =>
        if fmt == "std" then (st, outFileDigest (codecOf t) (multiChunk Spec.Md5.md5 chunks))
        else
          match multiChunkExt (codecOf t) Spec.Md5.md5 chunks with
          | .ok xf => (st, digestViews (codecOf t) (fun _ => none) (serializeX xf))
          | .error e => (st, errStr e)
    | _, _, _, _ => (st, "bad-op")
  | ["build"] =>
    match st.b with
    | none => ({ st with b := none }, "dead")
    | some b =>
      match build Spec.Md5.md5 b with
      | .ok f => ({ st with b := none }, "ok " ++ hexC (serialize f))
      | .error e => ({ st with b := none }, errStr e)
  | ["build#", keys, tab] =>
    match parseKeys keys, parseTab tab with
    | some ks, some t =>
      match st.b with
      | none => ({ st with b := none }, "dead")
      | some b =>
        match build Spec.Md5.md5 b with
        | .ok f => ({ st with b := none }, digestViews (codecOf (st.tab ++ t)) (keysOf ks) (serialize f))
        | .error e => ({ st with b := none }, errStr e)
    | _, _ => (st, "bad-op")
  | ["dec", f, keys, tab] =>
    match parseD f, parseKeys keys, parseTab tab with
    | some f, some ks, some t =>
      (st, outBytes (decodeBytes (codecOf t) (keysOf ks) f))
    | _, _, _ => (st, "bad-op")
  | ["decplain", f, tab] =>
    match parseD f, parseTab tab with
    | some f, some t =>
      (st, outBytes (decodePlainBytes (codecOf t) f))
    | _, _ => (st, "bad-op")
  | ["compress", cs, m, d, tab] =>
    match cs.toNat?, modeOf m, parseD d, parseTab tab with
    | some cs, some m, some d, some t => (st, outFile (compress (codecOf t) Spec.Md5.md5 d cs m))
    | _, _, _, _ => (st, "bad-op")
  | ["compress#", cs, m, d, tab] =>
    match cs.toNat?, modeOf m, parseD d, parseTab tab with
    | some cs, some m, some d, some t =>
      (st, outFileDigest (codecOf t) (compress (codecOf t) Spec.Md5.md5 d cs m))
    | _, _, _, _ => (st, "bad-op")
  | ["single", m, d, tab] =>
    match modeOf m, parseD d, parseTab tab with
    | some m, some d, some t => (st, outFile (singleChunk (codecOf t) d m))
    | _, _, _ => (st, "bad-op")
  | ["single#", m, d, tab] =>
    match modeOf m, parseD d, parseTab tab with
    | some m, some d, some t => (st, outFileDigest (codecOf t) (singleChunk (codecOf t) d m))
    | _, _, _ => (st, "bad-op")
  | ["multi", fmt, items, tab] =>
    match parseItems items, parseTab tab with
    | some items, some t =>
      match itemChunks (codecOf t) items with
      | .error e => (st, errStr e)
      | .ok chunks =>
        if fmt == "std" then (st, outFile (multiChunk Spec.Md5.md5 chunks))
        else if fmt == "ext" then
          match multiChunkExt (codecOf t) Spec.Md5.md5 chunks with
          | .ok xf => (st, "ok " ++ hexC (serializeX xf))
          | .error e => (st, errStr e)
        else (st, "bad-op")
    | _, _ => (st, "bad-op")
  | ["rows", f] =>
    match parseD f with
    | some f =>
      match parse f with
      | .ok file => (st, rowsLine file)
      | .error e => (st, errStr e)
    | none => (st, "bad-op")
  -- an oracle-only case (chunks of up to 16 MiB + 1 of generated content): the request names the
  -- input for the harness and the replay, the model does not evaluate it; both sides answer this
  | "big" :: _ => (st, "oracle-only")
  | _ => (st, "bad-op")

def main : IO Unit := do
  loopState (← IO.getStdin) (← IO.getStdout) handle ({} : St)
