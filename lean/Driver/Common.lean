/-
Driver/Common — line-protocol plumbing shared by all per-property drivers.
One request per line, one response per line. Byte strings are lower-case hex, the empty string
is written `-`. A malformed request is answered `bad-op` (never defaulted).
-/
import Cascette.Base.Bytes
namespace Drv
open Cascette

def hexDigit (c : Char) : Option Nat :=
  if '0' ≤ c ∧ c ≤ '9' then some (c.toNat - '0'.toNat)
  else if 'a' ≤ c ∧ c ≤ 'f' then some (c.toNat - 'a'.toNat + 10)
  else if 'A' ≤ c ∧ c ≤ 'F' then some (c.toNat - 'A'.toNat + 10)
  else none

def parseHexChars : List Char → Option (List Nat)
  | [] => some []
  | [_] => none
  | a :: b :: rest =>
    match hexDigit a, hexDigit b, parseHexChars rest with
    | some x, some y, some r => some ((16 * x + y) :: r)
    | _, _, _ => none

/-- hex → bytes as naturals; `-` is the empty string. -/
def parseHexNat (s : String) : Option (List Nat) :=
  if s == "-" then some [] else parseHexChars s.toList

def parseHex (s : String) : Option Bytes :=
  (parseHexNat s).map (·.map (BitVec.ofNat 8))

def hexChar (n : Nat) : Char :=
  if n < 10 then Char.ofNat ('0'.toNat + n) else Char.ofNat ('a'.toNat + n - 10)

def hexOfNats (l : List Nat) : String :=
  if l.isEmpty then "-" else
  String.ofList (l.foldr (fun n acc => hexChar (n / 16 % 16) :: hexChar (n % 16) :: acc) [])

def hexOf (b : Bytes) : String := hexOfNats (b.map (·.toNat))

/-- fixed-width lower-case hex of a natural (`digits` hex digits). -/
def hexFixed (digits : Nat) (n : Nat) : String :=
  String.ofList ((List.range digits).reverse.map fun i => hexChar (n / 16 ^ i % 16))

def tokens (line : String) : List String :=
  (line.trimAscii.toString.splitOn " ").filter (· ≠ "")

/-- stateless loop: one response per request line. -/
partial def loopPure (h : IO.FS.Stream) (out : IO.FS.Stream) (f : List String → String) : IO Unit := do
  let line ← h.getLine
  if line.isEmpty then return ()
  out.putStrLn (f (tokens line))
  loopPure h out f

/-- stateful loop. -/
partial def loopState {σ : Type} (h : IO.FS.Stream) (out : IO.FS.Stream)
    (f : σ → List String → σ × String) (s : σ) : IO Unit := do
  let line ← h.getLine
  if line.isEmpty then return ()
  let (s', r) := f s (tokens line)
  out.putStrLn r
  loopState h out f s'

end Drv
