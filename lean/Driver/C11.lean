/-
Driver/C11 — runs the concurrent model of MemoryCache (Model/MemConc over Spec/Interleave) on
protocol lines. One line = one complete case:

  run max=<n> pol=lru|fifo pre=<ops> t=<ops>|<ops>[|<ops>] s=<digits>

<ops> = `-` or comma-separated: g<k> get, c<k> contains, r<k> remove, z clear,
p<k>:<hex> put (long TTL), x<k>:<hex> put_with_ttl whose TTL is over at the next access,
w<digits> one tick of the background cleanup task of `new_with_cleanup` (`Op.sweep`; the digits
= the keys in the order the real map iteration handed them out, which only orders the expired
keys the model finds itself; sites u / v / w = before remove_if / entry_count / memory_usage).
`pre` runs alone before the threads exist; `s` is the schedule (thread index per step; an entry
naming a finished thread is skipped); when it ends early the lowest-numbered unfinished thread
runs until all have finished.  Answer:

  pre=<answers> r=<answers t0>|<answers t1>… tr=<sites>/<drain> n=<entry_count> b=<memory_usage> m=<contents>

answers: v<hex> | none | t | f | ok;  <sites>: the schedule point each step ended at (Pc.site),
`-` for a skipped entry; <drain>: thread digit + site per drain step;  counters as the 64-bit
words the Rust reports;  contents sorted by key, `k:<hex>` or `k:x<size>` for an entry whose TTL
has ended.

DiskCache under the controller (Model/DiskConc), one case per line as well:

  drun keys=<cache key string>,… pre=<ops> t=<ops>|<ops>[|<ops>] s=<digits>
  -> pre=<answers> r=<answers>|… tr=<sites>/<drain> n=<entry_count> b=<disk_usage> c=<t/f per key>
     fs=<file name>=<hex>;… g=<get answer per key> n2=<entry_count> b2=<disk_usage>

ops as above without `z`; key `i` is the i-th string of `keys=`; its file is that string, its
temporary file is `Model/Path.withExtTmp` of it (C20's model of `Path::with_extension("tmp")`).
After the schedule the books are read (`n`, `b`), then `contains` of every key (`c`), then the
directory listing sorted by name (`fs`), then `get` of every key in order, alone (`g`), then the
books again (`n2`, `b2`).  answers additionally: err.

  dstress …  -> oracle-only     (free-running DynamicContainer stress round of the harness: no
                                 model, the line only keeps request and answer streams aligned)

MultiLayerCacheImpl over two MemoryCache layers under the controller (Model/MultiConc):

  mlrun layers=mm pre=<ops> t=<ops>|<ops>[|<ops>] s=<digits>
  -> pre=<answers> r=<answers>|… tr=<sites>/<drain> l0=<entry_count>/<memory_usage>/<contents>
     l1=<entry_count>/<memory_usage>/<contents> tk=<keys with a promotion tracker>

ops: g<k> c<k> r<k> z as above, p<k>:<hex> put, u<k>:<hex> put_to_layer(k, v, 0), l<k>:<hex>
put_to_layer(k, v, 1).  Both layers: max_entries 1000, no byte limit, LRU, long default TTL.
Sites: the layer's own letter inside a per-layer call, I / J / N / R / Z = returned from the
layer's get / put / contains / remove / clear (`ml.layer.after_<op>`).
  mlrun layers=md …  -> oracle-only   (memory above disk: not modelled)
-/
import Driver.Common
import Cascette.Model.MemConc
import Cascette.Model.MultiConc
import Cascette.Model.DiskConc
import Cascette.Model.Path
open Cascette Drv
open Cascette.Model
open Cascette.Model.MemConc
open Cascette.Spec.Interleave

def kv (pre : String) (t : String) : Option String :=
  if t.startsWith pre then some (t.drop pre.length).toString else none

def parseOp (t : String) : Option Op :=
  match t.toList with
  | 'g' :: r => (String.ofList r).toNat?.map .get
  | 'c' :: r => (String.ofList r).toNat?.map .contains
  | 'r' :: r => (String.ofList r).toNat?.map .remove
  | ['z'] => some .clear
  | 'w' :: r =>
    -- one tick of the cleanup task; the digits are the order in which the map iteration of
    -- the real run handed out the keys it collected
    if r.all (fun c => decide ('0' ≤ c ∧ c ≤ '9')) then some (.sweep (r.map (fun c => c.toNat - '0'.toNat)))
    else none
  | c :: r =>
    if c = 'p' ∨ c = 'x' then
      match (String.ofList r).splitOn ":" with
      | [k, h] =>
        match k.toNat?, parseHexNat h with
        | some k, some v => some (.put k v (c = 'x'))
        | _, _ => none
      | _ => none
    else none
  | [] => none

def parseOps (s : String) : Option (List Op) :=
  if s == "-" then some [] else
  (s.splitOn ",").foldr (fun t acc => match parseOp t, acc with
    | some o, some l => some (o :: l)
    | _, _ => none) (some [])

def parseProgs (s : String) : Option (List (List Op)) :=
  (s.splitOn "|").foldr (fun t acc => match parseOps t, acc with
    | some o, some l => some (o :: l)
    | _, _ => none) (some [])

def parseSched (s : String) : Option (List Nat) :=
  if s == "-" then some [] else
  s.toList.foldr (fun c acc => match acc with
    | some l => if '0' ≤ c ∧ c ≤ '9' then some ((c.toNat - '0'.toNat) :: l) else none
    | none => none) (some [])

def showOut : Out → String
  | .val (some v) => "v" ++ hexOfNats v
  | .val none => "none"
  | .bool true => "t"
  | .bool false => "f"
  | .unit => "ok"

def showResults (t : Thread) : String :=
  if t.results.isEmpty then "-" else ",".intercalate (t.results.map (fun r => showOut r.2))

def insKey (x : Nat × MemCache.Entry) : List (Nat × MemCache.Entry) → List (Nat × MemCache.Entry)
  | [] => [x]
  | y :: t => if x.1 < y.1 then x :: y :: t else y :: insKey x t

def showStore (st : MemCache.Store) : String :=
  let l := st.foldr insKey []
  if l.isEmpty then "-" else
  ",".intercalate (l.map (fun p => toString p.1 ++ ":" ++
    (if p.2.short then "x" ++ toString p.2.size else hexOfNats p.2.val)))

def siteAt (y : Sys MemCache.State Thread Ev) (i : Nat) : Char :=
  match y.threads[i]? with
  | some t => t.site
  | none => '?'

/-! ## DiskCache -/

namespace DiskDrv
open Cascette.Model.DiskConc

def parseOp (t : String) : Option DiskConc.Op :=
  match t.toList with
  | 'g' :: r => (String.ofList r).toNat?.map .get
  | 'c' :: r => (String.ofList r).toNat?.map .contains
  | 'r' :: r => (String.ofList r).toNat?.map .remove
  | c :: r =>
    if c = 'p' ∨ c = 'x' then
      match (String.ofList r).splitOn ":" with
      | [k, h] =>
        match k.toNat?, parseHexNat h with
        | some k, some v => some (.put k v (c = 'x'))
        | _, _ => none
      | _ => none
    else none
  | [] => none

def opKey : DiskConc.Op → Nat
  | .get k => k | .contains k => k | .put k _ _ => k | .remove k => k

def parseOps (s : String) : Option (List DiskConc.Op) :=
  if s == "-" then some [] else
  (s.splitOn ",").foldr (fun t acc => match parseOp t, acc with
    | some o, some l => some (o :: l)
    | _, _ => none) (some [])

def parseProgs (s : String) : Option (List (List DiskConc.Op)) :=
  (s.splitOn "|").foldr (fun t acc => match parseOps t, acc with
    | some o, some l => some (o :: l)
    | _, _ => none) (some [])

/-- `path.with_extension("tmp")` on a bare file name, by C20's model -/
def tmpName (name : String) : String :=
  match Cascette.Model.Path.withExtTmp [name.toList] with
  | [c] => String.ofList c
  | _ => name

def idxOf (names : List String) (x : String) : Nat :=
  match names.findIdx? (· == x) with
  | some i => i
  | none => names.length

def showOut : DiskConc.Out → String
  | .val (some v) => "v" ++ hexOfNats v
  | .val none => "none"
  | .bool true => "t"
  | .bool false => "f"
  | .unit => "ok"
  | .err => "err"

def showResults (t : DiskConc.Thread) : String :=
  if t.results.isEmpty then "-" else ",".intercalate (t.results.map (fun r => showOut r.2))

def siteAt (y : Sys DiskConc.State DiskConc.Thread Unit) (i : Nat) : Char :=
  match y.threads[i]? with
  | some t => t.site
  | none => '?'

def insStr (x : String × String) : List (String × String) → List (String × String)
  | [] => [x]
  | y :: t => if x.1 < y.1 then x :: y :: t else y :: insStr x t

def showFs (paths : List String) (fs : DiskConc.Fs) : String :=
  let l := fs.dir.map (fun p => (paths.getD p.1 "?", match fs.inodes[p.2]? with
                                                      | some v => hexOfNats v
                                                      | none => "?"))
  let l := l.foldr insStr []
  if l.isEmpty then "-" else ";".intercalate (l.map (fun p => p.1 ++ "=" ++ p.2))

def finish (m : Machine DiskConc.State DiskConc.Thread Unit) :
    Nat → Sys DiskConc.State DiskConc.Thread Unit → List Char →
    Sys DiskConc.State DiskConc.Thread Unit × List Char
  | 0, y, acc => (y, acc)
  | f + 1, y, acc =>
    match firstLive m y.threads 0 with
    | none => (y, acc)
    | some i =>
      let y' := stepAt m y i
      finish m f y' (siteAt y' i :: Char.ofNat ('0'.toNat + i) :: acc)

def handle (keys pre ts sc : String) : String :=
  let names := keys.splitOn ","
  match parseOps pre, parseProgs ts, parseSched sc with
  | some pre, some progs, some sched =>
    let nk := names.length
    if names.any (· == "") ∨ progs.length > 9 ∨
       (pre :: progs).any (fun p => p.any (fun op => decide (opKey op ≥ nk))) then "bad-op" else
    let tmps := names.map tmpName
    let paths := (names ++ tmps).eraseDups
    let L : Layout := { fin := fun k => idxOf paths (names.getD k ""), tmp := fun k => idxOf paths (tmps.getD k "") }
    let m := DiskConc.machine L
    let y0 := (drain m 100000 (DiskConc.sys DiskConc.init [pre])).1
    let preT := match y0.threads with | t :: _ => showResults t | [] => "-"
    let y1 := DiskConc.sys y0.shared progs
    let (y2, tr) := sched.foldl (fun (acc : Sys DiskConc.State DiskConc.Thread Unit × List Char) i =>
      match acc.1.threads[i]? with
      | none => (acc.1, '-' :: acc.2)
      | some t =>
        if t.done then (acc.1, '-' :: acc.2) else
        let y' := stepAt m acc.1 i
        (y', siteAt y' i :: acc.2)) (y1, [])
    let (y3, dr) := finish m 100000 y2 []
    let s := y3.shared
    let ks := List.range nk
    let yc := (drain m 100000 (DiskConc.sys s [ks.map .contains])).1
    let cT := match yc.threads with | t :: _ => String.ofList (t.results.map (fun r => match r.2 with | .bool true => 't' | _ => 'f')) | [] => ""
    let yg := (drain m 100000 (DiskConc.sys s [ks.map .get])).1
    let gT := match yg.threads with | t :: _ => showResults t | [] => "-"
    "pre=" ++ preT ++ " r=" ++ "|".intercalate (y3.threads.map showResults) ++
      " tr=" ++ String.ofList tr.reverse ++ "/" ++ String.ofList dr.reverse ++
      " n=" ++ toString (wrap s.count) ++ " b=" ++ toString (wrap s.bytes) ++
      " c=" ++ cT ++ " fs=" ++ showFs paths s.fs ++ " g=" ++ gT ++
      " n2=" ++ toString (wrap yg.shared.count) ++ " b2=" ++ toString (wrap yg.shared.bytes)
  | _, _, _ => "bad-op"

end DiskDrv

/-! ## MultiLayerCacheImpl -/

namespace MlDrv
open Cascette.Model.MultiConc

def parseOp (t : String) : Option MOp :=
  match t.toList with
  | 'g' :: r => (String.ofList r).toNat?.map .get
  | 'c' :: r => (String.ofList r).toNat?.map .contains
  | 'r' :: r => (String.ofList r).toNat?.map .remove
  | ['z'] => some .clear
  | c :: r =>
    if c = 'p' ∨ c = 'u' ∨ c = 'l' then
      match (String.ofList r).splitOn ":" with
      | [k, h] =>
        match k.toNat?, parseHexNat h with
        | some k, some v => some (if c = 'p' then .put k v else .putTo k v (if c = 'u' then 0 else 1))
        | _, _ => none
      | _ => none
    else none
  | [] => none

def opKey : MOp → Nat
  | .get k => k | .contains k => k | .put k _ => k | .remove k => k | .clear => 0 | .putTo k _ _ => k

def parseOps (s : String) : Option (List MOp) :=
  if s == "-" then some [] else
  (s.splitOn ",").foldr (fun t acc => match parseOp t, acc with
    | some o, some l => some (o :: l)
    | _, _ => none) (some [])

def parseProgs (s : String) : Option (List (List MOp)) :=
  (s.splitOn "|").foldr (fun t acc => match parseOps t, acc with
    | some o, some l => some (o :: l)
    | _, _ => none) (some [])

def showOut : MOut → String
  | .val (some v) => "v" ++ hexOfNats v
  | .val none => "none"
  | .bool true => "t"
  | .bool false => "f"
  | .unit => "ok"
  | .badLayer => "err"

def showResults (t : MThread) : String :=
  if t.results.isEmpty then "-" else ",".intercalate (t.results.map (fun r => showOut r.2))

def siteAt (y : Sys MState MThread Unit) (i : Nat) : Char :=
  match y.threads[i]? with
  | some t => t.site
  | none => '?'

def showLayer (s : MemCache.State) : String :=
  toString (wrap s.count) ++ "/" ++ toString (wrap s.bytes) ++ "/" ++ showStore s.store

def finish (m : Machine MState MThread Unit) :
    Nat → Sys MState MThread Unit → List Char → Sys MState MThread Unit × List Char
  | 0, y, acc => (y, acc)
  | f + 1, y, acc =>
    match firstLive m y.threads 0 with
    | none => (y, acc)
    | some i =>
      let y' := stepAt m y i
      finish m f y' (siteAt y' i :: Char.ofNat ('0'.toNat + i) :: acc)

/-- the configuration of both layers of the run -/
def cfg : MemCache.Config := { maxEntries := 1000, maxBytes := none, policy := .lru, defaultShort := false }

def handle (pre ts sc : String) : String :=
  match parseOps pre, parseProgs ts, parseSched sc with
  | some pre, some progs, some sched =>
    -- the harness uses keys 0..3
    if progs.length > 9 ∨ (pre :: progs).any (fun p => p.any (fun op => decide (opKey op ≥ 4))) then "bad-op" else
    let m := MultiConc.machine cfg (detVic cfg)
    let y0 := (drain m 100000 (MultiConc.sys (MultiConc.init 2) [pre])).1
    let preT := match y0.threads with | t :: _ => showResults t | [] => "-"
    let y1 := MultiConc.sys y0.shared progs
    let (y2, tr) := sched.foldl (fun (acc : Sys MState MThread Unit × List Char) i =>
      match acc.1.threads[i]? with
      | none => (acc.1, '-' :: acc.2)
      | some t =>
        if t.done then (acc.1, '-' :: acc.2) else
        let y' := stepAt m acc.1 i
        (y', siteAt y' i :: acc.2)) (y1, [])
    let (y3, dr) := finish m 100000 y2 []
    let s := y3.shared
    let lays := (List.range s.layers.length).zip s.layers
    "pre=" ++ preT ++ " r=" ++ "|".intercalate (y3.threads.map showResults) ++
      " tr=" ++ String.ofList tr.reverse ++ "/" ++ String.ofList dr.reverse ++
      String.join (lays.map (fun p => " l" ++ toString p.1 ++ "=" ++ showLayer p.2)) ++
      " tk=" ++ toString s.tracked.length
  | _, _, _ => "bad-op"

end MlDrv

def handle (toks : List String) : String :=
  match toks with
  | "dstress" :: _ => "oracle-only"
  | ["mlrun", lay, pre, ts, sc] =>
    match kv "layers=" lay, kv "pre=" pre, kv "t=" ts, kv "s=" sc with
    | some "md", some pre, some ts, some sc =>
      match MlDrv.parseOps pre, MlDrv.parseProgs ts, parseSched sc with
      | some pre, some progs, some _ =>
        if progs.length > 9 ∨ (pre :: progs).any (fun p => p.any (fun op => decide (MlDrv.opKey op ≥ 4))) then "bad-op"
        else "oracle-only"
      | _, _, _ => "bad-op"
    | some "mm", some pre, some ts, some sc => MlDrv.handle pre ts sc
    | _, _, _, _ => "bad-op"
  | ["drun", keys, pre, ts, sc] =>
    match kv "keys=" keys, kv "pre=" pre, kv "t=" ts, kv "s=" sc with
    | some keys, some pre, some ts, some sc => DiskDrv.handle keys pre ts sc
    | _, _, _, _ => "bad-op"
  | ["run", mx, pol, pre, ts, sc] =>
    match (kv "max=" mx).bind (·.toNat?), kv "pol=" pol, (kv "pre=" pre).bind parseOps,
          (kv "t=" ts).bind parseProgs, (kv "s=" sc).bind parseSched with
    | some mx, some pol, some pre, some progs, some sched =>
      let policy : Option MemCache.Policy := match pol with
        | "lru" => some .lru | "fifo" => some .fifo | _ => none
      match policy with
      | none => "bad-op"
      | some policy =>
      -- one cleanup task per cache: sweeps are the operations of at most one thread
      let isSweep : Op → Bool := fun op => match op with | .sweep _ => true | _ => false
      if mx = 0 ∨ progs.length > 9 ∨ (progs.filter (·.any isSweep)).length > 1 then "bad-op" else
      let cfg : MemCache.Config := { maxEntries := mx, maxBytes := none, policy := policy, defaultShort := false }
      let m := machine cfg (detVic cfg)
      -- the operations of `pre` run alone, to completion
      let y0 := (drain m 100000 (sys MemCache.init [pre])).1
      let preT := match y0.threads with | t :: _ => showResults t | [] => "-"
      let y1 : Sys MemCache.State Thread Ev := sys y0.shared progs
      let (y2, tr) := sched.foldl (fun (acc : Sys MemCache.State Thread Ev × List Char) i =>
        match acc.1.threads[i]? with
        | none => (acc.1, '-' :: acc.2)
        | some t =>
          if t.done then (acc.1, '-' :: acc.2) else
          let y' := stepAt m acc.1 i
          (y', siteAt y' i :: acc.2)) (y1, [])
      -- complete the schedule: lowest-numbered unfinished thread first
      let rec finish (fuel : Nat) (y : Sys MemCache.State Thread Ev) (acc : List Char) :
          Sys MemCache.State Thread Ev × List Char :=
        match fuel with
        | 0 => (y, acc)
        | f + 1 =>
          match firstLive m y.threads 0 with
          | none => (y, acc)
          | some i =>
            let y' := stepAt m y i
            finish f y' (siteAt y' i :: Char.ofNat ('0'.toNat + i) :: acc)
      let (y3, dr) := finish 100000 y2 []
      "pre=" ++ preT ++ " r=" ++ "|".intercalate (y3.threads.map showResults) ++
        " tr=" ++ String.ofList tr.reverse ++ "/" ++ String.ofList dr.reverse ++
        " n=" ++ toString (wrap y3.shared.count) ++ " b=" ++ toString (wrap y3.shared.bytes) ++
        " m=" ++ showStore y3.shared.store
    | _, _, _, _, _ => "bad-op"
  | _ => "bad-op"

def main : IO Unit := do
  loopPure (← IO.getStdin) (← IO.getStdout) handle
