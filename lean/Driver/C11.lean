/-
Driver/C11 — runs the concurrent model of MemoryCache (Model/MemConc over Spec/Interleave) on
protocol lines. One line = one complete case:

  run max=<n> pol=lru|fifo pre=<ops> t=<ops>|<ops>[|<ops>] s=<digits>

<ops> = `-` or comma-separated: g<k> get, c<k> contains, r<k> remove, z clear,
p<k>:<hex> put (long TTL), x<k>:<hex> put_with_ttl whose TTL is over at the next access.
`pre` runs alone before the threads exist; `s` is the schedule (thread index per step; an entry
naming a finished thread is skipped); when it ends early the lowest-numbered unfinished thread
runs until all have finished.  Answer:

  pre=<answers> r=<answers t0>|<answers t1>… tr=<sites>/<drain> n=<entry_count> b=<memory_usage> m=<contents>

answers: v<hex> | none | t | f | ok;  <sites>: the schedule point each step ended at (Pc.site),
`-` for a skipped entry; <drain>: thread digit + site per drain step;  counters as the 64-bit
words the Rust reports;  contents sorted by key, `k:<hex>` or `k:x<size>` for an entry whose TTL
has ended.
-/
import Driver.Common
import Cascette.Model.MemConc
open Cascette Drv
open Cascette.Model
open Cascette.Model.MemConc
open Cascette.Spec.Interleave

def kv (pre : String) (t : String) : Option String :=
  if t.startsWith pre then some (t.drop pre.length).toString else none

def parseOp (t : String) : Option Op :=
  match t.toList with
  | 'g' :: r => (String.ofList r).toNat?.map .get
  | 'c' :: r => (String.ofList r).toNat?.map .contains
  | 'r' :: r => (String.ofList r).toNat?.map .remove
  | ['z'] => some .clear
  | c :: r =>
    if c = 'p' ∨ c = 'x' then
      match (String.ofList r).splitOn ":" with
      | [k, h] =>
        match k.toNat?, parseHexNat h with
        | some k, some v => some (.put k v (c = 'x'))
        | _, _ => none
      | _ => none
    else none
  | [] => none

def parseOps (s : String) : Option (List Op) :=
  if s == "-" then some [] else
  (s.splitOn ",").foldr (fun t acc => match parseOp t, acc with
    | some o, some l => some (o :: l)
    | _, _ => none) (some [])

def parseProgs (s : String) : Option (List (List Op)) :=
  (s.splitOn "|").foldr (fun t acc => match parseOps t, acc with
    | some o, some l => some (o :: l)
    | _, _ => none) (some [])

def parseSched (s : String) : Option (List Nat) :=
  if s == "-" then some [] else
  s.toList.foldr (fun c acc => match acc with
    | some l => if '0' ≤ c ∧ c ≤ '9' then some ((c.toNat - '0'.toNat) :: l) else none
    | none => none) (some [])

def showOut : Out → String
  | .val (some v) => "v" ++ hexOfNats v
  | .val none => "none"
  | .bool true => "t"
  | .bool false => "f"
  | .unit => "ok"

def showResults (t : Thread) : String :=
  if t.results.isEmpty then "-" else ",".intercalate (t.results.map (fun r => showOut r.2))

def insKey (x : Nat × MemCache.Entry) : List (Nat × MemCache.Entry) → List (Nat × MemCache.Entry)
  | [] => [x]
  | y :: t => if x.1 < y.1 then x :: y :: t else y :: insKey x t

def showStore (st : MemCache.Store) : String :=
  let l := st.foldr insKey []
  if l.isEmpty then "-" else
  ",".intercalate (l.map (fun p => toString p.1 ++ ":" ++
    (if p.2.short then "x" ++ toString p.2.size else hexOfNats p.2.val)))

def siteAt (y : Sys MemCache.State Thread Ev) (i : Nat) : Char :=
  match y.threads[i]? with
  | some t => t.site
  | none => '?'

def handle (toks : List String) : String :=
  match toks with
  | ["run", mx, pol, pre, ts, sc] =>
    match (kv "max=" mx).bind (·.toNat?), kv "pol=" pol, (kv "pre=" pre).bind parseOps,
          (kv "t=" ts).bind parseProgs, (kv "s=" sc).bind parseSched with
    | some mx, some pol, some pre, some progs, some sched =>
      let policy : Option MemCache.Policy := match pol with
        | "lru" => some .lru | "fifo" => some .fifo | _ => none
      match policy with
      | none => "bad-op"
      | some policy =>
      if mx = 0 ∨ progs.length > 9 then "bad-op" else
      let cfg : MemCache.Config := { maxEntries := mx, maxBytes := none, policy := policy, defaultShort := false }
      let m := machine cfg (detVic cfg)
      -- the operations of `pre` run alone, to completion
      let y0 := (drain m 100000 (sys MemCache.init [pre])).1
      let preT := match y0.threads with | t :: _ => showResults t | [] => "-"
      let y1 : Sys MemCache.State Thread Ev := sys y0.shared progs
      let (y2, tr) := sched.foldl (fun (acc : Sys MemCache.State Thread Ev × List Char) i =>
        match acc.1.threads[i]? with
        | none => (acc.1, '-' :: acc.2)
        | some t =>
          if t.done then (acc.1, '-' :: acc.2) else
          let y' := stepAt m acc.1 i
          (y', siteAt y' i :: acc.2)) (y1, [])
      -- complete the schedule: lowest-numbered unfinished thread first
      let rec finish (fuel : Nat) (y : Sys MemCache.State Thread Ev) (acc : List Char) :
          Sys MemCache.State Thread Ev × List Char :=
        match fuel with
        | 0 => (y, acc)
        | f + 1 =>
          match firstLive m y.threads 0 with
          | none => (y, acc)
          | some i =>
            let y' := stepAt m y i
            finish f y' (siteAt y' i :: Char.ofNat ('0'.toNat + i) :: acc)
      let (y3, dr) := finish 100000 y2 []
      "pre=" ++ preT ++ " r=" ++ "|".intercalate (y3.threads.map showResults) ++
        " tr=" ++ String.ofList tr.reverse ++ "/" ++ String.ofList dr.reverse ++
        " n=" ++ toString (wrap y3.shared.count) ++ " b=" ++ toString (wrap y3.shared.bytes) ++
        " m=" ++ showStore y3.shared.store
    | _, _, _, _, _ => "bad-op"
  | _ => "bad-op"

def main : IO Unit := do
  loopPure (← IO.getStdin) (← IO.getStdout) handle
