/-
Driver/C13 — runs the executable models of the version-service client (Model/Fallback,
Model/TcpRead) on the protocol lines of harness/src/bin/c13.rs.

Behaviours of the mock servers are turned into what the endpoint DELIVERS (Model/VersionWire):
the very bytes the mock serves (documents, MIME wrapping with its SHA-256 checksum, an HTML page,
cut documents, raw bodies given in hex on the line) or a transport failure. Whether those bytes
are a well-formed answer is decided by the parser model (C15's Model/Bpsv, Model/RibbitFmt), not
by a table. What remains a table is `reqwestFlags` / `TcpWire.fail`: which `reqwest::Error`
predicates (and which `ProtocolError` of the TCP client) a refused, dropped, stalled connection
produces — the stated law of `reqwest`/`tokio`, exercised against the real libraries by every run
(`httperr` lines probe each class on its own).

`dl` lines run Model/CdnDownload.download on the same per-client cache model. Answers and CDN
objects live in two `CState`s here because their contents have different types; their keys are
disjoint (`cdn_keys_disjoint_from_answers`), so this is the one shared `ProtocolCache`.
-/
import Driver.Common
import Cascette.Model.Fallback
import Cascette.Model.TcpRead
import Cascette.Model.VersionWire
import Cascette.Model.CdnDownload
import Cascette.Spec.Sha256Fips
open Cascette Drv
open Cascette.Model.Fallback
open Cascette.Model.VersionWire
open Cascette.Model.Bpsv (Str)

abbrev Doc := Model.Bpsv.Doc

def bytesOfNats (l : List Nat) : ByteArray := ByteArray.mk (l.map (·.toUInt8)).toArray

/-- bytes → text, `none` when the bytes are not UTF-8. -/
def strOfBytes (bs : List Nat) : Option Str := (String.fromUTF8? (bytesOfNats bs)).map (·.toList)

/-- lower-case hex SHA-256 of the UTF-8 bytes. -/
def H (s : Str) : Str := Spec.Sha256Fips.hexDigest (String.ofList s).toUTF8

inductive Beh where
  | doc (id : Nat) | mime (id : Nat) | bad | status (code : Nat) | close | mid | trunc | stall | refuse
  | raw (code : Nat) (body : List Nat)

/-- the documents of harness/src/bin/c13.rs (`bpsv_doc`, `bpsv_doc_trunc`, `bpsv_doc_midrow`,
`mime_doc`, the HTML page, the body of a status answer). -/
def docHead (id : Nat) : String := s!"Region!STRING:0|BuildId!DEC:4|Tag!STRING:0\n## seqn = {id}\n"
def bpsvDoc (id : Nat) : Str := (docHead id ++ s!"us|{id}|a\neu|{id}|b\n").toList
def bpsvDocTrunc (id : Nat) : Str := (docHead id ++ s!"us|{id}|a\n").toList
def bpsvDocMid (id : Nat) : Str := (docHead id ++ s!"us|{id}").toList
def mimeDoc (id : Nat) : Str := Model.Ribbit.wrapInMime H (bpsvDoc id)
def htmlPage : Str := "<html>this is not a BPSV table</html>\n".toList

def parseBeh (s : String) : Option Beh :=
  match s with
  | "bad" => some .bad
  | "close" => some .close
  | "mid" => some .mid
  | "trunc" => some .trunc
  | "stall" => some .stall
  | "refuse" => some .refuse
  | _ =>
    if s.startsWith "doc:" then (s.drop 4).toString.toNat?.map .doc
    else if s.startsWith "mime:" then (s.drop 5).toString.toNat?.map .mime
    else if s.startsWith "r" then
      match (s.drop 1).toString.splitOn ":" with
      | [c, h, tag] =>
        let tagOk := tag == "m" ||
          (tag.startsWith "g" && match (tag.drop 1).toString.splitOn "." with
            | [a, b] => a.toNat?.isSome && b.toNat?.isSome
            | _ => false)
        match c.toNat?, parseHexNat h with
        | some c, some b => if 200 ≤ c ∧ c ≤ 599 ∧ tagOk then some (.raw c b) else none
        | _, _ => none
      | _ => none
    else if s.startsWith "s" then
      let r := (s.drop 1).toString
      let num := if r.endsWith "ra" then (r.dropEnd 2).toString else r
      match num.toNat? with
      | some c => if 200 ≤ c ∧ c ≤ 599 then some (.status c) else none
      | none => none
    else none

/-- the `reqwest::Error` predicates (timeout, connect, request, body, decode) observed for a
connection that is … -/
def flagsRefused : HttpFlags := ⟨false, true, true, false, false⟩
def flagsClosedBeforeResponse : HttpFlags := ⟨false, false, true, false, false⟩
def flagsClosedInBody : HttpFlags := ⟨false, false, false, false, true⟩
def flagsStalledBeforeResponse : HttpFlags := ⟨true, false, true, false, false⟩
def flagsStalledInBody : HttpFlags := ⟨true, false, false, false, true⟩
def flagsNone : HttpFlags := ⟨false, false, false, false, false⟩

/-- what an HTTP (TACT) endpoint that behaves as `b` delivers. -/
def httpWire : Beh → HttpWire
  | .doc id => .resp 200 (some (bpsvDoc id))
  | .mime id => .resp 200 (some (mimeDoc id))
  | .bad => .resp 200 (some htmlPage)
  | .status c => .resp c (some "status\n".toList)
  | .raw c b => .resp c (strOfBytes b)
  | .close => .fail flagsClosedBeforeResponse
  | .mid | .trunc => .fail flagsClosedInBody
  | .stall => .fail flagsStalledBeforeResponse
  | .refuse => .fail flagsRefused

/-- what the Ribbit TCP endpoint that behaves as `b` delivers (bytes that are not UTF-8 are
rejected by `from_utf8` / the MIME layer: the model covers UTF-8 only, the driver answers the
parse error). -/
def tcpWire : Beh → Option TcpWire
  | .doc id => some (.bytes (bpsvDoc id))
  | .mime id => some (.bytes (mimeDoc id))
  | .bad | .status _ => some (.bytes htmlPage)
  | .raw _ b => (strOfBytes b).map .bytes
  | .close => some (.bytes [])
  | .mid => some (.bytes (bpsvDocMid 7))
  | .trunc => some (.bytes (bpsvDocTrunc 7))
  | .stall => some (.fail true)
  | .refuse => some (.fail false)

def tcpOutcome (b : Beh) : Except Err Doc :=
  match tcpWire b with
  | some w => tcpAnswer H w
  | none => .error .parse

def errName : Err → String
  | .network => "network" | .httpTimeout => "http-timeout" | .httpConnect => "http-connect"
  | .httpDropped => "http-dropped" | .httpOther => "http-other" | .parse => "parse" | .cache => "cache"
  | .allHostsFailed => "all-hosts-failed"
  | .rateLimited h => if h then "ratelimited:hint" else "ratelimited"
  | .serviceUnavailable => "unavailable"
  | .httpStatus c => s!"status:{c}" | .serverError c => s!"server:{c}"
  | .invalidKey => "invalid-key" | .invalidEndpoint => "invalid-endpoint" | .rangeNotSupported => "range"
  | .timeout => "timeout" | .other => "other" | .utf8 => "utf8" | .unsupportedOnWasm => "wasm"

def parseErr : List String → Option Err
  | ["network"] => some .network | ["parse"] => some .parse | ["cache"] => some .cache
  | ["all-hosts-failed"] => some .allHostsFailed
  | ["ratelimited"] => some (.rateLimited false) | ["ratelimited:hint"] => some (.rateLimited true)
  | ["unavailable"] => some .serviceUnavailable
  | ["status", c] => (c.toNat?).bind fun n => if 100 ≤ n ∧ n ≤ 999 then some (.httpStatus n) else none
  | ["server", c] => (c.toNat?).bind fun n => if 100 ≤ n ∧ n ≤ 999 then some (.serverError n) else none
  | ["invalid-key"] => some .invalidKey | ["invalid-endpoint"] => some .invalidEndpoint
  | ["range"] => some .rangeNotSupported | ["timeout"] => some .timeout | ["other"] => some .other
  | ["utf8"] => some .utf8 | ["wasm"] => some .unsupportedOnWasm
  | _ => none


/-! ### CDN download lines -/

def parseCt : String → Option Model.CdnDownload.Ct
  | "config" => some .config | "data" => some .data | "patch" => some .patch | _ => none

def cdnPathOk (p : String) : Bool :=
  !p.isEmpty && p.length ≤ 64 && p.toList.all (fun c => c.isLower || c.isDigit || c == '/') &&
    !p.startsWith "/" && (p.splitOn "//").length == 1

/-- injective coding of a byte string as the natural number that identifies a body in the model. -/
def encBytes (l : List Nat) : Nat := l.foldl (fun a b => a * 256 + b) 1
partial def decBytesAux (n : Nat) (acc : List Nat) : List Nat :=
  if n ≤ 1 then acc else decBytesAux (n / 256) (n % 256 :: acc)
def decBytes (n : Nat) : List Nat := decBytesAux n []

def junkBytes : List Nat := [0xff, 0xfe] ++ " junk without a schema line\n".toList.map Char.toNat

inductive CdnStep where
  | resp (code : Nat) (body : List Nat) | close | mid | stall | refuse

def parseStep (t : String) : Option CdnStep :=
  match t with
  | "close" => some .close
  | "stall" => some .stall
  | "refuse" => some .refuse
  | _ =>
    if t.startsWith "mid:" then
      (parseHexNat (t.drop 4).toString).bind fun b => if b.length < 2 then none else some .mid
    else if t.startsWith "s" then
      match (t.drop 1).toString.splitOn ":" with
      | [c, h] =>
        match c.toNat?, parseHexNat h with
        | some c, some b => if 200 ≤ c ∧ c ≤ 599 then some (.resp c b) else none
        | _, _ => none
      | _ => none
    else none

def parseScript (s : String) : Option (List CdnStep) :=
  match (s.splitOn ",").mapM parseStep with
  | some v =>
    let hasRefuse := v.any fun | .refuse => true | _ => false
    if v.isEmpty || v.length > 6 || (hasRefuse && v.length != 1) then none else some v
  | none => none

def CdnStep.flags : CdnStep → HttpFlags
  | .close => flagsClosedBeforeResponse
  | .mid => flagsClosedInBody
  | .stall => flagsStalledBeforeResponse
  | .refuse => flagsRefused
  | .resp _ _ => flagsNone

/-- what one request of `download_with_retry` produces on this step. -/
def CdnStep.outcome : CdnStep → Model.Retry.Outcome
  | .resp c b => Model.Retry.classifyStatus c none (encBytes b)
  | s => .err (.http s.flags.shouldRetry)

def retryErrName (last : CdnStep) : Model.Retry.Err → String
  | .network _ => "network"
  | .http _ => errName last.flags.toErr
  | .parse _ => "parse" | .cache _ => "cache" | .allHostsFailed => "all-hosts-failed"
  | .rateLimited h => if h.isSome then "ratelimited:hint" else "ratelimited"
  | .serviceUnavailable => "unavailable"
  | .httpStatus c => s!"status:{c}" | .serverError c => s!"server:{c}"
  | .invalidKey => "invalid-key" | .invalidEndpoint _ => "invalid-endpoint" | .rangeNotSupported => "range"
  | .timeout => "timeout" | .other _ => "other" | .utf8 => "utf8" | .unsupportedOnWasm _ => "wasm"

/-- `httperr`: what one request of the real `TactClient` meets, by behaviour of the peer. -/
def httpErrWire : String → Option HttpWire
  | "refuse" => some (.fail flagsRefused)
  | "close" | "midhead" | "garbage" => some (.fail flagsClosedBeforeResponse)
  | "mid" | "badchunk" | "badgzip" => some (.fail flagsClosedInBody)
  | "stallhead" => some (.fail flagsStalledBeforeResponse)
  | "stallbody" => some (.fail flagsStalledInBody)
  | "redirloop" | "badurl" => some (.fail flagsNone)
  | "redirnoloc" => some (.resp 302 (some []))
  | "ok" => some (.resp 200 (some (bpsvDoc 9)))
  | _ => none

structure St where
  active : Bool
  cfg : Config
  down : Nat
  ttls : Ttls
  clients : Nat
  cache : CState (List Nat) Doc
  objs : CState (List Nat) Nat

def St.init : St := ⟨false, ⟨true, true⟩, 0, ⟨0, 0, 0⟩, 0, CState.empty true, CState.empty true⟩

def kv (s : String) : Option (String × String) :=
  match s.splitOn "=" with
  | [k, v] => some (k, v)
  | _ => none

def bit? (s : String) : Option Bool := if s == "1" then some true else if s == "0" then some false else none

def parseBegin (toks : List String) : Option St := do
  let kvs ← toks.mapM kv
  if kvs.length ≠ 5 then none
  let get (k : String) : Option String := (kvs.find? (·.1 == k)).map (·.2)
  let mode ← get "mode"
  let disk ← if mode == "disk" then some true else if mode == "mem" then some false else none
  let https ← (← get "https") |> bit?
  let http ← (← get "http") |> bit?
  let down ← (← get "down").toNat?
  if down > 7 then none
  let ttl ← get "ttl"
  match (ttl.splitOn ",").mapM (·.toNat?) with
  | some [a, b, c] => some ⟨true, ⟨https, http⟩, down, ⟨a, b, c⟩, 1, CState.empty disk, CState.empty disk⟩
  | _ => none

def docName (d : Doc) : String :=
  (match d.seqn with | some n => toString n | none => "none") ++ s!":{d.rows.length}"

def trName : Tr → String
  | .https => "https" | .http => "http" | .tcp => "tcp"

def isDown (down : Nat) : Tr → Bool
  | .https => down % 2 == 1
  | .http => down / 2 % 2 == 1
  | .tcp => down / 4 % 2 == 1

def handle (st : St) (toks : List String) : St × String :=
  match toks with
  | "begin" :: rest =>
    match parseBegin rest with
    | some s => (s, "ok")
    | none => (st, "bad-op")
  | ["new"] =>
    if st.active then ({ st with clients := st.clients + 1 }, s!"ok:{st.clients}") else (st, "bad-op")
  | ["corrupt", ep] =>
    if st.active && st.cache.disk then
      let (c, done) := corrupt st.cache (ep.toList.map Char.toNat)
      ({ st with cache := c }, if done then "ok" else "nofile")
    else (st, "bad-op")
  | ["q", ci, t, ep, bh, bq, bt] =>
    match ci.toNat?, t.toNat?, parseBeh bh, parseBeh bq, parseBeh bt with
    | some ci, some t, some bh, some bq, some bt =>
      if !st.active || ci ≥ st.clients then (st, "bad-op") else
      let bh := if isDown st.down .https then Beh.refuse else bh
      let bq := if isDown st.down .http then Beh.refuse else bq
      let bt := if isDown st.down .tcp then Beh.refuse else bt
      let o : Tr → Except Err Doc := fun
        | .https => httpAnswer (httpWire bh)
        | .http => httpAnswer (httpWire bq)
        | .tcp => tcpOutcome bt
      let visible : Tr → Bool := fun
        | .https => match bh with | .refuse => false | _ => true
        | .http => match bq with | .refuse => false | _ => true
        | .tcp => match bt with | .refuse => false | _ => true
      let e := classifyEp st.ttls (ep.toList.map Char.toNat)
      let (c1, trace, r) := query st.cfg st.cache ci t e o
      let vis := (trace.filter visible).map trName
      let traceS := if vis.isEmpty then "-" else ",".intercalate vis
      let resS := match r with
        | .ok d => "ok:" ++ docName d
        | .error e => "err:" ++ errName e
      -- the harness then looks into the cache through the same client (`ProtocolCache::get`)
      let (c2, g) := cacheGet c1 ci e.key t
      let cacheS := match g with
        | .error _ => "err"
        | .ok none => "miss"
        | .ok (some .junk) => "junk"
        | .ok (some (.doc d)) => "hit:" ++ docName d
      ({ st with cache := c2 }, s!"trace={traceS} res={resS} cache={cacheS}")
    | _, _, _, _, _ => (st, "bad-op")
  | ["corruptdl", path, ct, keyhex] =>
    match parseCt ct, parseHexNat keyhex with
    | some ct, some key =>
      if st.active && st.objs.disk && cdnPathOk path && 2 ≤ key.length && key.length ≤ 32 then
        let (c, done) := corrupt st.objs (Model.CdnDownload.cacheKey (path.toList.map Char.toNat) ct key)
        ({ st with objs := c }, if done then "ok" else "nofile")
      else (st, "bad-op")
    | _, _ => (st, "bad-op")
  | ["dl", ci, t, path, ct, keyhex, script] =>
    match ci.toNat?, t.toNat?, parseCt ct, parseHexNat keyhex, parseScript script with
    | some ci, some t, some ct, some key, some steps =>
      if !st.active || ci ≥ st.clients || !cdnPathOk path || key.length > 32 then (st, "bad-op") else
      let pathB := path.toList.map Char.toNat
      let ob := Model.CdnDownload.classifyObj ⟨st.ttls.ribbit, st.ttls.cdn, st.ttls.config⟩ pathB ct key
      -- the server repeats its last step: 6 outcomes are more than the 4 requests a call can send
      let steps6 := steps ++ List.replicate (6 - steps.length) (steps.getLast?.getD .close)
      let outs := steps6.map CdnStep.outcome
      let (c1, calls, r) := Model.CdnDownload.download (Model.Retry.Arith.fixed fun b => some (2 * b))
        (fun _ _ => 0) (encBytes junkBytes) st.objs ci t t ob outs
      let refused := match steps with | [.refuse] => true | _ => false
      let reqs := if refused then 0 else calls
      let url := if reqs = 0 then "-" else
        String.ofList ((Model.CdnDownload.urlPath pathB ct key).map Char.ofNat)
      let resS := match r with
        | .ok v => "ok:" ++ hexOfNats (decBytes v)
        | .err e => "err:" ++ retryErrName (steps6.getD (calls - 1) .close) e
        | .panic => "panic"
        | .starved => "starved"
      let (c2, cacheS) :=
        if !ob.keyOk then (c1, "-") else
        let (c2, g) := cacheGet c1 ci ob.key t
        (c2, match g with
          | .error _ => "err"
          | .ok none => "miss"
          | .ok (some .junk) => "hit:" ++ hexOfNats junkBytes
          | .ok (some (.doc v)) => "hit:" ++ hexOfNats (decBytes v))
      ({ st with objs := c2 }, s!"reqs={reqs} url={url} res={resS} cache={cacheS}")
    | _, _, _, _, _ => (st, "bad-op")
  | ["httperr", b] =>
    match httpErrWire b with
    | none => (st, "bad-op")
    | some w =>
      match w, httpAnswer w with
      | _, .ok d => (st, "ok:" ++ docName d)
      | .fail f, .error e =>
        let bit (x : Bool) : String := if x then "1" else "0"
        (st, s!"http t={bit f.timeout} c={bit f.connect} r={bit f.request} b={bit f.body} d={bit f.decode} class={errName e} retry={shouldRetry e}")
      | _, .error e => (st, s!"err:{errName e} retry={shouldRetry e}")
  | "retry" :: cls =>
    match parseErr cls with
    | some e => (st, toString (shouldRetry e))
    | none => (st, "bad-op")
  | ["ismime", h] =>
    match parseHexNat h with
    | some b => (st, toString (Model.TcpRead.isV1Mime b))
    | none => (st, "bad-op")
  | "tcp" :: segs =>
    match segs.mapM parseHexNat with
    | some ss =>
      if ss.isEmpty || ss.any (·.length > 8192) || (ss.length > 1 && ss.any (·.isEmpty)) then (st, "bad-op") else
      match Model.TcpRead.readLoop ss with
      | .ok b => (st, "ok:" ++ hexOfNats b)
      | .tooLarge => (st, "err:parse")
    | none => (st, "bad-op")
  | _ => (st, "bad-op")

def main : IO Unit := do
  loopState (← IO.getStdin) (← IO.getStdout) handle St.init
