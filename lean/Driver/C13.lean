/-
Driver/C13 — runs the executable models of the version-service client (Model/Fallback,
Model/TcpRead) on the protocol lines of harness/src/bin/c13.rs.

The table `outcome` below is the model's reading of the mock servers' behaviours: which
`ProtocolError` class (or document) each behaviour produces in `TactClient::query` /
`RibbitClient::query` — `reqwest`, `mail_parser` and the BPSV parser are outside the model, this
table is their stated law and is exercised against the real libraries by every run.
-/
import Driver.Common
import Cascette.Model.Fallback
import Cascette.Model.TcpRead
open Cascette Drv
open Cascette.Model.Fallback

abbrev Doc := Nat × Nat   -- (sequence number, rows)

inductive Beh where
  | doc (id : Nat) | mime (id : Nat) | bad | status (code : Nat) | close | mid | trunc | stall | refuse

def parseBeh (s : String) : Option Beh :=
  match s with
  | "bad" => some .bad
  | "close" => some .close
  | "mid" => some .mid
  | "trunc" => some .trunc
  | "stall" => some .stall
  | "refuse" => some .refuse
  | _ =>
    if s.startsWith "doc:" then (s.drop 4).toString.toNat?.map .doc
    else if s.startsWith "mime:" then (s.drop 5).toString.toNat?.map .mime
    else if s.startsWith "s" then
      let r := (s.drop 1).toString
      let num := if r.endsWith "ra" then (r.dropEnd 2).toString else r
      match num.toNat? with
      | some c => if 200 ≤ c ∧ c ≤ 599 then some (.status c) else none
      | none => none
    else none

/-- outcome of contacting an HTTP (TACT) endpoint that behaves as `b`. -/
def httpOutcome : Beh → Except Err Doc
  | .doc id => tactClassify 200 (some (id, 2))
  | .mime _ => tactClassify 200 (none : Option Doc)     -- a MIME body is not a BPSV table
  | .bad => tactClassify 200 (none : Option Doc)
  | .status c => tactClassify c (none : Option Doc)     -- body of the mock is never a table
  | .close | .mid | .trunc => .error .httpDropped
  | .stall => .error .httpTimeout
  | .refuse => .error .httpConnect

/-- outcome of contacting the Ribbit TCP endpoint that behaves as `b`. -/
def tcpOutcome : Beh → Except Err Doc
  | .doc id => .ok (id, 2)
  | .mime id => .ok (id, 2)
  | .bad | .status _ | .close | .mid => .error .parse
  | .trunc => .ok (7, 1)                                -- cut at a row boundary: parses
  | .stall => .error .timeout
  | .refuse => .error .network

def errName : Err → String
  | .network => "network" | .httpTimeout => "http-timeout" | .httpConnect => "http-connect"
  | .httpDropped => "http-dropped" | .httpOther => "http-other" | .parse => "parse" | .cache => "cache"
  | .allHostsFailed => "all-hosts-failed"
  | .rateLimited h => if h then "ratelimited:hint" else "ratelimited"
  | .serviceUnavailable => "unavailable"
  | .httpStatus c => s!"status:{c}" | .serverError c => s!"server:{c}"
  | .invalidKey => "invalid-key" | .invalidEndpoint => "invalid-endpoint" | .rangeNotSupported => "range"
  | .timeout => "timeout" | .other => "other" | .utf8 => "utf8" | .unsupportedOnWasm => "wasm"

def parseErr : List String → Option Err
  | ["network"] => some .network | ["parse"] => some .parse | ["cache"] => some .cache
  | ["all-hosts-failed"] => some .allHostsFailed
  | ["ratelimited"] => some (.rateLimited false) | ["ratelimited:hint"] => some (.rateLimited true)
  | ["unavailable"] => some .serviceUnavailable
  | ["status", c] => (c.toNat?).bind fun n => if 100 ≤ n ∧ n ≤ 999 then some (.httpStatus n) else none
  | ["server", c] => (c.toNat?).bind fun n => if 100 ≤ n ∧ n ≤ 999 then some (.serverError n) else none
  | ["invalid-key"] => some .invalidKey | ["invalid-endpoint"] => some .invalidEndpoint
  | ["range"] => some .rangeNotSupported | ["timeout"] => some .timeout | ["other"] => some .other
  | ["utf8"] => some .utf8 | ["wasm"] => some .unsupportedOnWasm
  | _ => none

structure St where
  active : Bool
  cfg : Config
  down : Nat
  ttls : Ttls
  clients : Nat
  cache : CState (List Nat) Doc

def St.init : St := ⟨false, ⟨true, true⟩, 0, ⟨0, 0, 0⟩, 0, CState.empty true⟩

def kv (s : String) : Option (String × String) :=
  match s.splitOn "=" with
  | [k, v] => some (k, v)
  | _ => none

def bit? (s : String) : Option Bool := if s == "1" then some true else if s == "0" then some false else none

def parseBegin (toks : List String) : Option St := do
  let kvs ← toks.mapM kv
  if kvs.length ≠ 5 then none
  let get (k : String) : Option String := (kvs.find? (·.1 == k)).map (·.2)
  let mode ← get "mode"
  let disk ← if mode == "disk" then some true else if mode == "mem" then some false else none
  let https ← (← get "https") |> bit?
  let http ← (← get "http") |> bit?
  let down ← (← get "down").toNat?
  if down > 7 then none
  let ttl ← get "ttl"
  match (ttl.splitOn ",").mapM (·.toNat?) with
  | some [a, b, c] => some ⟨true, ⟨https, http⟩, down, ⟨a, b, c⟩, 1, CState.empty disk⟩
  | _ => none

def docName (d : Doc) : String := s!"{d.1}:{d.2}"

def trName : Tr → String
  | .https => "https" | .http => "http" | .tcp => "tcp"

def isDown (down : Nat) : Tr → Bool
  | .https => down % 2 == 1
  | .http => down / 2 % 2 == 1
  | .tcp => down / 4 % 2 == 1

def handle (st : St) (toks : List String) : St × String :=
  match toks with
  | "begin" :: rest =>
    match parseBegin rest with
    | some s => (s, "ok")
    | none => (st, "bad-op")
  | ["new"] =>
    if st.active then ({ st with clients := st.clients + 1 }, s!"ok:{st.clients}") else (st, "bad-op")
  | ["corrupt", ep] =>
    if st.active && st.cache.disk then
      let (c, done) := corrupt st.cache (ep.toList.map Char.toNat)
      ({ st with cache := c }, if done then "ok" else "nofile")
    else (st, "bad-op")
  | ["q", ci, t, ep, bh, bq, bt] =>
    match ci.toNat?, t.toNat?, parseBeh bh, parseBeh bq, parseBeh bt with
    | some ci, some t, some bh, some bq, some bt =>
      if !st.active || ci ≥ st.clients then (st, "bad-op") else
      let bh := if isDown st.down .https then Beh.refuse else bh
      let bq := if isDown st.down .http then Beh.refuse else bq
      let bt := if isDown st.down .tcp then Beh.refuse else bt
      let o : Tr → Except Err Doc := fun
        | .https => httpOutcome bh
        | .http => httpOutcome bq
        | .tcp => tcpOutcome bt
      let visible : Tr → Bool := fun
        | .https => match bh with | .refuse => false | _ => true
        | .http => match bq with | .refuse => false | _ => true
        | .tcp => match bt with | .refuse => false | _ => true
      let e := classifyEp st.ttls (ep.toList.map Char.toNat)
      let (c1, trace, r) := query st.cfg st.cache ci t e o
      let vis := (trace.filter visible).map trName
      let traceS := if vis.isEmpty then "-" else ",".intercalate vis
      let resS := match r with
        | .ok d => "ok:" ++ docName d
        | .error e => "err:" ++ errName e
      -- the harness then looks into the cache through the same client (`ProtocolCache::get`)
      let (c2, g) := cacheGet c1 ci e.key t
      let cacheS := match g with
        | .error _ => "err"
        | .ok none => "miss"
        | .ok (some .junk) => "junk"
        | .ok (some (.doc d)) => "hit:" ++ docName d
      ({ st with cache := c2 }, s!"trace={traceS} res={resS} cache={cacheS}")
    | _, _, _, _, _ => (st, "bad-op")
  | "retry" :: cls =>
    match parseErr cls with
    | some e => (st, toString (shouldRetry e))
    | none => (st, "bad-op")
  | ["ismime", h] =>
    match parseHexNat h with
    | some b => (st, toString (Model.TcpRead.isV1Mime b))
    | none => (st, "bad-op")
  | "tcp" :: segs =>
    match segs.mapM parseHexNat with
    | some ss =>
      if ss.isEmpty || ss.any (·.length > 8192) || (ss.length > 1 && ss.any (·.isEmpty)) then (st, "bad-op") else
      match Model.TcpRead.readLoop ss with
      | .ok b => (st, "ok:" ++ hexOfNats b)
      | .tooLarge => (st, "err:parse")
    | none => (st, "bad-op")
  | _ => (st, "bad-op")

def main : IO Unit := do
  loopState (← IO.getStdin) (← IO.getStdout) handle St.init
