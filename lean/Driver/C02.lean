/-
Driver/C02 — runs the parser front ends of Model/ParseGuards on the harness' request stream.

  seed <id> <hex>                                  remember a seed                         → ok
  cfg name=value …                                 struct sizes printed by the harness      → ok
  keys <n> <n> …                                   key names (decimal) of the key store the
                                                   harness hands to the BLTE decoders       → ok
  run <parser> <seed> <edits|-> c=<c> k=<k> cap=<cap> obs=<class>
      edits: comma list of  t<n> (truncate) | p<off>:<hex> (overwrite) | a<hex> (append)
             | r<n>:<hex> (append the bytes n times)
      → `<class> big=<0|1>`: class = panic / err where the front end decides, `abort` when a
        front-end allocation exceeds the worker's cap, otherwise (front end passes, or the parser
        has no front-end model) the observed class is repeated — except for the parsers with a
        COMPLETE model (root: C03's RootFile.parse; espec: ParseFronts.ESpec grammar; bpsv /
        buildinfo: C15's Bpsv.parse, both on all-ASCII inputs; lru: C07's Lru.deserialize;
        updsec / residency: always ok; localhdr: ok iff ≥ 30 bytes; lruload: deserialize + the link
        check of LruManager::load_from_disk; enchdr: blte::EncryptedHeader::read), where ok|err is PREDICTED;
        blte: `Blte.frontKeys` with the key store of the `keys` line (encrypted chunks: the header
        of decrypt_chunk_with_keys decides err before the cipher runs); encchunk: one encrypted
        chunk payload through `Blte.encFront`;
        big = a front-end allocation exceeds c·len+k or a capped one exceeds MAX_DECOMPRESSION_SIZE.
        Complete models of Model/ParseBodies: pindex / phdr / pblock2 / pblock8 / pentry (patch index:
        header, block walk, block 2, block 8, entry parser — ok | err | panic predicted).
        Parsers with a result detail answer `<class> big=<b> d=<detail>` for class ok | err:
        zbsmem / zbsstream / zbsstream1k / zbsobj (input: u16le-counted old file, inflated control /
        diff / extra blocks, u32le output size; Model/ParseBodies.Zbs.applyBytes over C16's control-block codec; detail = `<len>:<FNV-1a
        64 of the output>` or `-`) and lrutouch / lruremove / lruevict / lrumix (load_from_disk, then a
        script of list operations on the table's own keys on C17's Model/LruPtr; detail =
        `<result>:<first key byte of every walked entry>` per step joined by `/`, `-` = refused load).
  lhdr <hex>   LocalHeader::from_bytes + blte_size                       → none | blte=<n>
  espec <edits>   ESpec::parse on the (all-ASCII) input made by the edits from the empty input:
      → `ok depth=<n>` (n = deepest `parse_espec` frame = depth of the parsed tree)
      | `err deep@<pos>` (NestingTooDeep raised at byte pos) | `err other` | `nonascii`
-/
import Driver.Common
import Cascette.Model.ParseGuards
import Cascette.Model.ParseFronts
import Cascette.Model.ParseBodies
import Cascette.Model.Bpsv
import Cascette.Model.Integrity
import Cascette.Spec.Md5
open Cascette Drv
open Cascette.Model.ParseGuards


structure St where
  seeds : List (String × Bytes) := []
  sizes : List (String × Nat) := []
  keys : List Nat := []

def St.size (s : St) (n : String) : Nat := (s.sizes.lookup n).getD 0

def kv (t : String) : Option (String × String) :=
  match t.splitOn "=" with
  | [a, b] => some (a, b)
  | _ => none

def kvNat (t : String) (key : String) : Option Nat :=
  match kv t with
  | some (a, b) => if a == key then b.toNat? else none
  | none => none

def applyEdit (d : Bytes) (e : String) : Option Bytes :=
  match e.toList with
  | 't' :: r => (String.ofList r).toNat?.map (fun n => d.take n)
  | 'a' :: r => (parseHex (String.ofList r)).map (fun x => d ++ x)
  | 'r' :: r =>
    match (String.ofList r).splitOn ":" with
    | [n, h] =>
      match n.toNat?, parseHex h with
      | some n, some x => if n * x.length ≤ 67108864 then some (d ++ (List.replicate n x).flatten) else none
      | _, _ => none
    | _ => none
  | 'p' :: r =>
    match (String.ofList r).splitOn ":" with
    | [o, h] =>
      match o.toNat?, parseHex h with
      | some o, some x =>
        -- only the part that fits is written
        let x := x.take (d.length - o)
        if o ≤ d.length then some (d.take o ++ x ++ d.drop (o + x.length)) else some d
      | _, _ => none
    | _ => none
  | _ => none

def applyEdits (d : Bytes) (es : String) : Option Bytes :=
  if es == "-" then some d
  else (es.splitOn ",").foldl (fun acc e => acc.bind (fun d => applyEdit d e)) (some d)

/-- are the edits well formed? (what `applyEdits` checks, without building the input: used for the
parsers that have no model, whose outcome is only repeated) -/
def editOk (e : String) : Bool :=
  match e.toList with
  | 't' :: r => (String.ofList r).toNat?.isSome
  | 'a' :: r => (parseHex (String.ofList r)).isSome
  | 'r' :: r =>
    match (String.ofList r).splitOn ":" with
    | [n, h] =>
      match n.toNat?, parseHex h with
      | some n, some x => decide (n * x.length ≤ 67108864)
      | _, _ => false
    | _ => false
  | 'p' :: r =>
    match (String.ofList r).splitOn ":" with
    | [o, h] => o.toNat?.isSome && (parseHex h).isSome
    | _ => false
  | _ => false

def editsOk (es : String) : Bool := es == "-" || (es.splitOn ",").all editOk

/-- parsers with a front-end or complete model (everything else is oracle-only). -/
def modelled (parser : String) : Bool :=
  ["blte", "encchunk", "encoding", "install", "download", "size", "pindex", "zbsdiff", "zbsparse", "shmem", "idx",
   "aidx", "agroup", "aidxc", "root", "tvfs", "parchive", "lru", "espec", "bpsv", "buildinfo", "updsec", "residency",
   "localhdr", "lruload", "lruuse", "enchdr", "phdr", "pblock2", "pblock8", "pentry", "zbsmem", "zbsstream",
   "zbsstream1k", "zbsobj", "lrutouch", "lruremove", "lruevict", "lrumix"].contains parser

def md5H : Model.Integrity.Hash := Spec.Md5.md5

/-- `ShmemControlBlock::from_mapped` around `PidTracking::from_mapped`. -/
def shmemFront (b : Bytes) : Front :=
  if b.length < 0x150 then .error
  else
    let v := Model.Integrity.byteAt b 0
    if v < 4 ∨ 5 < v then .error
    else if 5 ≤ v ∧ 0x258 ≤ b.length then Local.shmemPidFront (b.drop 0x154)
    else { verdict := .pass }

open Cascette.Model.ParseBodies in
def resFront (r : Res × List Nat) (pre : List Nat := []) : Front :=
  { verdict := match r.1 with | .panic => .panic | .err => .err | .ok => .pass, allocs := pre ++ r.2 }

/-! ### structured ZBSDIFF apply -/
def fnv1a (b : Bytes) : UInt64 :=
  b.foldl (fun h x => (h ^^^ x.toNat.toUInt64) * 1099511628211) 14695981039346656037

def takePart (d : Bytes) : Option (Bytes × Bytes) :=
  match d with
  | a :: b :: r =>
    let n := a.toNat + 256 * b.toNat
    if (r.take n).length < n then none else some (r.take n, r.drop n)
  | _ => none

/-- (ok?, detail) of a `zbs*` parser on the composite input. -/
def zbsExact (_parser : String) (d : Bytes) : Bool × String :=
  let split : Option (Bytes × Bytes × Bytes × Bytes × Nat) := do
    let (old, r) ← takePart d
    let (ctl, r) ← takePart r
    let (diff, r) ← takePart r
    let (extra, r) ← takePart r
    match r with
    | [a, b, c, e] => some (old, ctl, diff, extra, a.toNat + 256 * b.toNat + 65536 * c.toNat + 16777216 * e.toNat)
    | _ => none
  match split with
  | none => (false, "bad")
  | some (old, ctl, diff, extra, out) =>
    -- one model for the memory patcher, the parsed-object API and the streaming patcher (both buffers)
    match Model.ParseBodies.Zbs.applyBytes old ctl diff extra out with
    | some o => (true, s!"{o.length}:{hexFixed 16 (fnv1a o).toNat}")
    | none => (false, "-")

/-! ### LRU list operations behind an accepted load -/
open Cascette.Model.ParseBodies.LruOps in
def lruOpsExact (parser : String) (d : Bytes) : Option (Bool × String) :=
  if !Model.ParseFronts.Lru.loadOk md5H d then some (false, "-")
  else
    match Model.LruPtr.deserialize md5H d with
    | none => some (false, "-")
    | some (h, es) =>
      let s := ptrOf h es
      let first (w : List Model.LruPtr.Key) : String :=
        if w.isEmpty then "-" else String.join (w.map (fun k => hexFixed 2 (k.headD 0).toNat))
      match Model.LruPtr.iter s, runScript s (script parser (tableKeys es [])) with
      | some w0, some steps =>
        some (true, "/".intercalate (s!"l:{first w0}" :: steps.map (fun (r, w) => s!"{r}:{first w}")))
      | _, _ => none   -- an index panic or a walk that does not end: no ok | err to predict

def isZbsApply (p : String) : Bool := ["zbsmem", "zbsstream", "zbsstream1k", "zbsobj"].contains p
def isLruOps (p : String) : Bool := ["lrutouch", "lruremove", "lruevict", "lrumix"].contains p

/-- front end of a parser, `none` when the parser has no front-end model (oracle-only). -/
def frontOf (s : St) (parser : String) (d : Bytes) : Option Front :=
  match parser with
  | "blte" => some (Blte.frontKeys (fun n => s.keys.contains n) d)
  | "encchunk" => some { verdict := Blte.encFront (fun n => s.keys.contains n) d }
  | "encoding" => some (Enc.front (s.size "enc_idx") (s.size "enc_pagec") (s.size "enc_pagee") d)
  | "install" => some (Manifest.installFront (s.size "in_tag") (s.size "in_entry") d)
  | "download" => some (Manifest.downloadFront (s.size "dl_entry") (s.size "dl_tag") d)
  | "size" => some (Manifest.sizeFront (s.size "in_tag") (s.size "sz_entry") d)
  | "pindex" => some (resFront (Model.ParseBodies.PIdx.parse (s.size "pi_entry") d) (PIndex.front d).allocs)
  | "phdr" =>
    some { verdict := if (Model.ParseBodies.PIdx.header d).isSome then .pass else .err, allocs := (PIndex.front d).allocs }
  | "pblock2" => some (resFront (Model.ParseBodies.PIdx.block2 (s.size "pi_entry") d))
  | "pblock8" => some (resFront (Model.ParseBodies.PIdx.block8 (s.size "pi_entry") d))
  | "pentry" => some (resFront (Model.ParseBodies.PIdx.entryBytes d, []))
  | "zbsdiff" => some (Zbs.front d)
  | "zbsparse" => some (Zbs.front d)
  | "shmem" => some (shmemFront d)
  | "idx" => some (Local.idxFront d).1
  | "aidx" | "agroup" | "aidxc" =>
    match Model.Integrity.Aidx.footerCheck md5H (parser != "aidxc") d with
    | .panic => some { verdict := .panic }
    | .pass .. => some { verdict := .pass }
    | _ => some .error
  | "root" => some (Model.ParseFronts.Root.front (s.size "root_hash") (s.size "root_rec") (d.map (·.toNat)))
  | "tvfs" => some (Model.ParseFronts.TvfsB.front (d.map (·.toNat)))
  | "parchive" => some (Model.ParseFronts.PArch.front (s.size "pa_block") (d.map (·.toNat)))
  | "lru" => some (Model.ParseFronts.Lru.front md5H (s.size "lru_entry") d)
  | _ => none

def isAscii (d : Bytes) : Bool := d.all (fun b => b.toNat < 128)
def asChars (d : Bytes) : List Char := d.map (fun b => Char.ofNat b.toNat)

/-- parsers whose model is complete: the exact outcome (`true` = Ok). -/
def exactOf (parser : String) (d : Bytes) : Option Bool :=
  match parser with
  | "root" =>
    -- C03's complete model re-measures the list per record (quadratic): used up to 8 KiB
    if d.length ≤ 8192 then some (Model.RootFile.parse (d.map (·.toNat))).isSome else none
  | "espec" => if isAscii d then some (Model.ParseFronts.ESpec.parse (asChars d)).1 else none
  | "bpsv" | "buildinfo" =>
    if isAscii d then some (match Model.Bpsv.parse (asChars d) with | .ok _ => true | .error _ => false) else none
  | "lru" => some (Model.Integrity.Lru.deserialize md5H d).isSome
  | "pindex" | "phdr" | "pblock2" | "pblock8" | "pentry" => some true   -- complete: `pass` of the model is Ok
  | "lruload" => some (Model.ParseFronts.Lru.loadOk md5H d)
  -- the list operations behind an accepted load are a body (oracle-only); a refused load is predicted
  | "lruuse" => if Model.ParseFronts.Lru.loadOk md5H d then none else some false
  | "enchdr" => some (Model.ParseFronts.EncHdr.read d)
  | "updsec" | "residency" => some true
  | "localhdr" => some (Model.ParseFronts.LHdr.front d).isSome
  | _ => none

def step (s : St) (t : List String) : St × String :=
  match t with
  | ["seed", id, h] =>
    match parseHex h with
    | some d => ({ s with seeds := (id, d) :: s.seeds.filter (·.1 != id) }, "ok")
    | none => (s, "bad-op")
  | "cfg" :: rest =>
    let kvs := rest.filterMap (fun x => (kv x).bind (fun (a, b) => b.toNat?.map (fun n => (a, n))))
    if kvs.length = rest.length then ({ s with sizes := kvs ++ s.sizes }, "ok") else (s, "bad-op")
  | "keys" :: rest =>
    let ns := rest.filterMap String.toNat?
    if ns.length = rest.length then ({ s with keys := ns }, "ok") else (s, "bad-op")
  | ["run", parser, sid, es, c, k, cap, obs] =>
    match s.seeds.lookup sid, kvNat c "c", kvNat k "k", kvNat cap "cap", kv obs with
    | some seed, some c, some k, some cap, some ("obs", o) =>
      if !modelled parser then (s, if editsOk es then s!"{o} big=0" else "bad-op")   -- oracle-only: nothing predicted
      else
      match applyEdits seed es with
      | none => (s, "bad-op")
      | some d =>
        if isZbsApply parser then
          let (okk, det) := zbsExact parser d
          (s, s!"{if okk then "ok" else "err"} big=0 d={det}")
        else if isLruOps parser then
          match lruOpsExact parser d with
          | some (okk, det) => (s, s!"{if okk then "ok" else "err"} big=0 d={det}")
          | none => (s, "stuck big=0")
        else
        match frontOf s parser d, exactOf parser d with
        | none, none => (s, s!"{o} big=0")          -- oracle-only parser: nothing predicted
        | fo, ex =>
          let f : Front := fo.getD { verdict := .pass }
          let abort := (f.allocs ++ f.capped).any (fun a => decide (cap < a))
          let cls := if abort then "abort" else
            match f.verdict with
            | .panic => "panic"
            | .err => "err"
            | .pass => match ex with
              | some true => "ok"
              | some false => "err"
              | none => o
          let big := f.big c k d.length
          (s, s!"{cls} big={if big then 1 else 0}")
    | _, _, _, _, _ => (s, "bad-op")
  | ["espec", es] =>
    match applyEdits [] es with
    | none => (s, "bad-op")
    | some d =>
      if !isAscii d then (s, "nonascii")
      else
        (s, match Model.ParseFronts.ESpec.parseX (asChars d) with
          | (.ok, m) => s!"ok depth={m}"
          | (.deep p, _) => s!"err deep@{p}"
          | (.other, _) => "err other")
  | ["lhdr", h] =>
    match parseHex h with
    | some d => (s, match Model.ParseFronts.LHdr.front d with | none => "none" | some n => s!"blte={n}")
    | none => (s, "bad-op")
  | _ => (s, "bad-op")

def main : IO Unit := do
  loopState (← IO.getStdin) (← IO.getStdout) step ({} : St)
