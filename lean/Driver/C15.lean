/-
Driver/C15 — runs the Ribbit server/client model (Model/RibbitFmt, Model/Bpsv) on protocol lines.
Strings travel as hex of their UTF-8 bytes (`-` = empty, `~` = absent optional field).
-/
import Driver.Common
import Cascette.Model.RibbitFmt
import Cascette.Model.RibbitConn
import Cascette.Spec.Sha256Fips
open Cascette Drv
open Cascette.Model.Bpsv Cascette.Model.Ribbit Cascette.Model.RibbitConn

def bytesOfNats (l : List Nat) : ByteArray := ByteArray.mk (l.map (·.toUInt8)).toArray

/-- hex → text, `none` when the bytes are not UTF-8. -/
def strOfHex (s : String) : Option (Option Str) :=
  (parseHexNat s).map fun bs => (String.fromUTF8? (bytesOfNats bs)).map (·.toList)

def hexOfStr (s : Str) : String := hexOfNats ((String.ofList s).toUTF8.toList.map (·.toNat))

/-- lower-case hex SHA-256 of the UTF-8 bytes. -/
def H (s : Str) : Str := Spec.Sha256Fips.hexDigest (String.ofList s).toUTF8

structure St where
  seqn : Nat := 0
  hosts : Str := []
  path : Str := []
  recs : List Record := []
  server : Option Server := none

def optField (s : String) : Option (Option Str) :=
  if s == "~" then some none else
  match strOfHex s with
  | some (some t) => some (some t)
  | _ => none

def strField (s : String) : Option Str :=
  match strOfHex s with
  | some (some t) => some t
  | _ => none

def parseRec : List String → Option Record
  | [id, p, v, b, bc, cc, kr, pc, bt, ee, re, ie, de, cp] => do
    let id ← id.toNat?
    let p ← strField p; let v ← strField v; let b ← strField b
    let bc ← strField bc; let cc ← strField cc
    let kr ← optField kr; let pc ← optField pc
    let bt ← strField bt; let ee ← strField ee; let re ← strField re
    let ie ← strField ie; let de ← strField de; let cp ← optField cp
    pure ⟨id, p, v, b, bc, cc, kr, pc, bt, ee, re, ie, de, cp⟩
  | _ => none

def showValue (raw : Str) : Value → String
  | .str _ => hexOfStr raw ++ ":s"
  | .empty => hexOfStr raw ++ ":e"
  | .hex b => hexOfStr raw ++ ":h" ++ hexOfNats b
  | .dec n => hexOfStr raw ++ ":d" ++ toString n

def zipShow : List Str → List Value → List String
  | r :: rs, v :: vs => showValue r v :: zipShow rs vs
  | _, _ => []

/-- canonical text of a parsed document; `tsub = some S`: the sequence number `S` (and, for the
summary, column 2 equal to `S`) is printed as `T` (the real server uses the wall clock). -/
def showDoc (tsub : Option Nat) (sumCol : Bool) (d : Doc) : String :=
  let sq := match d.seqn, tsub with
    | none, _ => "-"
    | some n, some s => if n = s then "T" else toString n
    | some n, none => toString n
  let row (r : Row) : String :=
    let cells := zipShow r.raw r.vals
    let cells := match tsub, cells, r.raw with
      | some s, [a, _], [_, b] => if sumCol ∧ b = natDigits s then [a, "T"] else cells
      | _, _, _ => cells
    ",".intercalate cells
  s!"ok seqn={sq} fields={d.fields.length} rows={d.rows.length} " ++ ";".intercalate (d.rows.map row)

def showClient (tsub : Option Nat) (sumCol : Bool) : Except ClientErr Doc → String
  | .ok d => showDoc tsub sumCol d
  | .error (.bpsv e) => "err:" ++ e.name
  | .error .checksum => "err:checksum"
  | .error .mime => "err:mime"
  | .error .http404 => "err:http-404"

def isPerm (a b : List Str) : Bool :=
  a.length == b.length && a.all (fun x => b.contains x) && b.all (fun x => a.contains x)

def kv (pre : String) (t : String) : Option String :=
  if t.startsWith pre then some (t.drop pre.length).toString else none

def endpointStr (ep : String) : Str := ep.toList


def decUtf8 (bs : List Nat) : Option Str := (String.fromUTF8? (bytesOfNats bs)).map (·.toList)

def sharedOf (sv : Server) (sq : Nat) : Shared := ⟨decUtf8, H, sv, sq⟩

/-- `reply:<bytes>:<first 16 bytes>` / `closed`. -/
def showOut : Out → String
  | .closed => "closed"
  | .reply r =>
    let bs := (String.ofList r).toUTF8.toList.map (·.toNat)
    s!"reply:{bs.length}:{hexOfNats (bs.take 16)}"

structure Sched where
  σ : Conns := []
  outs : List (Nat × Out) := []
  res : List String := []

def Sched.ev (sh : Shared) (sc : Sched) (i : Nat) (e : Ev) : Sched :=
  let r := srvStep sh sc.σ i e
  { sc with σ := r.1, outs := sc.outs ++ r.2.toList }

/-- one token of a `sched` line: `o<i>` socket i is accepted and nothing arrives on it (a client
that connects and stays silent), `d<i>:<hex>` bytes arrive on socket i, `e<i>` half-close,
`r<i>` read socket i to its end (→ one result), `T` the read timeout passes for every socket
accepted so far. -/
def schedTok (sh : Shared) (sc : Sched) (tok : String) : Option Sched :=
  match tok.toList with
  | ['T'] => some ((sc.σ.map (·.1)).eraseDups.foldl (fun a i => a.ev sh i .timeout) sc)
  | 'd' :: rest =>
    match (String.ofList rest).splitOn ":" with
    | [i, hx] =>
      match i.toNat?, parseHexNat hx with
      | some i, some bs => some (sc.ev sh i (.data bs))
      | _, _ => none
    | _ => none
  | 'e' :: rest => (String.ofList rest).toNat?.map fun i => sc.ev sh i .eof
  | 'o' :: rest => (String.ofList rest).toNat?.map fun i => sc.ev sh i .accept
  | 'r' :: rest =>
    (String.ofList rest).toNat?.map fun i =>
      let sc := { sc with σ := (i, getConn sc.σ i) :: sc.σ }
      match outsOf i sc.outs with
      | o :: _ => { sc with res := sc.res ++ [showOut o] }
      | [] => { sc with res := sc.res ++ ["pending"] }
  | _ => none

def runSched (sh : Shared) (toks : List String) : Option Sched :=
  toks.foldlM (schedTok sh) {}

def step (st : St) : List String → St × String
  | ["begin", sq, h, p] =>
    match (kv "seqn=" sq).bind String.toNat?, (kv "hosts=" h).bind strField, (kv "path=" p).bind strField with
    | some s, some h, some p => ({ seqn := s, hosts := h, path := p }, "ok")
    | _, _, _ => (st, "bad-op")
  | "rec" :: fs =>
    match parseRec fs with
    | some r =>
      ({ st with recs := st.recs ++ [r] },
        match validate r with
        | none => "ok"
        | some f => "err:" ++ f)
    | none => (st, "bad-op")
  | ["load", order] =>
    match load st.recs with
    | .error f => (st, "err:" ++ f)
    | .ok db =>
      let ord : Option (List Str) :=
        if order == "-" then some [] else (order.splitOn ",").mapM strField
      match ord with
      | none => (st, "bad-op")
      | some ord =>
        if !isPerm ord (products db) then (st, "bad-order") else
        ({ st with server := some ⟨db, defaultCdn st.hosts st.path, ord⟩ },
          s!"ok products={(products db).length} total={db.length}")
  | ["latest", p] =>
    match st.server, strField p with
    | some sv, some p =>
      (st, match latest sv.db p with
        | some r => toString r.id
        | none => "none")
    | _, _ => (st, "bad-op")
  | ["cmd", sq, c] =>
    match st.server, sq.toNat?, strField c with
    | some sv, some sq, some c =>
      (st, match handleCommand H sv sq c with
        | some r => "ok " ++ hexOfStr r
        | none => "err")
    | _, _, _ => (st, "bad-op")
  | ["conn", sq, b] =>
    match st.server, sq.toNat?, parseHexNat b with
    | some sv, some sq, some bs =>
      (st, match connAnswer (sharedOf sv sq) bs with
        | .reply r => "ok " ++ hexOfStr r
        | .closed => "closed")
    | _, _, _ => (st, "bad-op")
  | ["hold", b] =>
    match st.server, parseHexNat b with
    | some _, some bs => (st, if bs.contains 10 then "bad-op" else "pending")
    | _, _ => (st, "bad-op")
  -- `hold <bytes> <n>`: n sockets hold `bytes` (no line end; `-` = nothing at all): none of them
  -- is answered (`held_connection_silent`), whatever n
  | ["hold", b, n] =>
    match st.server, parseHexNat b, n.toNat? with
    | some _, some bs, some _ => (st, if bs.contains 10 then "bad-op" else "pending")
    | _, _, _ => (st, "bad-op")
  | ["http", sq, p] =>
    match st.server, sq.toNat?, strField p with
    | some sv, some sq, some p =>
      (st, match handleHttp sv sq p with
        | some r => "200 " ++ hexOfStr r
        | none => "404")
    | _, _, _ => (st, "bad-op")
  | ["parse", t] =>
    match strOfHex t with
    | some (some t) => (st, showClient none false (liftParse t))
    | some none => (st, "err:utf8")
    | none => (st, "bad-op")
  | ["client", tr, p, ep] =>
    match st.server, strField p with
    | some sv, some p =>
      let t : Option Transport :=
        if tr == "v1" then some .v1 else if tr == "v2" then some .v2
        else if tr == "http" then some .http else none
      -- a known endpoint name goes through `Req`/`respond`; any other text through `respondTo`
      -- with the endpoint string the harness hands to the client
      let r := t.map fun t =>
        match parseEndpoint ep.toList with
        | some e => query H (respond H sv st.seqn ⟨t, p, e⟩)
        | none => query H (respondTo H sv st.seqn t (t.ver ++ "/products/".toList ++ p ++ '/' :: ep.toList))
      (st, match r with
        | some r => showClient (some st.seqn) false r
        | none => "bad-op")
    | _, _ => (st, "bad-op")
  | ["clientsum"] =>
    match st.server with
    | some sv =>
      (st, showClient (some st.seqn) true
        (query H (respondSummary H sv st.seqn)))
    | none => (st, "bad-op")
  | ["clientx", _, _, _] => (st, if st.server.isSome then "skip" else "bad-op")
  | ["storm", _, reqs] =>
    match st.server, (reqs.splitOn ",").mapM parseHexNat with
    | some sv, some rs =>
      let one (bs : List Nat) : String :=
        match connAnswer (sharedOf sv st.seqn) bs with
        | .reply r => s!"reply:{(String.ofList r).utf8ByteSize}"
        | .closed => "closed"
      (st, ",".intercalate (rs.map one))
    | _, _ => (st, "bad-op")
  | ["sched", evs] =>
    match st.server with
    | some sv =>
      (st, match runSched (sharedOf sv st.seqn) (evs.splitOn ",") with
        | some sc => if sc.res.isEmpty then "-" else ",".intercalate sc.res
        | none => "bad-op")
    | none => (st, "bad-op")
  | ["sha", b] =>
    match parseHexNat b with
    | some bs => (st, String.ofList (Spec.Sha256Fips.hexDigest (bytesOfNats bs)))
    | none => (st, "bad-op")
  | _ => (st, "bad-op")

def main : IO Unit := do
  let stdin ← IO.getStdin
  let stdout ← IO.getStdout
  loopState stdin stdout step {}
