/-
Driver/C12 — runs the executable model of the multi-layer cache (Model/MultiLayer over the C10
layer models) on protocol lines.

  begin L=<layer>;<layer>… strat=onhit|after:<n>|manual|freq|age hooks=none|md5|ngdp|noop|err skip=<n>
        layer = m:<max_entries>:<max_bytes|none>:<lru|fifo|lfu|random|ttl>:<long|short>  |  d:<long|short>
  put <k> <hex>            putttl <k> <hex> long|short       putl <k> <hex> <layer>
  get <k>                  getl <k> <layer>                  promote <k> <from> <to>
  remove <k>               clear                             bget <k,k,…|->
  bput <k>=<hex>,…|-       putv <k> <ck> <hex>               getv <k> <ck|->
  stats                    fdel <layer> <k>                  fset <layer> <k> <hex>
  skipprobe <len>

put / putttl / putl / promote / bput / putv may carry a last token `ev=<k,k,…|->`: the victims the
memory layer written by the call was seen to evict (Lfu ties, Random).  The model checks the
choice is one the policy allows in the layer's state (`hintOk`, C10's `victimsOk`), answers
`bad-choice` otherwise, and follows it.  Without the token the victims are `detVictims` (Lru / Fifo
with distinct stamps; the Ttl policy ignores them).  A `bput` of two or more items is outside the
protocol (`bad-op`) when the first layer is an Lfu / Random memory layer or a Ttl-policy memory
layer with a short default TTL.

A call whose lock trace requests the tracker lock while holding it is answered `timeout` (the
real call never returns); the model of the fixed code never produces such a trace
(`ml_no_self_deadlock`).  The content hash is RFC 1321 MD5 (Spec/Md5).
-/
import Driver.Common
import Cascette.Spec.Md5
import Cascette.Model.MultiLayer
open Cascette Drv
open Cascette.Model
open Cascette.Model.MultiLayer

structure DSt where
  env : Env
  st : State

def kv (pre : String) (t : String) : Option String :=
  if t.startsWith pre then some (t.drop pre.length).toString else none

def parseClass : String → Option Bool
  | "short" => some true | "long" => some false | _ => none

def parsePolicy : String → Option MemCache.Policy
  | "lru" => some .lru | "fifo" => some .fifo | "lfu" => some .lfu
  | "random" => some .random | "ttl" => some .ttl | _ => none

def md5Nat (v : List Nat) : List Nat := (Spec.Md5.md5 (v.map (BitVec.ofNat 8))).map (·.toNat)

def parseLayer (t : String) : Option Layer :=
  match t.splitOn ":" with
  | ["m", mx, by_, pol, dt] =>
    match mx.toNat?, parsePolicy pol, parseClass dt with
    | some mx, some pol, some dt =>
      let mb : Option (Option Nat) := if by_ == "none" then some none else by_.toNat?.map some
      match mb with
      | some mb =>
        if mx = 0 ∨ mb = some 0 then none
        else some (.mem { maxEntries := mx, maxBytes := mb, policy := pol, defaultShort := dt } MemCache.init)
      | none => none
    | _, _, _ => none
  | ["d", dt] => (parseClass dt).map (fun dt => .disk { defaultShort := dt } DiskCache.init)
  | _ => none

def parseLayers (t : String) : Option (List Layer) :=
  (t.splitOn ";").foldr (fun x acc => match parseLayer x, acc with
    | some l, some ls => some (l :: ls)
    | _, _ => none) (some [])

def parseStrategy (t : String) : Option Strategy :=
  match t.splitOn ":" with
  | ["onhit"] => some .onHit
  | ["manual"] => some .manual
  | ["freq"] => some (.timed false)
  | ["age"] => some (.timed false)
  | ["after", n] => n.toNat?.map .afterN
  | _ => none

def parseHooks (t : String) (skip : Nat) : Option (Option Hooks) :=
  match t with
  | "none" => some none
  | "md5" => some (some (md5Hooks md5Nat skip))
  | "ngdp" => some (some (md5Hooks md5Nat skip))
  | "noop" => some (some noopHooks)
  | "err" => some (some errHooks)
  | _ => none

def detVictims : Victims := fun cfg s => MemCache.detVictims cfg.policy s.store (MemCache.evictN cfg s)

def showErr : Err → String
  | .config => "err:config" | .io => "err:io" | .validation => "err:validation"
  | .corruption => "err:corruption" | .backend => "err:backend"

def showOpt : Option (List Nat) → String
  | some v => "val " ++ hexOfNats v
  | none => "none"

def showOut : Out → String
  | .unit => "ok"
  | .val o => showOpt o
  | .bool b => if b then "true" else "false"
  | .vals l => "vals " ++ (if l.isEmpty then "." else String.intercalate "|" (l.map (fun o => match o with
      | some v => hexOfNats v | none => "none")))
  | .err e => showErr e

def parseKeys (s : String) : Option (List Nat) :=
  if s == "-" then some [] else
  (s.splitOn ",").foldr (fun t acc => match t.toNat?, acc with
    | some n, some l => some (n :: l)
    | _, _ => none) (some [])

def parseItems (s : String) : Option (List (Nat × List Nat)) :=
  if s == "-" then some [] else
  (s.splitOn ",").foldr (fun t acc => match t.splitOn "=", acc with
    | [k, v], some l => match k.toNat?, parseHexNat v with
      | some k, some v => some ((k, v) :: l)
      | _, _ => none
    | _, _ => none) (some [])

/-- a content key is exactly 16 bytes -/
def parseCk (s : String) : Option (List Nat) :=
  match parseHexNat s with
  | some l => if l.length = 16 then some l else none
  | none => none

def parseOp (toks : List String) : Option Op :=
  match toks with
  | ["put", k, v] => match k.toNat?, parseHexNat v with
    | some k, some v => some (.put k v) | _, _ => none
  | ["putttl", k, v, c] => match k.toNat?, parseHexNat v, parseClass c with
    | some k, some v, some c => some (.putTtl k v c) | _, _, _ => none
  | ["putl", k, v, i] => match k.toNat?, parseHexNat v, i.toNat? with
    | some k, some v, some i => some (.putToLayer k v i) | _, _, _ => none
  | ["get", k] => k.toNat?.map .get
  | ["getl", k, i] => match k.toNat?, i.toNat? with
    | some k, some i => some (.getFromLayer k i) | _, _ => none
  | ["promote", k, a, b] => match k.toNat?, a.toNat?, b.toNat? with
    | some k, some a, some b => some (.promote k a b) | _, _, _ => none
  | ["remove", k] => k.toNat?.map .remove
  | ["clear"] => some .clear
  | ["bget", ks] => (parseKeys ks).map .batchGet
  | ["bput", kvs] => (parseItems kvs).map .batchPut
  | ["putv", k, ck, v] => match k.toNat?, parseCk ck, parseHexNat v with
    | some k, some ck, some v => some (.putv k ck v) | _, _, _ => none
  | ["getv", k, ck] => match k.toNat? with
    | some k => if ck == "-" then some (.getv k none) else (parseCk ck).map (fun c => .getv k (some c))
    | none => none
  | ["fdel", i, k] => match i.toNat?, k.toNat? with
    | some i, some k => some (.fdel i k) | _, _ => none
  | ["fset", i, k, v] => match i.toNat?, k.toNat?, parseHexNat v with
    | some i, some k, some v => some (.fset i k v) | _, _, _ => none
  | _ => none

def showStats (s : State) : String :=
  String.intercalate " " (s.slots.map (fun sl => toString sl.hits ++ "/" ++ toString sl.misses))
    ++ " tracked=" ++ toString s.tracker.length ++ " promos=" ++ toString s.promotions

/-- split a trailing `ev=` token off a writing request: (tokens without it, observed victims) -/
def splitEv (toks : List String) : Option (List String × Option (List Nat)) :=
  match toks.getLast? with
  | some t =>
    match kv "ev=" t with
    | some h =>
      if ["put", "putttl", "putl", "promote", "bput", "putv"].contains (toks.headD "") then
        (parseKeys h).map (fun vs => (toks.dropLast, some vs))
      else none
    | none => some (toks, none)
  | none => some (toks, none)

/-- a batch put the protocol excludes (victims / expiry inside one call cannot be followed) -/
def outsideProtocol (s : State) : Op → Bool
  | .batchPut (_ :: _ :: _) =>
    match layerAt s 0 with
    | some (.mem cfg _) => cfg.policy == .lfu || cfg.policy == .random || (cfg.policy == .ttl && cfg.defaultShort)
    | _ => false
  | _ => false

def handle (d : Option DSt) (toks : List String) : Option DSt × String :=
  match toks with
  | ["begin", ls, st, hk, sk] =>
    match (kv "L=" ls).bind parseLayers, (kv "strat=" st).bind parseStrategy, (kv "skip=" sk).bind (·.toNat?) with
    | some layers, some strat, some skip =>
      match (kv "hooks=" hk).bind (parseHooks · skip) with
      | some hooks =>
        if layers.isEmpty then (none, "err:config")
        else (some { env := { strategy := strat, hooks := hooks, victims := detVictims }, st := init layers }, "ok")
      | none => (none, "bad-op")
    | none, some _, some _ =>
      -- a layer specification the configuration validation rejects
      if (kv "L=" ls).isSome then (none, "err:config") else (none, "bad-op")
    | _, _, _ => (none, "bad-op")
  | _ =>
  match d with
  | none => (d, "bad-op")
  | some ds =>
    match toks with
    | ["stats"] => (d, showStats ds.st)
    | ["skipprobe", n] =>
      match n.toNat? with
      | some n => (d, match ds.env.hooks with
          | none => "nohooks"
          | some h => if h.skip [] n then "skipped" else "checked")
      | none => (d, "bad-op")
    | _ =>
      match splitEv toks with
      | none => (d, "bad-op")
      | some (toks, hint) =>
      match parseOp toks with
      | none => (d, "bad-op")
      | some op =>
        if outsideProtocol ds.st op then (d, "bad-op") else
        let okChoice := match hint, writeLayer op with
          | some vs, some i => hintOk ds.st i vs
          | some _, none => false
          | none, _ => true
        if !okChoice then (d, "bad-choice") else
        let env := { ds.env with victims := hintVictims ds.env.victims hint }
        let r := step env ds.st op
        if lockOk r.trace then (some { ds with st := r.st }, showOut r.out)
        else (some { ds with st := r.st }, "timeout")

def main : IO Unit := do
  loopState (← IO.getStdin) (← IO.getStdout) handle (none : Option DSt)
