/-
Driver/C12 — runs the executable model of the multi-layer cache (Model/MultiLayer over the C10
layer models) on protocol lines.

  begin L=<layer>;<layer>… strat=onhit|after:<n>|manual|freq|age hooks=none|md5|ngdp|noop|err skip=<n>
        layer = m:<max_entries>:<max_bytes|none>:<lru|fifo|lfu|random|ttl>:<long|short>  |  d:<long|short>
  put <k> <hex>            putttl <k> <hex> long|short       putl <k> <hex> <layer>
  get <k>                  getl <k> <layer>                  promote <k> <from> <to>
  remove <k>               clear                             bget <k,k,…|->
  bput <k>=<hex>,…|-       putv <k> <ck> <hex>               getv <k> <ck|->
  stats                    fdel <layer> <k>                  fset <layer> <k> <hex>
  skipprobe <len>

put / putttl / putl / promote / bput / putv may carry a last token `ev=<k,k,…|->`: the victims the
memory layer written by the call was seen to evict (Lfu ties, Random).  The model checks the
choice is one the policy allows in the layer's state (`hintOk`, C10's `victimsOk`), answers
`bad-choice` otherwise, and follows it.  Without the token the victims are `detVictims` (Lru / Fifo
with distinct stamps; the Ttl policy ignores them).  A `bput` of two or more items is outside the
protocol (`bad-op`) when the first layer is an Lfu / Random memory layer or a Ttl-policy memory
layer with a short default TTL.

Values (`<hex>` above) may also be written `g<len>:<seed>` followed by any number of
`^<pos>:<xx>` edits: the generated payload `genVal len seed` (byte i = `genByte seed i`) with byte
`pos` xor-ed with `xx`, edits applied in order (`len` ≤ 2^28, `seed` < 2^32, `pos` < `len`,
otherwise `bad-op`).  A truncation / extension of a generated payload is the same seed with another
length.  Values longer than 64 bytes are ANSWERED as `#<len>:<fnv-1a 64 of the bytes, 16 hex digits>`
(in `val …` and in each item of `vals …`), shorter ones as hex.  This keeps request and response
lines short for payloads of hundreds of KiB; the model itself works on the full byte lists
(the content hash is computed over every byte by Spec/Md5).

A call whose lock trace requests the tracker lock while holding it is answered `timeout` (the
real call never returns); the model of the fixed code never produces such a trace
(`ml_no_self_deadlock`).  The content hash is RFC 1321 MD5 (Spec/Md5).
-/
import Driver.Common
import Cascette.Spec.Md5
import Cascette.Model.MultiLayer
open Cascette Drv
open Cascette.Model
open Cascette.Model.MultiLayer

structure DSt where
  env : Env
  st : State
  /-- `hooks=` and `skip=` of the `begin` line -/
  hk : String
  skip : Nat
  /-- digests already computed in this case: (value, `md5Nat value`), newest first, at most four -/
  memo : List (List Nat × List Nat)

def kv (pre : String) (t : String) : Option String :=
  if t.startsWith pre then some (t.drop pre.length).toString else none

def parseClass : String → Option Bool
  | "short" => some true | "long" => some false | _ => none

def parsePolicy : String → Option MemCache.Policy
  | "lru" => some .lru | "fifo" => some .fifo | "lfu" => some .lfu
  | "random" => some .random | "ttl" => some .ttl | _ => none

def md5Nat (v : List Nat) : List Nat := (Spec.Md5.md5 (v.map (BitVec.ofNat 8))).map (·.toNat)

/-! ### generated payloads and abbreviated answers (same definitions in harness/src/bin/c12.rs) -/

def genByte (seed i : Nat) : Nat := ((i * 2654435761 + seed * 2246822519 + 374761393) / 65536) % 256

def genVal (len seed : Nat) : List Nat := (List.range len).map (genByte seed)

def genMaxLen : Nat := 268435456
def genMaxSeed : Nat := 4294967296

/-- one `^<pos>:<xx>` edit: xor byte `pos` with `xx` -/
def applyEdit (v : List Nat) (e : String) : Option (List Nat) :=
  match e.splitOn ":" with
  | [p, x] =>
    match p.toNat?, parseHexNat x with
    | some p, some [m] =>
      match v[p]? with
      | some b => some (v.set p (b ^^^ m))
      | none => none
    | _, _ => none
  | _ => none

/-- a value token: hex (`-` = empty) or `g<len>:<seed>[^<pos>:<xx>]…` -/
def parseVal (s : String) : Option (List Nat) :=
  if s.startsWith "g" then
    match ((s.drop 1).toString).splitOn "^" with
    | head :: edits =>
      match head.splitOn ":" with
      | [l, sd] =>
        match l.toNat?, sd.toNat? with
        | some l, some sd =>
          if l ≤ genMaxLen ∧ sd < genMaxSeed then
            edits.foldl (fun acc e => acc.bind (applyEdit · e)) (some (genVal l sd))
          else none
        | _, _ => none
      | _ => none
    | [] => none
  else parseHexNat s

def fnv64 (v : List Nat) : UInt64 :=
  v.foldl (fun h x => (h ^^^ UInt64.ofNat x) * 0x100000001b3) 0xcbf29ce484222325

/-- values up to 64 bytes in hex, longer ones as `#<len>:<fnv64>` -/
def showVal (v : List Nat) : String :=
  if (v.drop 64).isEmpty then hexOfNats v
  else "#" ++ toString v.length ++ ":" ++ hexFixed 16 (fnv64 v).toNat

def parseLayer (t : String) : Option Layer :=
  match t.splitOn ":" with
  | ["m", mx, by_, pol, dt] =>
    match mx.toNat?, parsePolicy pol, parseClass dt with
    | some mx, some pol, some dt =>
      let mb : Option (Option Nat) := if by_ == "none" then some none else by_.toNat?.map some
      match mb with
      | some mb =>
        if mx = 0 ∨ mb = some 0 then none
        else some (.mem { maxEntries := mx, maxBytes := mb, policy := pol, defaultShort := dt } MemCache.init)
      | none => none
    | _, _, _ => none
  | ["d", dt] => (parseClass dt).map (fun dt => .disk { defaultShort := dt } DiskCache.init)
  | _ => none

def parseLayers (t : String) : Option (List Layer) :=
  (t.splitOn ";").foldr (fun x acc => match parseLayer x, acc with
    | some l, some ls => some (l :: ls)
    | _, _ => none) (some [])

def parseStrategy (t : String) : Option Strategy :=
  match t.splitOn ":" with
  | ["onhit"] => some .onHit
  | ["manual"] => some .manual
  | ["freq"] => some (.timed false)
  | ["age"] => some (.timed false)
  | ["after", n] => n.toNat?.map .afterN
  | _ => none

/-- `md5Nat` with a table of digests computed earlier in the case (the same payload is validated
by several calls of a case; RFC 1321 over 256 KiB costs ~0.3 s here). Extensionally `md5Nat`:
an entry is only ever `(v, md5Nat v)` and is found by equality of the whole byte list. -/
def memoMd5 (memo : List (List Nat × List Nat)) (v : List Nat) : List Nat :=
  match memo.find? (fun p => p.1 == v) with
  | some p => p.2
  | none => md5Nat v

def parseHooks (H : List Nat → List Nat) (t : String) (skip : Nat) : Option (Option Hooks) :=
  match t with
  | "none" => some none
  | "md5" => some (some (md5Hooks H skip))
  | "ngdp" => some (some (md5Hooks H skip))
  | "noop" => some (some noopHooks)
  | "err" => some (some errHooks)
  | _ => none

def detVictims : Victims := fun cfg s => MemCache.detVictims cfg.policy s.store (MemCache.evictN cfg s)

def showErr : Err → String
  | .config => "err:config" | .io => "err:io" | .validation => "err:validation"
  | .corruption => "err:corruption" | .backend => "err:backend"

def showOpt : Option (List Nat) → String
  | some v => "val " ++ showVal v
  | none => "none"

def showOut : Out → String
  | .unit => "ok"
  | .val o => showOpt o
  | .bool b => if b then "true" else "false"
  | .vals l => "vals " ++ (if l.isEmpty then "." else String.intercalate "|" (l.map (fun o => match o with
      | some v => showVal v | none => "none")))
  | .err e => showErr e

def parseKeys (s : String) : Option (List Nat) :=
  if s == "-" then some [] else
  (s.splitOn ",").foldr (fun t acc => match t.toNat?, acc with
    | some n, some l => some (n :: l)
    | _, _ => none) (some [])

def parseItems (s : String) : Option (List (Nat × List Nat)) :=
  if s == "-" then some [] else
  (s.splitOn ",").foldr (fun t acc => match t.splitOn "=", acc with
    | [k, v], some l => match k.toNat?, parseVal v with
      | some k, some v => some ((k, v) :: l)
      | _, _ => none
    | _, _ => none) (some [])

/-- a content key is exactly 16 bytes -/
def parseCk (s : String) : Option (List Nat) :=
  match parseHexNat s with
  | some l => if l.length = 16 then some l else none
  | none => none

def parseOp (toks : List String) : Option Op :=
  match toks with
  | ["put", k, v] => match k.toNat?, parseVal v with
    | some k, some v => some (.put k v) | _, _ => none
  | ["putttl", k, v, c] => match k.toNat?, parseVal v, parseClass c with
    | some k, some v, some c => some (.putTtl k v c) | _, _, _ => none
  | ["putl", k, v, i] => match k.toNat?, parseVal v, i.toNat? with
    | some k, some v, some i => some (.putToLayer k v i) | _, _, _ => none
  | ["get", k] => k.toNat?.map .get
  | ["getl", k, i] => match k.toNat?, i.toNat? with
    | some k, some i => some (.getFromLayer k i) | _, _ => none
  | ["promote", k, a, b] => match k.toNat?, a.toNat?, b.toNat? with
    | some k, some a, some b => some (.promote k a b) | _, _, _ => none
  | ["remove", k] => k.toNat?.map .remove
  | ["clear"] => some .clear
  | ["bget", ks] => (parseKeys ks).map .batchGet
  | ["bput", kvs] => (parseItems kvs).map .batchPut
  | ["putv", k, ck, v] => match k.toNat?, parseCk ck, parseVal v with
    | some k, some ck, some v => some (.putv k ck v) | _, _, _ => none
  | ["getv", k, ck] => match k.toNat? with
    | some k => if ck == "-" then some (.getv k none) else (parseCk ck).map (fun c => .getv k (some c))
    | none => none
  | ["fdel", i, k] => match i.toNat?, k.toNat? with
    | some i, some k => some (.fdel i k) | _, _ => none
  | ["fset", i, k, v] => match i.toNat?, k.toNat?, parseVal v with
    | some i, some k, some v => some (.fset i k v) | _, _, _ => none
  | _ => none

def showStats (s : State) : String :=
  String.intercalate " " (s.slots.map (fun sl => toString sl.hits ++ "/" ++ toString sl.misses))
    ++ " tracked=" ++ toString s.tracker.length ++ " promos=" ++ toString s.promotions

/-- split a trailing `ev=` token off a writing request: (tokens without it, observed victims) -/
def splitEv (toks : List String) : Option (List String × Option (List Nat)) :=
  match toks.getLast? with
  | some t =>
    match kv "ev=" t with
    | some h =>
      if ["put", "putttl", "putl", "promote", "bput", "putv"].contains (toks.headD "") then
        (parseKeys h).map (fun vs => (toks.dropLast, some vs))
      else none
    | none => some (toks, none)
  | none => some (toks, none)

/-- a batch put the protocol excludes (victims / expiry inside one call cannot be followed) -/
def outsideProtocol (s : State) : Op → Bool
  | .batchPut (_ :: _ :: _) =>
    match layerAt s 0 with
    | some (.mem cfg _) => cfg.policy == .lfu || cfg.policy == .random || (cfg.policy == .ttl && cfg.defaultShort)
    | _ => false
  | _ => false

/-- the value the hooks of this call will be asked to hash, if any -/
def hashedBy (s : State) : Op → Option (List Nat)
  | .putv _ _ v => some v
  | .getv k (some _) => firstHit (peeks s k)
  | _ => none

/-- the digest table extended by the value this call hashes (MD5 / NGDP hooks, value not exempt) -/
def memoFor (ds : DSt) (op : Op) : List (List Nat × List Nat) :=
  if ds.hk == "md5" || ds.hk == "ngdp" then
    match hashedBy ds.st op with
    | some v =>
      if v.length > ds.skip || (ds.memo.any (fun p => p.1 == v)) then ds.memo
      else ((v, md5Nat v) :: ds.memo).take 4
    | none => ds.memo
  else ds.memo

def handle (d : Option DSt) (toks : List String) : Option DSt × String :=
  match toks with
  | ["begin", ls, st, hk, sk] =>
    match (kv "L=" ls).bind parseLayers, (kv "strat=" st).bind parseStrategy, (kv "skip=" sk).bind (·.toNat?) with
    | some layers, some strat, some skip =>
      match (kv "hooks=" hk).bind (fun h => (parseHooks md5Nat h skip).map (fun x => (h, x))) with
      | some (hkind, hooks) =>
        if layers.isEmpty then (none, "err:config")
        else (some { env := { strategy := strat, hooks := hooks, victims := detVictims }, st := init layers,
                     hk := hkind, skip := skip, memo := [] }, "ok")
      | none => (none, "bad-op")
    | none, some _, some _ =>
      -- a layer specification the configuration validation rejects
      if (kv "L=" ls).isSome then (none, "err:config") else (none, "bad-op")
    | _, _, _ => (none, "bad-op")
  | _ =>
  match d with
  | none => (d, "bad-op")
  | some ds =>
    match toks with
    | ["stats"] => (d, showStats ds.st)
    | ["skipprobe", n] =>
      match n.toNat? with
      | some n => (d, match ds.env.hooks with
          | none => "nohooks"
          | some h => if h.skip [] n then "skipped" else "checked")
      | none => (d, "bad-op")
    | _ =>
      match splitEv toks with
      | none => (d, "bad-op")
      | some (toks, hint) =>
      match parseOp toks with
      | none => (d, "bad-op")
      | some op =>
        if outsideProtocol ds.st op then (d, "bad-op") else
        let okChoice := match hint, writeLayer op with
          | some vs, some i => hintOk ds.st i vs
          | some _, none => false
          | none, _ => true
        if !okChoice then (d, "bad-choice") else
        let memo := memoFor ds op
        let hooks := match parseHooks (memoMd5 memo) ds.hk ds.skip with
          | some h => h
          | none => ds.env.hooks
        let env := { ds.env with victims := hintVictims ds.env.victims hint, hooks := hooks }
        let r := step env ds.st op
        if lockOk r.trace then (some { ds with st := r.st, memo := memo }, showOut r.out)
        else (some { ds with st := r.st, memo := memo }, "timeout")

def main : IO Unit := do
  loopState (← IO.getStdin) (← IO.getStdout) handle (none : Option DSt)
