/-
Driver/C05 — runs the executable models of the key index (Model/Lsm) and of the residency
database (Model/Residency) on protocol lines.

  begin idx cap_pages=<n> per_page=<n>      reset, index stream
  add <key32hex> <id> <off> <size>  | rm <key> | upd <key> <id> <off> <size> | st <key> <status>
  get <key> | has <key> | iter | count | flush <b> | flushall | save | clear <b> | reload
  file <b>            bytes of the bucket's .idx file as last written (Model/LsmBytes.serialise with
                      Model/Jenkins hashes), zero runs of 8+ bytes written `z<n>;`; `none` = no file
  parse <b> <bytes>   Model/LsmBytes.parseFile + load_index's sort on the given file bytes, then
                      the bucket's iter_entries
  begin res per_page=<n> batch=<n>           reset, residency stream
  mark <key32hex> | unmark <key> | span <key> <off> <len> | del <key>,<key>,… | delpad <n> <key>,…
  isres <key> | scan | rcount | rsave | rload
-/
import Driver.Common
import Cascette.Model.Lsm
import Cascette.Model.Residency
import Cascette.Model.LsmBytes
import Cascette.Model.Jenkins
open Cascette Drv
open Cascette.Spec.IndexMap (Entry Op Out bucketOf)
open Cascette.Model

structure St where
  mode : Nat := 0            -- 0 none, 1 index, 2 residency
  cfg : Lsm.Cfg := ⟨60, 21⟩
  idx : Lsm.State := Lsm.State.init
  rcfg : Residency.Cfg := ⟨25, 10000⟩
  res : Residency.State := Residency.State.init

/-- replace the closure chains by array-backed tables (extensionally equal on buckets < 16,
the only ones `bucketOf` can produce); keeps every step O(1) in the history length. -/
def normalize (s : Lsm.State) : Lsm.State :=
  let m := ((List.range 16).map s.mem).toArray
  let d := ((List.range 16).map s.disk).toArray
  ⟨fun b => if h : b < m.size then m[b] else none, fun b => if h : b < d.size then d[b] else none⟩

def normalizeRes (s : Residency.State) : Residency.State :=
  let m := ((List.range 16).map s.buckets).toArray
  { s with buckets := fun b => if h : b < m.size then m[b] else [] }

def natOfBytes (l : List Nat) : Nat := l.foldl (fun a b => a * 256 + b) 0

/-- 16-byte key → its 9-byte truncation as a big-endian number. -/
def key9? (s : String) : Option Nat :=
  match parseHexNat s with
  | some l => if l.length = 16 then some (natOfBytes (l.take 9)) else none
  | none => none

def key16? (s : String) : Option Nat :=
  match parseHexNat s with
  | some l => if l.length = 16 then some (natOfBytes l) else none
  | none => none

def kv? (pfx : String) (s : String) : Option Nat :=
  if s.startsWith pfx then (s.drop pfx.length).toString.toNat? else none

def showEntry (e : Entry) : String :=
  s!"{hexFixed 18 e.key} {e.id} {e.off} {e.size}"

def showOut : Out → String
  | .ok => "ok"
  | .err => "err"
  | .bool b => if b then "true" else "false"
  | .entry none => "none"
  | .entry (some e) => showEntry e
  | .entries l => s!"n={l.length}" ++ String.join (l.map fun (b, e) => s!" {b}:{hexFixed 18 e.key}:{e.id}:{e.off}:{e.size}")
  | .num n => toString n

def idxOp? : List String → Option Op
  | ["add", k, id, off, size] =>
    match key9? k, id.toNat?, off.toNat?, size.toNat? with
    | some k, some id, some off, some size =>
      if id < 2 ^ 16 ∧ off < 2 ^ 32 ∧ size < 2 ^ 32 then some (.add k id off size) else none
    | _, _, _, _ => none
  | ["upd", k, id, off, size] =>
    match key9? k, id.toNat?, off.toNat?, size.toNat? with
    | some k, some id, some off, some size =>
      if id < 2 ^ 16 ∧ off < 2 ^ 32 ∧ size < 2 ^ 32 then some (.update k id off size) else none
    | _, _, _, _ => none
  | ["rm", k] => (key9? k).map .remove
  | ["st", k, st] =>
    match key9? k, st.toNat? with
    | some k, some st => if st = 0 ∨ st = 3 ∨ st = 6 ∨ st = 7 then some (.status k st) else none
    | _, _ => none
  | ["get", k] => (key9? k).map .lookup
  | ["has", k] => (key9? k).map .has
  | ["iter"] => some .iter
  | ["count"] => some .count
  | ["flush", b] => b.toNat?.bind fun b => if b < 256 then some (.flush b) else none
  | ["flushall"] => some .flushAll
  | ["save"] => some .saveAll
  | ["clear", b] => b.toNat?.bind fun b => if b < 256 then some (.clearBucket b) else none
  | ["reload"] => some .reload
  | _ => none

/-! ### file bytes -/

/-- `hashlittle(data, 0)` of Model/Jenkins on natural-number bytes. -/
def jenkH (l : List Nat) : Nat := (Jenkins.hashlittle (l.map (BitVec.ofNat 8)) 0).toNat

def flushZ (z : Nat) (acc : List Char) : List Char :=
  if z = 0 then acc
  else if z < 8 then List.replicate (2 * z) '0' ++ acc
  else (s!"z{z};").toList.reverse ++ acc

/-- hex with zero runs of 8 or more bytes compressed to `z<n>;` (accumulator reversed). -/
def rleGo : List Nat → Nat → List Char → List Char
  | [], z, acc => flushZ z acc
  | b :: r, z, acc =>
    if b = 0 then rleGo r (z + 1) acc
    else rleGo r 0 (hexChar (b % 16) :: hexChar (b / 16 % 16) :: flushZ z acc)

def rle (l : List Nat) : String :=
  if l.isEmpty then "-" else String.ofList (rleGo l 0 []).reverse

partial def unrleGo : List Char → List Nat → Option (List Nat)
  | [], acc => some acc.reverse
  | 'z' :: rest, acc =>
    let ds := rest.takeWhile (· ≠ ';')
    match (String.ofList ds).toNat?, rest.dropWhile (· ≠ ';') with
    | some n, ';' :: rest' => if n ≤ 16777216 then unrleGo rest' (List.replicate n 0 ++ acc) else none
    | _, _ => none
  | a :: b :: rest, acc =>
    match hexDigit a, hexDigit b with
    | some x, some y => unrleGo rest ((16 * x + y) :: acc)
    | _, _ => none
  | _, _ => none

def unrle (s : String) : Option (List Nat) := if s == "-" then some [] else unrleGo s.toList []

def showFile (cfg : Lsm.Cfg) (s : Lsm.State) (b : Nat) : String :=
  match s.disk b with
  | none => "none"
  | some img =>
    match LsmBytes.serialiseImage jenkH cfg.capPages b img with
    | some bytes => rle bytes
    | none => "err"

def showParse (b : Nat) (bytes : List Nat) : String :=
  match LsmBytes.parseFile bytes with
  | none => "err"
  | some img => showOut (.entries ((Lsm.iterBucket (Lsm.loadB img)).map fun e => (b, e)))

def keys16? (s : String) : Option (List Nat) :=
  if s == "-" then some [] else
  (s.splitOn ",").foldr (fun x acc => match key16? x, acc with
    | some k, some l => some (k :: l)
    | _, _ => none) (some [])

def resOp? : List String → Option Spec.ResidencySet.Op
  | ["mark", k] => (key16? k).map .mark
  | ["unmark", k] => (key16? k).map .unmark
  | ["span", k, _, _] => (key16? k).map .span
  | ["del", ks] => (keys16? ks).map (.delete 0)
  | ["delpad", n, ks] =>
    match n.toNat?, keys16? ks with
    | some n, some ks => some (.delete n ks)
    | _, _ => none
  | ["isres", k] => (key16? k).map .isResident
  | ["scan"] => some .scan
  | ["rcount"] => some .count
  | ["rsave"] => some .save
  | ["rload"] => some .load
  | _ => none

def showRes : Spec.ResidencySet.Out → String
  | .ok => "ok"
  | .bool b => if b then "true" else "false"
  | .keys l => s!"n={l.length}" ++ String.join ((l.mergeSort (· ≤ ·)).map fun k => " " ++ hexFixed 32 k)
  | .num n => toString n

def handle (s : St) (toks : List String) : St × String :=
  match toks with
  | ["begin", "idx", cp, pp] =>
    match kv? "cap_pages=" cp, kv? "per_page=" pp with
    | some cp, some pp => ({ s with mode := 1, cfg := ⟨cp, pp⟩, idx := Lsm.State.init }, "ok")
    | _, _ => (s, "bad-op")
  | ["begin", "res", pp, bt] =>
    match kv? "per_page=" pp, kv? "batch=" bt with
    | some pp, some bt => ({ s with mode := 2, rcfg := ⟨pp, bt⟩, res := Residency.State.init }, "ok")
    | _, _ => (s, "bad-op")
  | _ =>
    if s.mode = 1 then
      match toks with
      | ["file", b] =>
        match b.toNat? with
        | some b => if b < 256 then (s, showFile s.cfg s.idx b) else (s, "bad-op")
        | none => (s, "bad-op")
      | ["parse", b, bytes] =>
        match b.toNat?, unrle bytes with
        | some b, some bytes => if b < 256 then (s, showParse b bytes) else (s, "bad-op")
        | _, _ => (s, "bad-op")
      | _ =>
      match idxOp? toks with
      | some op =>
        let (i, o) := Lsm.step s.cfg s.idx op
        ({ s with idx := normalize i }, showOut o)
      | none => (s, "bad-op")
    else if s.mode = 2 then
      match resOp? toks with
      | some op =>
        let (r, o) := Residency.step s.rcfg s.res op
        ({ s with res := normalizeRes r }, showRes o)
      | none => (s, "bad-op")
    else (s, "bad-op")

def main : IO Unit := do
  loopState (← IO.getStdin) (← IO.getStdout) handle {}
