/-
Driver/C19 — runs the executable model of the install/download/size manifest builders, their
serialisation, parser and queries on protocol lines; plus `read <hex>`, an INDEPENDENT reader of
serialised manifest bytes (own walker over the format, bit extraction by `Spec.TagSets.readBits`,
i.e. by division arithmetic, MSB first) that shares no code with the model's mask functions.
-/
import Driver.Common
import Cascette.Model.Manifest
import Cascette.Model.ManifestExt
import Cascette.Model.ManifestMut
import Cascette.Spec.TagSets
open Cascette Drv
open Cascette.Model.Manifest Cascette.Model.Serial Cascette.Model.ManifestExt
open Cascette.Model.ManifestMut

structure St where
  mode : Nat := 0              -- 0 none, 1 install, 2 download, 3 size
  ib : IBuilder := IBuilder.empty
  isrc : ISrc := none          -- `source_header` of the install builder (set by `frommanifest`)
  db : Option DBuilder := none
  sb : SBuilder := SBuilder.new
  sf : Option SFile := none
  im : Option IManifest := none
  dm : Option DManifest := none
  bytes : Bytes := []

def idxList (l : List Nat) : String :=
  if l.isEmpty then "-" else ",".intercalate (l.map toString)

def parseName (s : String) : Option Bytes := parseHex s

def parseNames (s : String) : Option (List Bytes) :=
  if s == "none" then some [] else (s.splitOn ",").mapM parseName

def parseInt (s : String) : Option Int := s.toInt?

def tagLine (n : Nat) (t : Tag) : String :=
  hexOf t.name ++ ":" ++ toString t.typ ++ ":" ++ idxList ((List.range n).filter (hasFile t.mask))

def maskLine (t : Tag) : String := hexOf t.name ++ ":" ++ toString t.typ ++ ":" ++ hexOf t.mask

def joinC (l : List String) : String := if l.isEmpty then "-" else ",".intercalate l

def joinOr (l : List String) : String := if l.isEmpty then "-" else " ".intercalate l

/-! independent reader -/

def takeCStr : Bytes → Option (Bytes × Bytes)
  | [] => none
  | b :: r => if b.toNat == 0 then some ([], r) else (takeCStr r).map fun (s, r') => (b :: s, r')

def beNat (l : Bytes) : Nat := l.foldl (fun a b => 256 * a + b.toNat) 0

partial def walkTags (n : Nat) : Nat → Bytes → Option (List String)
  | 0, _ => some []
  | c + 1, bs =>
    match takeCStr bs with
    | none => none
    | some (name, r) =>
      if r.length < 2 + (n + 7) / 8 then none else
      let typ := beNat (r.take 2)
      let mask := (r.drop 2).take ((n + 7) / 8)
      match Spec.TagSets.readBits mask n with
      | none => none
      | some bits =>
        let idx := (List.range n).filter fun i => bits[i]? == some true
        match walkTags n c (r.drop (2 + (n + 7) / 8)) with
        | none => none
        | some rest => some ((hexOf name ++ ":" ++ toString typ ++ ":" ++ idxList idx) :: rest)

partial def skipIEntries (extra : Nat) : Nat → Bytes → Option Bytes
  | 0, bs => some bs
  | c + 1, bs =>
    match takeCStr bs with
    | none => none
    | some (_, r) => if r.length < 20 + extra then none else skipIEntries extra c (r.drop (20 + extra))

def independentRead (bs : Bytes) : String :=
  match bs with
  | 0x49 :: 0x4E :: ver :: _ :: rest =>          -- "IN"
    let tagCount := beNat (rest.take 2)
    let n := beNat ((rest.drop 2).take 4)
    let body := rest.drop (if ver.toNat ≥ 2 then 12 else 6)
    match walkTags n tagCount body with
    | some l => joinOr l
    | none => "err"
  | 0x44 :: 0x4C :: ver :: _ :: hc :: rest =>     -- "DL"
    let n := beNat (rest.take 4)
    let tagCount := beNat ((rest.drop 4).take 2)
    let v := ver.toNat
    let flagSize := if v ≥ 2 then ((rest.drop 6).take 1 |> beNat) else 0
    let hdrRest := if v == 1 then 6 else if v == 2 then 7 else 11
    let esz := 22 + (if hc.toNat != 0 then 4 else 0) + flagSize
    match walkTags n tagCount (rest.drop (hdrRest + n * esz)) with
    | some l => joinOr l
    | none => "err"
  | _ => "err"

/-! protocol -/

def exc {α : Type} (s : St) (r : Except Err α) (f : α → St) : St × String :=
  match r with
  | .ok a => (f a, "ok")
  | .error e => (s, e.str)

def idxOf {α : Type} (l : List (Nat × α)) : String := idxList (l.map (·.1))

def handle (s : St) : List String → St × String
  | ["begin", "install"] => ({ mode := 1 }, "ok")
  | ["begin", "download", v] =>
    match v.toNat? with
    | some v =>
      match DBuilder.new v with
      | .ok b => ({ mode := 2, db := some b }, "ok")
      | .error e => ({ mode := 2 }, e.str)
    | none => (s, "bad-op")
  | ["begin", "size"] => ({ mode := 3 }, "ok")
  | ["cks", v] =>
    match s.db, v.toNat? with
    | some b, some v => ({ s with db := some (b.withChecksums (v != 0)) }, "ok")
    | none, some _ => (s, "no-builder")
    | _, _ => (s, "bad-op")
  | ["flags", v] =>
    match s.db, v.toNat? with
    | some b, some v => exc s (b.withFlags v) fun b' => { s with db := some b' }
    | none, some _ => (s, "no-builder")
    | _, _ => (s, "bad-op")
  | ["base", v] =>
    match s.db, parseInt v with
    | some b, some v => exc s (b.withBase v) fun b' => { s with db := some b' }
    | none, some _ => (s, "no-builder")
    | _, _ => (s, "bad-op")
  | ["tag", name, typ] =>
    match parseName name, typ.toNat? with
    | some name, some typ =>
      if s.mode == 1 then ({ s with ib := s.ib.addTag name typ }, "ok")
      else if s.mode == 2 then
        match s.db with
        | some b => ({ s with db := some (b.addTag name typ) }, "ok")
        | none => (s, "no-builder")
      else if s.mode == 3 then ({ s with sb := s.sb.addTag name typ }, "ok")
      else (s, "bad-op")
    | _, _ => (s, "bad-op")
  | ["file", path, key, size] =>
    match parseHex path, parseHex key, size.toNat? with
    | some p, some k, some sz =>
      if s.mode == 1 then ({ s with ib := s.ib.addFile ⟨p, k, sz, none⟩ }, "ok") else (s, "bad-op")
    | _, _, _ => (s, "bad-op")
  | ["dfile", key, size, prio] =>
    match s.db, parseHex key, size.toNat?, parseInt prio with
    | some b, some k, some sz, some p => exc s (b.addFile k sz p) fun b' => { s with db := some b' }
    | none, some _, some _, some _ => (s, "no-builder")
    | _, _, _, _ => (s, "bad-op")
  | ["setcks", i, c] =>
    match s.db, i.toNat?, c.toNat? with
    | some b, some i, some c => exc s (b.setChecksum i c) fun b' => { s with db := some b' }
    | none, some _, some _ => (s, "no-builder")
    | _, _, _ => (s, "bad-op")
  | ["setflags", i, f] =>
    match s.db, i.toNat?, parseHex f with
    | some b, some i, some f => exc s (b.setFlags i f) fun b' => { s with db := some b' }
    | none, some _, some _ => (s, "no-builder")
    | _, _, _ => (s, "bad-op")
  | ["assoc", i, name] =>
    match i.toNat?, parseName name with
    | some i, some name =>
      if s.mode == 1 then exc s (s.ib.assoc i name) fun b' => { s with ib := b' }
      else match s.db with
        | some b => exc s (b.assoc i name) fun b' => { s with db := some b' }
        | none => (s, "no-builder")
    | _, _ => (s, "bad-op")
  | ["associdx", i, ti] =>
    match i.toNat?, ti.toNat? with
    | some i, some ti =>
      if s.mode == 1 then exc s (s.ib.assocIdx i ti) fun b' => { s with ib := b' } else (s, "bad-op")
    | _, _ => (s, "bad-op")
  | ["dissoc", i, name] =>
    match i.toNat?, parseName name with
    | some i, some name =>
      if s.mode == 1 then exc s (s.ib.dissoc i name) fun b' => { s with ib := b' }
      else match s.db with
        | some b => exc s (b.dissoc i name) fun b' => { s with db := some b' }
        | none => (s, "no-builder")
    | _, _ => (s, "bad-op")
  | ["rmfile", k] =>
    match k.toNat? with
    | some k =>
      if s.mode == 1 then exc s (s.ib.removeFile k) fun b' => { s with ib := b' }
      else match s.db with
        | some b => let (b', r) := b.removeFile k; ({ s with db := some b' }, if r then "ok" else "no")
        | none => (s, "no-builder")
    | none => (s, "bad-op")
  | ["rmtag", name] =>
    match parseName name with
    | some name =>
      if s.mode == 1 then exc s (s.ib.removeTag name) fun b' => { s with ib := b' }
      else match s.db with
        | some b =>
          match b.removeTag name with
          | .ok (b', r) => ({ s with db := some b' }, if r then "ok" else "no")
          | .error e => (s, e.str)
        | none => (s, "no-builder")
    | none => (s, "bad-op")
  | ["masks"] =>
    if s.mode == 1 then
      match IMut.build ⟨s.ib, s.isrc⟩ with
      | .ok m => (s, toString m.entries.length ++ " " ++ joinOr (m.tags.map maskLine))
      | .error e => (s, e.str)
    else if s.mode == 2 then
      match s.db with
      | some b =>
        match b.build with
        | .ok m => (s, toString m.entries.length ++ " " ++ joinOr (m.tags.map maskLine))
        | .error e => (s, e.str)
      | none => (s, "no-builder")
    else (s, "bad-op")
  | "build" :: rest =>
    if s.mode == 1 then
      match IMut.build ⟨s.ib, s.isrc⟩ with
      | .error e => (s, e.str)
      | .ok m0 =>
        let m : Option IManifest :=
          match rest with
          | [] => some m0
          | ["v2", cks, ec2, ft] =>
            match cks.toNat?, ec2.toNat?, ft.toNat? with
            | some c, some e, some f =>
              some { m0 with version := 2, v2 := some (c, e, 0),
                             entries := m0.entries.map fun en => { en with ftype := some f } }
            | _, _, _ => none
          | ["v2x", cks, ec2, ft, unk] =>
            -- V2 header with every extension field given, file-type byte (ft + 7 i) % 256 for entry i
            match cks.toNat?, ec2.toNat?, ft.toNat?, unk.toNat? with
            | some c, some e, some f, some u =>
              some { m0 with version := 2, v2 := some (c, e, u),
                             entries := m0.entries.mapIdx fun i en => { en with ftype := some ((f + 7 * i) % 256) } }
            | _, _, _, _ => none
          | _ => none
        match m with
        | none => (s, "bad-op")
        | some m =>
          let bytes := serInstall m
          ({ s with bytes := bytes, im := parseInstall bytes, dm := none }, hexOf bytes)
    else if s.mode == 2 then
      match s.db with
      | none => (s, "no-builder")
      | some b =>
        match b.build with
        | .error e => (s, e.str)
        | .ok m =>
          let bytes := serDownload m
          ({ s with bytes := bytes, dm := parseDownload bytes, im := none }, hexOf bytes)
    else (s, "bad-op")
  | ["frommanifest"] =>
    -- `from_manifest(&<the manifest parsed back after the last build>)` replaces the builder
    if s.mode == 1 then
      match s.im with
      | some m => ({ s with ib := (IMut.fromManifest m).b, isrc := (IMut.fromManifest m).src }, "ok")
      | none => (s, "no-manifest")
    else if s.mode == 2 then
      match s.dm with
      | some m => ({ s with db := some (dFromManifest m) }, "ok")
      | none => (s, "no-manifest")
    else (s, "bad-op")
  | ["q", "hdr"] =>
    match s.im, s.dm with
    | some m, _ =>
      (s, "v=" ++ toString m.version ++
        (match m.v2 with
         | some (c, e, u) => " cks=" ++ toString c ++ " ec2=" ++ toString e ++ " unk=" ++ toString u
         | none => "") ++
        " ft=" ++ joinC (m.entries.map fun e => match e.ftype with | some f => toString f | none => "n"))
    | none, some m =>
      (s, "v=" ++ toString m.version ++ " cks=" ++ (if m.hasCks then "1" else "0") ++
        " fs=" ++ toString m.flagSize ++ " base=" ++ toString m.basePrio)
    | none, none => (s, "no-manifest")
  | ["q", "eff"] =>
    match s.dm with
    | some m => (s, joinC ((effList m).map toString))
    | none => (s, "no-manifest")
  | ["reparse"] =>
    if s.mode == 1 then
      match s.im with
      | some m =>
        (s, "ok tags=" ++ toString m.tags.length ++ " entries=" ++ toString m.entries.length ++
            " same=" ++ (if serInstall m == s.bytes then "1" else "0"))
      | none => (s, "err")
    else if s.mode == 2 then
      match s.dm with
      | some m =>
        (s, "ok tags=" ++ toString m.tags.length ++ " entries=" ++ toString m.entries.length ++
            " same=" ++ (if serDownload m == s.bytes then "1" else "0"))
      | none => (s, "err")
    else (s, "bad-op")
  | ["trunc", n] =>
    match n.toNat? with
    | some n =>
      if s.mode == 1 then (s, if (parseInstall (s.bytes.take n)).isSome then "ok" else "err")
      else if s.mode == 2 then (s, if (parseDownload (s.bytes.take n)).isSome then "ok" else "err")
      else (s, "bad-op")
    | none => (s, "bad-op")
  | ["read", h] =>
    match parseHex h with
    | some bs => (s, independentRead bs)
    | none => (s, "bad-op")
  | ["q", "tags"] =>
    match s.im, s.dm with
    | some m, _ => (s, joinOr (m.tags.map (tagLine m.entries.length)))
    | none, some m => (s, joinOr (m.tags.map (tagLine m.entries.length)))
    | none, none => (s, "no-manifest")
  | ["q", "tag", name] =>
    match parseName name, s.im, s.dm with
    | some nm, some m, _ => (s, idxOf (m.filesForTag nm))
    | some nm, none, some m => (s, idxOf (m.byTag nm))
    | some _, none, none => (s, "no-manifest")
    | none, _, _ => (s, "bad-op")
  | ["q", "all", names] =>
    match parseNames names, s.im, s.dm with
    | some ns, some m, _ => (s, idxOf (m.allOf ns))
    | some ns, none, some m => (s, idxOf (m.byTags ns))
    | some _, none, none => (s, "no-manifest")
    | none, _, _ => (s, "bad-op")
  | ["q", "any", names] =>
    match parseNames names, s.im with
    | some ns, some m => (s, idxOf (m.anyOf ns))
    | some _, none => (s, "no-manifest")
    | none, _ => (s, "bad-op")
  | ["q", "size", names] =>
    match parseNames names, s.im, s.dm with
    | some ns, some m, _ => (s, toString (m.installSize ns))
    | some ns, none, some m => (s, toString (m.sizeForTags ns))
    | some _, none, none => (s, "no-manifest")
    | none, _, _ => (s, "bad-op")
  | ["q", "total"] =>
    match s.im, s.dm with
    | some m, _ => (s, toString m.totalSize)
    | none, some m => (s, toString m.totalSize)
    | none, none => (s, "no-manifest")
  | ["q", "prio", cat] =>
    match cat.toNat?, s.dm with
    | some c, some m => (s, idxOf (m.byPriority c))
    | some _, none => (s, "no-manifest")
    | none, _ => (s, "bad-op")
  | ["q", "prange", lo, hi] =>
    match parseInt lo, parseInt hi, s.dm with
    | some lo, some hi, some m => (s, idxOf (m.byPriorityRange lo hi))
    | some _, some _, none => (s, "no-manifest")
    | _, _, _ => (s, "bad-op")
  | ["q", "ess"] =>
    match s.dm with
    | some m => (s, toString m.essentialSize)
    | none => (s, "no-manifest")
  | ["q", "inter", a, b] =>
    match parseName a, parseName b, s.im with
    | some a, some b, some m =>
      match findTag m.tags a, findTag m.tags b with
      | some ta, some tb => (s, hexOf (intersect ta.mask tb.mask))
      | _, _ => (s, "no-tag")
    | some _, some _, none => (s, "no-manifest")
    | _, _, _ => (s, "bad-op")
  | ["q", "union", a, b] =>
    match parseName a, parseName b, s.im with
    | some a, some b, some m =>
      match findTag m.tags a, findTag m.tags b with
      | some ta, some tb => (s, hexOf (union ta.mask tb.mask))
      | _, _ => (s, "no-tag")
    | some _, some _, none => (s, "no-manifest")
    | _, _, _ => (s, "bad-op")
  | ["stagfile", ti, fi] =>
    match ti.toNat?, fi.toNat? with
    | some ti, some fi =>
      if s.mode == 3 then
        match s.sb.tagFile ti fi with
        | .ok b => ({ s with sb := b }, "ok")
        | .error e => (s, e.str)
      else (s, "bad-op")
    | _, _ => (s, "bad-op")
  | ["sentry"] =>
    -- legacy form: the k-th entry has key 00 00 00 00 00 ++ be32 k and esize 3k
    if s.mode == 3 then
      let k := s.sb.entries.length + 1
      ({ s with sb := s.sb.addEntry (List.replicate 5 0 ++ be32 k) (3 * k) }, "ok")
    else (s, "bad-op")
  | ["sentry", key, esize] =>
    match parseHex key, esize.toNat? with
    | some k, some e => if s.mode == 3 then ({ s with sb := s.sb.addEntry k e }, "ok") else (s, "bad-op")
    | _, _ => (s, "bad-op")
  | ["sver", v] =>
    match v.toNat? with
    | some v => if s.mode == 3 then ({ s with sb := { s.sb with version := v } }, "ok") else (s, "bad-op")
    | none => (s, "bad-op")
  | ["sekey", v] =>
    match v.toNat? with
    | some v => if s.mode == 3 then ({ s with sb := { s.sb with ekeySize := v } }, "ok") else (s, "bad-op")
    | none => (s, "bad-op")
  | ["stagcount", v] =>
    match v.toNat? with
    | some v => if s.mode == 3 then ({ s with sb := { s.sb with tagCount := v } }, "ok") else (s, "bad-op")
    | none => (s, "bad-op")
  | ["sesize", v] =>
    match v.toNat? with
    | some v => if s.mode == 3 then ({ s with sb := { s.sb with esizeBytes := v } }, "ok") else (s, "bad-op")
    | none => (s, "bad-op")
  | ["sbuild"] =>
    if s.mode == 3 then
      match s.sb.build with
      | .ok f => (s, toString f.entries.length ++ " " ++ joinOr (f.tags.map maskLine))
      | .error e => (s, e.str)
    else (s, "bad-op")
  | ["sser"] =>
    if s.mode == 3 then
      match s.sb.build with
      | .error e => (s, e.str)
      | .ok f =>
        match buildSFile f with
        | none => (s, "err:validate")
        | some bytes => ({ s with bytes := bytes, sf := parseSFile bytes }, hexOf bytes)
    else (s, "bad-op")
  | ["sreparse"] =>
    if s.mode == 3 then
      match s.sf with
      | some f =>
        (s, "ok v=" ++ toString f.version ++ " tags=" ++ toString f.tags.length ++ " entries=" ++
            toString f.entries.length ++ " total=" ++ toString f.total ++ " width=" ++ toString f.width ++
            " same=" ++ (if buildSFile f == some s.bytes then "1" else "0"))
      | none => (s, "err")
    else (s, "bad-op")
  | ["sq", "tags"] =>
    match s.sf with
    | some f => (s, joinOr (f.tags.map (tagLine f.entries.length)))
    | none => (s, "no-manifest")
  | ["sq", "sizes"] =>
    match s.sf with
    | some f => (s, idxList (f.entries.map (·.esize)))
    | none => (s, "no-manifest")
  | ["utf8", h] =>
    match parseHex h with
    | some bs => (s, if validUtf8 bs then "1" else "0")
    | none => (s, "bad-op")
  | ["parse", h] =>
    -- the parsers AS WRITTEN (UTF-8 checked inside the readers) on arbitrary bytes
    match parseHex h with
    | some bs =>
      match bs with
      | 0x49 :: 0x4E :: _ =>
        match parseInstallV bs with
        | some m => (s, "ok tags=" ++ toString m.tags.length ++ " entries=" ++ toString m.entries.length ++
            " names=" ++ joinC (m.tags.map (hexOf ·.name) ++ m.entries.map (hexOf ·.path)))
        | none => (s, "err")
      | 0x44 :: 0x4C :: _ =>
        match parseDownloadV bs with
        | some m => (s, "ok tags=" ++ toString m.tags.length ++ " entries=" ++ toString m.entries.length ++
            " names=" ++ joinC (m.tags.map (hexOf ·.name)))
        | none => (s, "err")
      | 0x44 :: 0x53 :: _ =>
        match parseSFile bs with
        | some f => (s, "ok tags=" ++ toString f.tags.length ++ " entries=" ++ toString f.entries.length ++
            " names=" ++ joinC (f.tags.map (hexOf ·.name)) ++ " total=" ++ toString f.total)
        | none => (s, "err")
      | _ => (s, "err")
    | none => (s, "bad-op")
  | _ => (s, "bad-op")

def main : IO Unit := do
  loopState (← IO.getStdin) (← IO.getStdout) handle ({} : St)
