/-
Driver/C04 — runs the executable models of the local storage (Model/Archive, Model/Container,
with the C05 index model Model/Lsm) on protocol lines.  Three streams, selected by the `begin`
line: `dyn` (DynamicContainer), `inst` (Installation), `arch` (ArchiveManager alone), `lim`
(an installation on a pre-sized `data.000`: limit arithmetic + index offset across a reopen).
MD5 = Spec/Md5; zlib / LZ4 are the graph of the (plain, compressed) pairs the request lines carry.
The `dyn` / `inst` streams run `Container.stepTC` / `istepTC`: the steps of Model/Container with
the data file kept in the pieces it was written in (Model/ArchiveChunked) and the index tables
stored after each step; `Props.C04.chunked_steps_are_the_model` and `tabulated_steps_are_the_model`
prove that their outputs are those of `Container.step` / `istep` on every history.
-/
import Driver.Common
import Cascette.Model.ArchiveChunked
import Cascette.Spec.Md5
open Cascette Drv
open Cascette.Model

/-- codec table: (mode, plain, compressed) as seen on `aw` lines. -/
abbrev Tab := List (Blte.Mode × Bytes × Bytes)

def codecOf (t : Tab) : Blte.Codec :=
  ⟨fun m x => (t.find? fun e => e.1 == m && e.2.1 == x).map (·.2.2),
   fun m c => (t.find? fun e => e.1 == m && e.2.2 == c).map (·.2.1)⟩

def paramsOf (t : Tab) : Archive.Params :=
  ⟨Spec.Md5.md5, Archive.localHeader, Archive.remapFixed, codecOf t, Archive.keepOnCreateNow⟩

inductive St
  | none
  | dyn (cfg : Lsm.Cfg) (s : Container.CState)
  | inst (cfg : Lsm.Cfg) (s : Container.CIState)
  | arch (s : Archive.State) (t : Tab)
  | lim (cfg : Lsm.Cfg)

def fnv64 (b : Bytes) : UInt64 :=
  b.foldl (fun h x => (h ^^^ UInt64.ofNat x.toNat) * 0x100000001b3) 0xcbf29ce484222325

def showBytes (b : Bytes) : String :=
  let n := b.length
  let base := "ok " ++ toString n ++ " " ++ hexFixed 16 (fnv64 b).toNat
  if n ≤ 40 then base ++ " " ++ hexOf b else base

def errName : Archive.Err → String
  | .noArchive => "err:noarchive"
  | .bounds => "err:bounds"
  | .blte => "err:blte"
  | .mode => "err:archive"
  | .tooLarge => "err:archive"
  | .rollover => "err:rollover"

def payload? (p f n : String) : Option Bytes :=
  match parseHex p, f.toNat?, n.toNat? with
  | some pre, some f, some n =>
    if f < 256 ∧ n ≤ 64 * 2 ^ 20 then some (pre ++ List.replicate n (BitVec.ofNat 8 f)) else none
  | _, _, _ => none

def key? (s : String) : Option Bytes :=
  match parseHex s with
  | some k => if k.length = 16 then some k else none
  | none => none

def kv? (s pre : String) : Option Nat :=
  if s.startsWith pre then (s.drop pre.length).toString.toNat? else none

def showOut : Container.Out → String
  | .ok => "ok"
  | .bytes b => showBytes b
  | .bool b => toString b
  | .notFound => "err:notfound"
  | .truncated => "err:truncated"
  | .err e => errName e
  | .indexErr => "err:other"

def showIOut : Container.IOut → String
  | .ok => "ok"
  | .key k => "ok " ++ hexOf k
  | .bytes b => showBytes b
  | .bool b => toString b
  | .notFound => "err:notfound"
  | .err e => errName e
  | .indexErr => "err:other"

def dynOp? : List String → Option Container.Op
  | ["w", p, f, n] => (payload? p f n).map .write
  | ["r", k, bl] =>
    match key? k, bl.toNat? with
    | some k, some bl => if bl ≤ 80 * 2 ^ 20 then some (.read k bl) else none
    | _, _ => none
  | ["q", k] => (key? k).map .query
  | ["rm", k] => (key? k).map .remove
  | ["flush", b] => b.toNat?.bind fun b => if b < 256 then some (.flush b) else none
  | ["flushall"] => some .flushAll
  | ["reopen"] => some .reopen
  | _ => none

def instOp? : List String → Option Container.IOp
  | ["w", p, f, n, c] =>
    match payload? p f n, c with
    | some d, "0" => some (.write d false)
    | some d, "1" => some (.write d true)
    | _, _ => none
  | ["r", k] => (key? k).map .read
  | ["q", k] => (key? k).map .has
  | ["reopen"] => some .reopen
  | ["open"] => some .openOnly
  | ["init"] => some .init
  | _ => none

/-- `lw pos fill n`: an installation on a directory whose `data.000` has `pos` bytes and no index
file; `write_file(n × fill)`, the entry the index then holds, drop + open + initialize, the entry
again.  Only the limit arithmetic (`Archive.placeAt`) and the index (`Lsm`) are involved, so the
file content is never materialised. -/
def limLine (cfg : Lsm.Cfg) (pos fill n : Nat) : String :=
  let d : Bytes := List.replicate n (BitVec.ofNat 8 fill)
  match Archive.blteOf (codecOf []) d .none with
  | .error e => errName e
  | .ok blte =>
  match Archive.placeAt pos blte.length with
  | .error e => errName e
  | .ok (off, total) =>
    let k := Container.key9 (Spec.Md5.md5 blte)
    match Lsm.step cfg Lsm.State.init (.add k 0 off total) with
    | (ix, .ok) =>
      let ix1 := Lsm.saveAll ix
      let show? : Option Spec.IndexMap.Entry → String
        | some e => toString e.id ++ ":" ++ toString e.off ++ ":" ++ toString e.size
        | none => "none"
      "ok " ++ toString off ++ " " ++ toString total ++ " mem=" ++ show? (Lsm.lookup ix1 k) ++
        " reopened=" ++ show? (Lsm.lookup (Lsm.reload ix1) k)
    | (_, _) => "err:other"

def u16? (s : String) : Option Nat := s.toNat?.bind fun n => if n < 2 ^ 16 then some n else none
def u32? (s : String) : Option Nat := s.toNat?.bind fun n => if n < 2 ^ 32 then some n else none

def handle (st : St) (toks : List String) : St × String :=
  match toks with
  | "begin" :: kind :: rest =>
    match kind, rest with
    | "arch", [h] =>
      if kv? h "hdr=" = some Archive.headerSize then (.arch Archive.State.init [], "ok") else (.none, "ok")
    | k, [cp, pp, h] =>
      if k ≠ "dyn" ∧ k ≠ "inst" ∧ k ≠ "lim" then (st, "bad-op") else
      match kv? cp "cap_pages=", kv? pp "per_page=", kv? h "hdr=" with
      | some cp, some pp, some h =>
        if h ≠ Archive.headerSize then (.none, "ok")
        else if k = "dyn" then (.dyn ⟨cp, pp⟩ Container.CState.init, "ok")
        else if k = "lim" then (.lim ⟨cp, pp⟩, "ok")
        else (.inst ⟨cp, pp⟩ Container.CIState.init, "ok")
      | _, _, _ => (st, "bad-op")
    | _, _ => (st, "bad-op")
  | _ =>
    match st with
    | .none => (st, "bad-op")
    | .dyn cfg s =>
      match toks with
      | ["count"] => (st, toString (Lsm.iter s.ix).length)
      | ["marks"] => (st, toString s.marked.length)
      | _ =>
        match dynOp? toks with
        | some op =>
          let (s', o) := Container.stepTC (paramsOf []) cfg s op
          (.dyn cfg s', showOut o)
        | none => (st, "bad-op")
    | .inst cfg s =>
      match instOp? toks with
      | some op =>
        let (s', o) := Container.istepTC (paramsOf []) cfg s op
        (.inst cfg s', showIOut o)
      | none => (st, "bad-op")
    | .lim cfg =>
      match toks with
      | [op, pos, f, n] =>
        if op ≠ "lw" ∧ op ≠ "lwd" then (st, "bad-op") else
        match pos.toNat?, f.toNat?, n.toNat? with
        | some pos, some f, some n =>
          if f < 256 ∧ n ≤ 2 ^ 20 ∧ pos ≤ 2 ^ 34 then (st, limLine cfg pos f n) else (st, "bad-op")
        | _, _, _ => (st, "bad-op")
      | _ => (st, "bad-op")
    | .arch s t =>
      match toks with
      | ["anew"] => (.arch (Archive.dropOpen s) t, "ok")
      | ["aw", m, p, f, n, comp] =>
        let mode? : Option Blte.Mode := if m = "N" then some .none else if m = "Z" then some .zlib
          else if m = "4" then some .lz4 else none
        match mode?, payload? p f n, parseHex comp with
        | some mode, some d, some c =>
          let t' : Tab := if mode = .none then t else (mode, d, c) :: t
          match Archive.write (paramsOf t') s d mode with
          | (s', .ok (id, off, total, key)) =>
            (.arch s' t', "ok " ++ toString id ++ " " ++ toString off ++ " " ++ toString total ++ " " ++ hexOf key)
          | (s', .error e) => (.arch s' t', errName e)
        | _, _, _ => (st, "bad-op")
      | ["ac", id, off, size] =>
        match u16? id, u32? off, u32? size with
        | some id, some off, some size =>
          match Archive.readContent (paramsOf t) s id off size with
          | .ok b => (st, showBytes b)
          | .error e => (st, errName e)
        | _, _, _ => (st, "bad-op")
      | ["araw", id, off, size] =>
        match u16? id, u32? off, u32? size with
        | some id, some off, some size =>
          match Archive.readRaw s id off size with
          | .ok b => (st, showBytes b)
          | .error e => (st, errName e)
        | _, _, _ => (st, "bad-op")
      | ["areopen"] => (.arch (Archive.reopen s) t, "ok")
      | _ => (st, "bad-op")

def main : IO Unit := do
  loopState (← IO.getStdin) (← IO.getStdout) handle St.none
