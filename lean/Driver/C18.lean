/- Driver/C18 — stub until the property's model driver is written. -/
import Driver.Common
open Drv

def main : IO Unit := do
  loopPure (← IO.getStdin) (← IO.getStdout) (fun _ => "bad-op")
