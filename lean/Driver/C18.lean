/-
Driver/C18 — runs the executable compaction model (`Model/Compaction.lean`) on protocol lines.
Request/response grammar: see the head of `harness/src/bin/c18.rs`.
-/
import Driver.Common
import Cascette.Model.Compaction
import Cascette.Spec.Compaction
import Cascette.Generated.CompactionSrc
open Cascette Drv
open Cascette.Model.Compaction
open Cascette.Spec.Compaction (Span)

def genByte (i seed : Nat) : Byte :=
  BitVec.ofNat 8 ((i + seed + (i / 256) * 37 + (i / 65536) * 101) % 256)

def parseFile (t : String) : Option Bytes :=
  match t.splitOn ":" with
  | ["hex", h] => parseHex h
  | ["gen", l, s] =>
    match l.toNat?, s.toNat? with
    | some l, some s => if l > 2 ^ 26 then none else some ((List.range l).map (genByte · s))
    | _, _ => none
  | _ => none

def parsePairs (t : String) : Option (List (String × String)) :=
  if t == "-" then some [] else
  (t.splitOn ",").mapM fun p =>
    match p.splitOn ":" with
    | [a, b] => some (a, b)
    | _ => none

def parseSpans (t : String) : Option (List Span) := do
  let ps ← parsePairs t
  ps.mapM fun (a, b) => do
    let o ← a.toNat?
    let l ← b.toNat?
    if o ≥ 2 ^ 64 ∨ l ≥ 2 ^ 64 then none else pure ⟨o, l⟩

def parseSegs (t : String) : Option (List Seg) := do
  let ps ← parsePairs t
  ps.mapM fun (a, b) => do
    let u ← b.toNat?
    if u ≥ 2 ^ 64 then none
    else if a == "F" then pure ⟨true, u⟩
    else if a == "T" then pure ⟨false, u⟩
    else none

def fmtSpans (l : List Span) : String :=
  if l.isEmpty then "-" else ",".intercalate (l.map fun s => s!"{s.off}:{s.len}")

def fnv64 (b : Bytes) : UInt64 :=
  b.foldl (fun h x => (h ^^^ x.toNat.toUInt64) * 0x00000100000001b3) 0xcbf29ce484222325

def fileObs (b : Bytes) : String :=
  let s := s!"len={b.length} fp={hexFixed 16 (fnv64 b).toNat}"
  if b.length ≤ 32 then s ++ " data=" ++ hexOf b else s

def f64 (n : Nat) : Float := n.toUInt64.toFloat

def fmtList (l : List Nat) : String :=
  if l.isEmpty then "-" else ".".intercalate (l.map toString)

def budgetOk (b : Nat) : Bool := b ≤ 2 ^ 28

def handle : List String → String
  | ["val", sp] =>
    match parseSpans sp with
    | some spans =>
      let (s, ok) := validateSpansU64 spans
      (if ok then "ok " else "err ") ++ fmtSpans s
    | none => "bad-op"
  | ["mover", b] =>
    match b.toNat? with
    | some b =>
      if !budgetOk b then "bad-op" else
      let m := moverNew b
      s!"{m.bufSize} {m.bufCount}"
    | none => "bad-op"
  | ["xc", b, f, sp] =>
    match b.toNat?, parseFile f, parseSpans sp with
    | some b, some f, some spans =>
      if !budgetOk b then "bad-op" else
      let r := extractCompactU64 (moverNew b) f spans
      match r.saved with
      | some n => s!"ok saved={n} " ++ fileObs r.file
      | none => "err " ++ fileObs r.file
    | _, _, _ => "bad-op"
  | ["cip", b, f, src, dst, n] =>
    match b.toNat?, parseFile f, src.toNat?, dst.toNat?, n.toNat? with
    | some b, some f, some src, some dst, some n =>
      if !budgetOk b || dst > 2 ^ 26 || n > 2 ^ 26 || src > 2 ^ 40 then "bad-op" else
      let (f', m, ok) := compactInPlace (moverNew b) f src dst n
      (if ok then "ok" else "err") ++ s!" moved={m.moved} " ++ fileObs f'
    | _, _, _, _, _ => "bad-op"
  | ["mv", b, sf, so, df, dof, n] =>
    match b.toNat?, parseFile sf, so.toNat?, parseFile df, dof.toNat?, n.toNat? with
    | some b, some sf, some so, some df, some dof, some n =>
      if !budgetOk b || dof > 2 ^ 22 || n > 2 ^ 26 || so > 2 ^ 40 then "bad-op" else
      let (d', m, ok) := moveData (moverNew b) sf so df dof n
      (if ok then "ok" else "err") ++ s!" moved={m.moved} " ++ fileObs d'
    | _, _, _, _, _, _ => "bad-op"
  | ["plan", thr, size, sg] =>
    match parseHexNat thr, size.toNat?, parseSegs sg with
    | some tb, some size, some segs =>
      if tb.length ≠ 8 || size ≥ 2 ^ 64 then "bad-op" else
      let bits := tb.foldl (fun a x => a * 256 + x) 0
      let t := Float.ofBits bits.toUInt64
      let isSource := fun (used : Nat) => decide (f64 used / f64 size < t)
      match planMerge isSource size segs with
      | none => "panic"
      | some p =>
        let ms := if p.moves.isEmpty then "-" else
          ",".intercalate (p.moves.map fun m => s!"{m.src}+{m.srcOff}>{m.dst}@{m.dstOff}+{m.len}")
        s!"{ms} total={p.total} srcs={fmtList p.srcs} tgts={fmtList p.tgts}"
    | _, _, _ => "bad-op"
  | ["exec", b, thr, size, sg] =>
    match b.toNat?, parseHexNat thr, size.toNat?, parseSegs sg with
    | some b, some tb, some size, some segs =>
      if !budgetOk b || tb.length ≠ 8 || size ≥ 2 ^ 64 || segs.length > 64 ||
          segs.any (fun s => s.used > 2 ^ 20) then "bad-op" else
      let bits := tb.foldl (fun a x => a * 256 + x) 0
      let t := Float.ofBits bits.toUInt64
      let isSource := fun (used : Nat) => decide (f64 used / f64 size < t)
      let files := (List.range segs.length).zip segs |>.map fun (i, sg) =>
        (List.range sg.used).map (genByte · (i * 17 + 3))
      match planMerge isSource size segs with
      | none => "panic"
      | some p =>
        match execPlan (moverNew b) files p.moves with
        | none => "err"
        | some (final, m) =>
          let fs := if final.isEmpty then "-" else
            ",".intercalate (final.map fun f => s!"{f.length}:{hexFixed 16 (fnv64 f).toNat}")
          s!"ok moves={p.moves.length} moved={m.moved} {fs}"
    | _, _, _, _ => "bad-op"
  | ["arch", pre, ws] =>
    match pre.toNat? with
    | some pre =>
      let totals? : Option (List Nat) :=
        if ws == "-" then some [] else (ws.splitOn ",").mapM String.toNat?
      match totals? with
      | some totals =>
        if pre > 2 ^ 23 || totals.any (fun x => x < 39 || x > 2 ^ 22) || totals.length > 64 then "bad-op" else
        -- the file content is not an observable of this op: lengths only
        -- remap test of write_to_archive since /repo 6172e03: `new_size != current_size`
        let grew := fun (new old : Nat) => decide (new ≠ old)
        -- `utilization < (1.0 - threshold)` with the threshold extracted from the source text
        let thr : Float := Float.ofNat Cascette.Generated.CompactionSrc.arch_threshold_num /
          Float.ofNat Cascette.Generated.CompactionSrc.arch_threshold_den
        let utilLow := fun (used mapped : Nat) => decide (f64 used / f64 mapped < 1.0 - thr)
        let a := totals.foldl (fun a t => archWrite grew a (List.replicate t 0)) (archOpen (List.replicate pre 0))
        let (a', n, r) := archCompact utilLow a
        s!"compacted={n} reclaimed={r} len={a'.file.length}"
      | none => "bad-op"
    | none => "bad-op"
  | _ => "bad-op"

def main : IO Unit := do
  loopPure (← IO.getStdin) (← IO.getStdout) handle
