/-
Driver/C10 — runs the executable models of the in-memory and on-disk caches on protocol lines.

  begin mem max=<n> bytes=<n>|none policy=lru|lfu|fifo|random|ttl dttl=long|short
  begin disk dttl=long|short
  put <key> <hex> ev=auto|-|k1,k2,…        putttl <key> <hex> long|short ev=…
  get <key>   contains <key>   remove <key>   clear   size   stats   reopen (disk only)

`ev=` on a put names the victims the implementation chose where the choice is not determined
(Lfu ties, Random); the model checks the choice is one the policy allows (`victimsOk`) and
answers `bad-choice` otherwise. `ev=auto`: the model computes the victims itself (Lru, Fifo
with distinct time stamps; Ttl policy; no eviction).  The disk cache ignores `ev=`.
-/
import Driver.Common
import Cascette.Model.MemCache
import Cascette.Model.DiskCache
open Cascette Drv
open Cascette.Model

inductive St where
  | none
  | mem (cfg : MemCache.Config) (s : MemCache.State)
  | disk (cfg : DiskCache.Config) (s : DiskCache.State)

def kv (pre : String) (t : String) : Option String :=
  if t.startsWith pre then some (t.drop pre.length).toString else none

def parsePolicy : String → Option MemCache.Policy
  | "lru" => some .lru | "lfu" => some .lfu | "fifo" => some .fifo
  | "random" => some .random | "ttl" => some .ttl | _ => none

def parseClass : String → Option Bool
  | "short" => some true | "long" => some false | _ => none

def parseKeys (s : String) : Option (List Nat) :=
  if s == "-" then some [] else
  (s.splitOn ",").foldr (fun t acc => match t.toNat?, acc with
    | some n, some l => some (n :: l)
    | _, _ => none) (some [])

/-- `none` = auto -/
def parseEv (t : String) : Option (Option (List Nat)) :=
  match kv "ev=" t with
  | some "auto" => some none
  | some s => (parseKeys s).map some
  | none => none

def showVal (v : List Nat) : String := hexOfNats v

def memPut (cfg : MemCache.Config) (s : MemCache.State) (k : Nat) (v : List Nat) (short : Bool)
    (ev : Option (List Nat)) : St × String :=
  let s1 := MemCache.tick s
  let vs := match ev with
    | some l => l
    | none => MemCache.detVictims cfg.policy s1.store (MemCache.evictN cfg s1)
  let op := MemCache.Op.putTtl k v short vs
  if MemCache.opOk cfg s op then
    (.mem cfg (MemCache.step cfg s op).1, "ok")
  else (.mem cfg s, "bad-choice")

def handle (st : St) (toks : List String) : St × String :=
  match toks with
  | ["begin", "mem", mx, by_, pol, dt] =>
    match (kv "max=" mx).bind (·.toNat?), kv "bytes=" by_, (kv "policy=" pol).bind parsePolicy,
          (kv "dttl=" dt).bind parseClass with
    | some mx, some b, some pol, some dt =>
      let mb : Option (Option Nat) := if b == "none" then some none else b.toNat?.map some
      match mb with
      | some mb =>
        if mx = 0 ∨ mb = some 0 then (.none, "err:config") else
        (.mem { maxEntries := mx, maxBytes := mb, policy := pol, defaultShort := dt } MemCache.init, "ok")
      | none => (st, "bad-op")
    | _, _, _, _ => (st, "bad-op")
  | ["begin", "disk", dt] =>
    match (kv "dttl=" dt).bind parseClass with
    | some dt => (.disk { defaultShort := dt } DiskCache.init, "ok")
    | none => (st, "bad-op")
  | _ =>
  match st with
  | .none => (st, "bad-op")
  | .mem cfg s =>
    match toks with
    | ["put", k, v, ev] =>
      match k.toNat?, parseHexNat v, parseEv ev with
      | some k, some v, some ev => memPut cfg s k v cfg.defaultShort ev
      | _, _, _ => (st, "bad-op")
    | ["putttl", k, v, c, ev] =>
      match k.toNat?, parseHexNat v, parseClass c, parseEv ev with
      | some k, some v, some c, some ev => memPut cfg s k v c ev
      | _, _, _, _ => (st, "bad-op")
    | ["get", k] =>
      match k.toNat? with
      | some k =>
        let (s', o) := MemCache.step cfg s (.get k)
        (.mem cfg s', match o with | .val (some v) => "val " ++ showVal v | _ => "none")
      | none => (st, "bad-op")
    | ["contains", k] =>
      match k.toNat? with
      | some k =>
        let (s', o) := MemCache.step cfg s (.contains k)
        (.mem cfg s', match o with | .bool true => "true" | _ => "false")
      | none => (st, "bad-op")
    | ["remove", k] =>
      match k.toNat? with
      | some k =>
        let (s', o) := MemCache.step cfg s (.remove k)
        (.mem cfg s', match o with | .bool true => "true" | _ => "false")
      | none => (st, "bad-op")
    | ["clear"] => (.mem cfg (MemCache.step cfg s .clear).1, "ok")
    | ["size"] =>
      let (s', o) := MemCache.step cfg s .size
      (.mem cfg s', match o with | .num n => toString n | _ => "?")
    | ["stats"] =>
      let (s', o) := MemCache.step cfg s .stats
      (.mem cfg s', match o with | .stats n b => toString n ++ " " ++ toString b | _ => "?")
    | _ => (st, "bad-op")
  | .disk cfg s =>
    let go (op : DiskCache.Op) : St × String :=
      let (s', o) := DiskCache.step cfg s op
      (.disk cfg s', match o with
        | .unit => "ok"
        | .got .miss => "none"
        | .got (.hit v) => "val " ++ showVal v
        | .got .ioErr => "err:io"
        | .bool b => if b then "true" else "false"
        | .num n => toString n
        | .stats n b => toString n ++ " " ++ toString b)
    match toks with
    | ["put", k, v, _ev] =>
      match k.toNat?, parseHexNat v with
      | some k, some v => go (.put k v)
      | _, _ => (st, "bad-op")
    | ["putttl", k, v, c, _ev] =>
      match k.toNat?, parseHexNat v, parseClass c with
      | some k, some v, some c => go (.putTtl k v c)
      | _, _, _ => (st, "bad-op")
    | ["get", k] => match k.toNat? with | some k => go (.get k) | none => (st, "bad-op")
    | ["contains", k] => match k.toNat? with | some k => go (.contains k) | none => (st, "bad-op")
    | ["remove", k] => match k.toNat? with | some k => go (.remove k) | none => (st, "bad-op")
    | ["clear"] => go .clear
    | ["size"] => go .size
    | ["stats"] => go .stats
    | ["reopen"] => go .reopen
    | _ => (st, "bad-op")

def main : IO Unit := do
  loopState (← IO.getStdin) (← IO.getStdout) handle St.none
