/-
Driver/C10 — runs the executable models of the in-memory and on-disk caches on protocol lines.

  begin mem|memc max=<n> bytes=<n>|none policy=lru|lfu|fifo|random|ttl dttl=long|short
  begin disk|diskc dttl=long|short [sub=<levels 1..7>] [refuse=<k1,k2,…>]
  put <key> <hex> ev=auto|-|k1,k2,…        putttl <key> <hex> long|short ev=…
  get <key>   contains <key>   remove <key>   clear   size   stats   reopen (disk only)
  cleanup (memc / diskc only: one tick of the task `new_with_cleanup` / `new_with_background_tasks` spawns)
  validate mem <max> <bytes|none> <cleanup_zero 0|1>
  validate disk <max_files> <bytes|none> <cleanup_zero> <sync_zero> <use_subdirs> <levels>
`stats` answers `<entries> <bytes> <get_count> <hit_count> <miss_count>` (Model/CacheExt).

`ev=` on a put names the victims the implementation chose where the choice is not determined
(Lfu ties, Random); the model checks the choice is one the policy allows (`victimsOk`) and
answers `bad-choice` otherwise. `ev=auto`: the model computes the victims itself (Lru, Fifo
with distinct time stamps; Ttl policy; no eviction).  The disk cache ignores `ev=`.
-/
import Driver.Common
import Cascette.Model.MemCache
import Cascette.Model.DiskCache
import Cascette.Model.CacheExt
open Cascette Drv
open Cascette.Model
open Cascette.Model.CacheExt

inductive St where
  | none
  /-- `task`: created by `new_with_cleanup` -/
  | mem (cfg : MemCache.Config) (x : Mem.XState) (task : Bool)
  /-- `refuse`: the keys whose file name the file system refuses (begin line, `refuse=`) -/
  | disk (cfg : DiskCache.Config) (x : Disk.XState) (task : Bool) (refuse : List Nat)

def kv (pre : String) (t : String) : Option String :=
  if t.startsWith pre then some (t.drop pre.length).toString else none

def parsePolicy : String → Option MemCache.Policy
  | "lru" => some .lru | "lfu" => some .lfu | "fifo" => some .fifo
  | "random" => some .random | "ttl" => some .ttl | _ => none

def parseClass : String → Option Bool
  | "short" => some true | "long" => some false | _ => none

def parseKeys (s : String) : Option (List Nat) :=
  if s == "-" then some [] else
  (s.splitOn ",").foldr (fun t acc => match t.toNat?, acc with
    | some n, some l => some (n :: l)
    | _, _ => none) (some [])

/-- `none` = auto -/
def parseEv (t : String) : Option (Option (List Nat)) :=
  match kv "ev=" t with
  | some "auto" => some none
  | some s => (parseKeys s).map some
  | none => none

def showVal (v : List Nat) : String := hexOfNats v

def memPut (cfg : MemCache.Config) (x : Mem.XState) (task : Bool) (k : Nat) (v : List Nat) (short : Bool)
    (ev : Option (List Nat)) : St × String :=
  match ev with
  | none =>
    -- the caller-level operation: victims filled in by `Mem.elabOp` (= `detVictims`); allowed by
    -- theorem `mem_auto_victims_allowed`, so no check is needed here
    (.mem cfg (Mem.astep cfg x (.putTtl k v short)).1 task, "ok")
  | some vs =>
    let op := MemCache.Op.putTtl k v short vs
    if MemCache.opOk cfg x.s op then
      (.mem cfg (Mem.xstep cfg x (.base op)).1 task, "ok")
    else (.mem cfg x task, "bad-choice")

def parseBytes (b : String) : Option (Option Nat) :=
  if b == "none" then some none else b.toNat?.map some

def parseFlag : String → Option Bool
  | "0" => some false | "1" => some true | _ => none

def showStats (n b : Int) (g h : Nat) (m : Int) : String :=
  toString n ++ " " ++ toString b ++ " " ++ toString g ++ " " ++ toString h ++ " " ++ toString m

/-- the directory layout (`sub=<levels>`: hashed sub-directories, absent: flat) decides where a
key's file lies, not what the cache answers: the model has one file per key either way (injectivity
of key ↦ path is the stated assumption the run probes with near-colliding keys).  The token is
checked (canonical decimal 1..7, as the harness does) and otherwise ignored. -/
def parseSub (t : String) : Option Nat :=
  match (kv "sub=" t).bind (fun v => v.toNat?.bind (fun n => if toString n == v then some n else none)) with
  | some n => if 1 ≤ n && n ≤ 7 then some n else none
  | none => none

/-- `refuse=<k1,k2,…>` (canonical decimals, at least one): the keys of this history whose file
the file system will not create — the key text's last path segment, or the temporary name derived
from it, is longer than NAME_MAX.  A fact about key texts and the file system, computed by the
harness from its key table; a put of such a key is `XOp.putRefused`. -/
def parseRefuse (t : String) : Option (List Nat) :=
  match kv "refuse=" t with
  | some v =>
    if v == "-" then none else
    (parseKeys v).bind (fun l => if ",".intercalate (l.map toString) == v then some l else none)
  | none => none

def beginDisk (task : Bool) (dt : String) (sub : Option String) (refuse : Option String) : St × String :=
  match (kv "dttl=" dt).bind parseClass, sub.map parseSub, refuse.map parseRefuse with
  | _, some none, _ => (.none, "bad-op")
  | _, _, some none => (.none, "bad-op")
  | some dt, sub, refuse =>
    let lv := match sub with | some (some lv) => lv | _ => 1
    let rf := match refuse with | some (some l) => l | _ => []
    if Disk.validate 1 none false false true lv then (.disk { defaultShort := dt } Disk.xinit task rf, "ok")
    else (.none, "err:config")
  | none, _, _ => (.none, "bad-op")

def handle (st : St) (toks : List String) : St × String :=
  match toks with
  | ["begin", m, mx, by_, pol, dt] =>
    -- a `begin` line always ends the running case; one that cannot be read leaves no case
    if m != "mem" && m != "memc" then (.none, "bad-op") else
    match (kv "max=" mx).bind (·.toNat?), kv "bytes=" by_, (kv "policy=" pol).bind parsePolicy,
          (kv "dttl=" dt).bind parseClass with
    | some mx, some b, some pol, some dt =>
      match parseBytes b with
      | some mb =>
        -- the harness always configures a non-zero cleanup_interval
        if !Mem.validate mx mb false then (.none, "err:config") else
        (.mem { maxEntries := mx, maxBytes := mb, policy := pol, defaultShort := dt } Mem.xinit (m == "memc"), "ok")
      | none => (.none, "bad-op")
    | _, _, _, _ => (.none, "bad-op")
  | ["begin", m, dt] =>
    if m != "disk" && m != "diskc" then (.none, "bad-op") else beginDisk (m == "diskc") dt none none
  | ["begin", m, dt, t] =>
    if m != "disk" && m != "diskc" then (.none, "bad-op") else
    if t.startsWith "sub=" then beginDisk (m == "diskc") dt (some t) none
    else beginDisk (m == "diskc") dt none (some t)
  | ["begin", m, dt, sub, rf] =>
    if m != "disk" && m != "diskc" then (.none, "bad-op") else beginDisk (m == "diskc") dt (some sub) (some rf)
  | "begin" :: _ => (.none, "bad-op")
  | ["validate", "mem", mx, b, cz] =>
    match mx.toNat?, parseBytes b, parseFlag cz with
    | some mx, some mb, some cz => (st, if Mem.validate mx mb cz then "ok" else "err:config")
    | _, _, _ => (st, "bad-op")
  | ["validate", "disk", mf, b, cz, sz, sub, lv] =>
    match mf.toNat?, parseBytes b, parseFlag cz, parseFlag sz, parseFlag sub, lv.toNat? with
    | some mf, some mb, some cz, some sz, some sub, some lv =>
      (st, if Disk.validate mf mb cz sz sub lv then "ok" else "err:config")
    | _, _, _, _, _, _ => (st, "bad-op")
  | _ =>
  match st with
  | .none => (st, "bad-op")
  | .mem cfg x task =>
    let base (op : MemCache.Op) : St × String :=
      let (x', o) := Mem.xstep cfg x (.base op)
      (.mem cfg x' task, match o with
        | .base (.val (some v)) => "val " ++ showVal v
        | .base (.val none) => "none"
        | .base (.bool b) => if b then "true" else "false"
        | .base (.num n) => toString n
        | .base (.stats n b) => toString n ++ " " ++ toString b
        | .base .unit => "ok"
        | .stats n b g h m => showStats n b g h m
        | .unit => "ok")
    match toks with
    | ["put", k, v, ev] =>
      match k.toNat?, parseHexNat v, parseEv ev with
      | some k, some v, some ev => memPut cfg x task k v cfg.defaultShort ev
      | _, _, _ => (st, "bad-op")
    | ["putttl", k, v, c, ev] =>
      match k.toNat?, parseHexNat v, parseClass c, parseEv ev with
      | some k, some v, some c, some ev => memPut cfg x task k v c ev
      | _, _, _, _ => (st, "bad-op")
    | ["get", k] => match k.toNat? with | some k => base (.get k) | none => (st, "bad-op")
    | ["contains", k] => match k.toNat? with | some k => base (.contains k) | none => (st, "bad-op")
    | ["remove", k] => match k.toNat? with | some k => base (.remove k) | none => (st, "bad-op")
    | ["clear"] => base .clear
    | ["size"] => base .size
    | ["stats"] => base .stats
    | ["cleanup"] =>
      if task then (.mem cfg (Mem.xstep cfg x .cleanup).1 task, "ok") else (st, "bad-op")
    | _ => (st, "bad-op")
  | .disk cfg x task refuse =>
    let go (op : DiskCache.Op) : St × String :=
      -- a put of a key the file system refuses never reaches the index
      let xop : Disk.XOp := match op with
        | .put k v => if refuse.contains k then .putRefused k v else .base op
        | .putTtl k v _ => if refuse.contains k then .putRefused k v else .base op
        | _ => .base op
      let (x', o) := Disk.xstep cfg x xop
      (.disk cfg x' task refuse, match o with
        | .err => "err"
        | .base .unit => "ok"
        | .base (.got .miss) => "none"
        | .base (.got (.hit v)) => "val " ++ showVal v
        | .base (.got .ioErr) => "err:io"
        | .base (.bool b) => if b then "true" else "false"
        | .base (.num n) => toString n
        | .base (.stats n b) => toString n ++ " " ++ toString b
        | .stats n b g h m => showStats n b g h m)
    match toks with
    | ["put", k, v, _ev] =>
      match k.toNat?, parseHexNat v with
      | some k, some v => go (.put k v)
      | _, _ => (st, "bad-op")
    | ["putttl", k, v, c, _ev] =>
      match k.toNat?, parseHexNat v, parseClass c with
      | some k, some v, some c => go (.putTtl k v c)
      | _, _, _ => (st, "bad-op")
    | ["get", k] => match k.toNat? with | some k => go (.get k) | none => (st, "bad-op")
    | ["contains", k] => match k.toNat? with | some k => go (.contains k) | none => (st, "bad-op")
    | ["remove", k] => match k.toNat? with | some k => go (.remove k) | none => (st, "bad-op")
    | ["clear"] => go .clear
    | ["size"] => go .size
    | ["stats"] => go .stats
    | ["reopen"] => go .reopen
    | ["cleanup"] =>
      if task then (.disk cfg (Disk.xstep cfg x .cleanup).1 task refuse, "ok") else (st, "bad-op")
    | _ => (st, "bad-op")

def main : IO Unit := do
  loopState (← IO.getStdin) (← IO.getStdout) handle St.none
