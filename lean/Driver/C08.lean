/-
Driver/C08 — line-protocol driver over the models of Model/Serial (install, download, size,
ZBSDIFF container), Model/SerialPatchIndex (`m pidx`) and Model/SerialTvfs (`tv`, `tc`). `m <fmt> <hex>` runs parse → build → parse → build on the MODEL and prints the
same outcome line as the harness prints for the real code; `o …` / `of …` lines (oracle-only
formats, evaluated on the implementation alone) are answered `-`.
-/
import Driver.Common
import Cascette.Model.Serial
import Cascette.Model.SerialPatchIndex
import Cascette.Model.SerialTvfs
open Drv Cascette Cascette.Model.Manifest Cascette.Model.Serial
open Cascette.Model.SerialPatchIndex

def fnv64 (b : Bytes) : UInt64 :=
  b.foldl (fun h x => (h ^^^ (UInt64.ofNat x.toNat)) * 0x00000100000001b3) 0xcbf29ce484222325

/-- the pipeline outcome for a format given by `parse`/`build`/summary; `logical` projects the
parsed value onto the content the property compares (identity for most formats) -/
def outcomeL {V L : Type} [DecidableEq L] (parse : Bytes → Option V) (build : V → Option Bytes)
    (summary : V → String) (logical : V → L) (input : Bytes) : String :=
  match parse input with
  | none => "err"
  | some v =>
    match build v with
    | none => s!"ok {summary v} fp=accepted-not-rebuildable"
    | some y =>
      let pre := s!"ok {summary v} n={y.length} h={hexFixed 16 (fnv64 y).toNat}"
      match parse y with
      | none => s!"{pre} fp=rebuilt-not-parseable"
      | some v2 =>
        if logical v2 ≠ logical v then s!"{pre} fp=rebuild-changes-content" else
        match build v2 with
        | none => s!"{pre} fp=second-build-fails"
        | some y2 => if y2 = y then s!"{pre} fp=ok" else s!"{pre} fp=second-build-differs"

def outcome {V : Type} [DecidableEq V] (parse : Bytes → Option V) (build : V → Option Bytes)
    (summary : V → String) (input : Bytes) : String :=
  outcomeL parse build summary id input

def pidxSummary (p : PHeader × PIdx) : String :=
  let bt := String.intercalate "," (p.1.blocks.map fun b => s!"{b.1}:{b.2}")
  s!"hs={p.1.headerSize} ds={p.1.dataSize} xk={p.1.keySize} kd={hexOf p.1.keyData} xd={p.1.extra.length} bt=[{bt}] ks={p.2.keySize} e={p.2.entries.length}"

/-- `tv <cft_table_size> <hex>`: `VfsTable::parse` under a header with that container-table size -/
def tvLine (cft : Nat) (data : List Nat) : String :=
  match Cascette.Model.SerialTvfs.vfsParse cft data with
  | none => "err"
  | some es =>
    let one (e : Cascette.Model.SerialTvfs.VEntry) : String :=
      s!"{e.off}:" ++ String.intercalate "," (e.spans.map fun sp => s!"{sp.1}/{sp.2.1}/{sp.2.2}")
    s!"ok e={es.length} " ++ String.intercalate ";" (es.map one)

/-- `tc <flags> <hex>`: `ContainerFileTable::parse` then `build` (entry count, rebuilt size) -/
def tcLine (flags : Nat) (data : List Nat) : String :=
  let es := Cascette.Model.SerialTvfs.cftEntrySize 9 9 flags
  s!"ok n={Cascette.Model.SerialTvfs.cftCount es data.length} rebuilt={Cascette.Model.SerialTvfs.rebuiltCftSize es data.length}"

def formats : List String :=
  ["blte", "encoding", "aidx", "agroup", "root", "install", "download", "size", "tvfs", "parchive",
   "pindex", "zbsdiff", "buildcfg", "cdncfg", "patchcfg", "productcfg", "keyring", "bpsv", "espec"]

def handle (toks : List String) : String :=
  match toks with
  | ["m", fmt, h] =>
    match parseHex h with
    | none => "bad-op"
    | some b =>
      if fmt == "inst" then
        outcome parseInstallU buildInstall
          (fun m => s!"v={m.version} t={m.tags.length} e={m.entries.length}") b
      else if fmt == "dl" then
        outcome parseDFile buildDFile
          (fun m => s!"v={m.version} e={m.entries.length} t={m.tags.length}") b
      else if fmt == "size" then
        outcome parseSFile buildSFile
          (fun m => s!"v={m.version} e={m.entries.length} t={m.tags.length} total={m.total}") b
      else if fmt == "zbs" then
        outcome parseZFile buildZFile
          (fun z => s!"c={z.csize} d={z.dsize} o={z.osize} x={z.extra.length}") b
      else if fmt == "pidx" then
        outcomeL parsePFull (fun p => buildPIdx p.2) pidxSummary (fun p => p.2) b
      else "bad-op"
  | ["tv", n, h] =>
    match n.toNat?, parseHexNat h with
    | some cft, some d => if cft < 4294967296 then tvLine cft d else "bad-op"
    | _, _ => "bad-op"
  | ["tc", f, h] =>
    match f.toNat?, parseHexNat h with
    | some fl, some d => if fl < 2 then tcLine fl d else "bad-op"
    | _, _ => "bad-op"
  | ["o", fmt, _] => if formats.contains fmt then "-" else "bad-op"
  | ["of", fmt, _, _] => if formats.contains fmt then "-" else "bad-op"
  | _ => "bad-op"

def main : IO Unit := do
  loopPure (← IO.getStdin) (← IO.getStdout) handle
