/-
Driver/C08 — line-protocol driver over the models of Model/Serial (install, download, size,
ZBSDIFF container). `m <fmt> <hex>` runs parse → build → parse → build on the MODEL and prints the
same outcome line as the harness prints for the real code; `o …` / `of …` lines (oracle-only
formats, evaluated on the implementation alone) are answered `-`.
-/
import Driver.Common
import Cascette.Model.Serial
open Drv Cascette Cascette.Model.Manifest Cascette.Model.Serial

def fnv64 (b : Bytes) : UInt64 :=
  b.foldl (fun h x => (h ^^^ (UInt64.ofNat x.toNat)) * 0x00000100000001b3) 0xcbf29ce484222325

/-- the pipeline outcome for a format given by `parse`/`build`/summary -/
def outcome {V : Type} [DecidableEq V] (parse : Bytes → Option V) (build : V → Option Bytes)
    (summary : V → String) (input : Bytes) : String :=
  match parse input with
  | none => "err"
  | some v =>
    match build v with
    | none => s!"ok {summary v} fp=accepted-not-rebuildable"
    | some y =>
      let pre := s!"ok {summary v} n={y.length} h={hexFixed 16 (fnv64 y).toNat}"
      match parse y with
      | none => s!"{pre} fp=rebuilt-not-parseable"
      | some v2 =>
        if v2 ≠ v then s!"{pre} fp=rebuild-changes-content" else
        match build v2 with
        | none => s!"{pre} fp=second-build-fails"
        | some y2 => if y2 = y then s!"{pre} fp=ok" else s!"{pre} fp=second-build-differs"

def formats : List String :=
  ["blte", "encoding", "aidx", "agroup", "root", "install", "download", "size", "tvfs", "parchive",
   "pindex", "zbsdiff", "buildcfg", "cdncfg", "patchcfg", "productcfg", "keyring", "bpsv", "espec"]

def handle (toks : List String) : String :=
  match toks with
  | ["m", fmt, h] =>
    match parseHex h with
    | none => "bad-op"
    | some b =>
      if fmt == "inst" then
        outcome parseInstallU buildInstall
          (fun m => s!"v={m.version} t={m.tags.length} e={m.entries.length}") b
      else if fmt == "dl" then
        outcome parseDFile buildDFile
          (fun m => s!"v={m.version} e={m.entries.length} t={m.tags.length}") b
      else if fmt == "size" then
        outcome parseSFile buildSFile
          (fun m => s!"v={m.version} e={m.entries.length} t={m.tags.length} total={m.total}") b
      else if fmt == "zbs" then
        outcome parseZFile buildZFile
          (fun z => s!"c={z.csize} d={z.dsize} o={z.osize} x={z.extra.length}") b
      else "bad-op"
  | ["o", fmt, _] => if formats.contains fmt then "-" else "bad-op"
  | ["of", fmt, _, _] => if formats.contains fmt then "-" else "bad-op"
  | _ => "bad-op"

def main : IO Unit := do
  loopPure (← IO.getStdin) (← IO.getStdout) handle
