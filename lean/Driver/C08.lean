/-
Driver/C08 — line-protocol driver over the models of Model/Serial (install, download, size,
ZBSDIFF container), Model/SerialPatchIndex (`m pidx`), Model/SerialTvfs (`tv`, `tc`) and — reused
from C03 — Model/RootFile (`m root`, `rp`) and Model/ArchiveIndex (`ap`). `m <fmt> <hex>` runs
parse → build → parse → build on the MODEL and prints the same outcome line as the harness prints
for the real code; `rp <ver> <program>` is `RootBuilder::build` on a program (length + hash of the
bytes), `ap <ks> <ob> <program>` is ArchiveIndexBuilder → parse → from_archive_index → build →
parse (count + hash of the entries read back); `o …` / `of …` lines (oracle-only formats,
evaluated on the implementation alone) are answered `-`.
-/
import Driver.Common
import Cascette.Model.Serial
import Cascette.Model.SerialPatchIndex
import Cascette.Model.SerialTvfs
import Cascette.Model.RootFile
import Cascette.Model.ArchiveIndex
import Cascette.Model.SerialBuilders
open Drv Cascette Cascette.Model.Manifest Cascette.Model.Serial
open Cascette.Model.SerialPatchIndex

def fnv64 (b : Bytes) : UInt64 :=
  b.foldl (fun h x => (h ^^^ (UInt64.ofNat x.toNat)) * 0x00000100000001b3) 0xcbf29ce484222325

/-- the pipeline outcome for a format given by `parse`/`build`/summary; `logical` projects the
parsed value onto the content the property compares (identity for most formats) -/
def outcomeL {V L : Type} [DecidableEq L] (parse : Bytes → Option V) (build : V → Option Bytes)
    (summary : V → String) (logical : V → L) (input : Bytes) : String :=
  match parse input with
  | none => "err"
  | some v =>
    match build v with
    | none => s!"ok {summary v} fp=accepted-not-rebuildable"
    | some y =>
      let pre := s!"ok {summary v} n={y.length} h={hexFixed 16 (fnv64 y).toNat}"
      match parse y with
      | none => s!"{pre} fp=rebuilt-not-parseable"
      | some v2 =>
        if logical v2 ≠ logical v then s!"{pre} fp=rebuild-changes-content" else
        match build v2 with
        | none => s!"{pre} fp=second-build-fails"
        | some y2 => if y2 = y then s!"{pre} fp=ok" else s!"{pre} fp=second-build-differs"

def outcome {V : Type} [DecidableEq V] (parse : Bytes → Option V) (build : V → Option Bytes)
    (summary : V → String) (input : Bytes) : String :=
  outcomeL parse build summary id input

def pidxSummary (p : PHeader × PIdx) : String :=
  let bt := String.intercalate "," (p.1.blocks.map fun b => s!"{b.1}:{b.2}")
  s!"hs={p.1.headerSize} ds={p.1.dataSize} xk={p.1.keySize} kd={hexOf p.1.keyData} xd={p.1.extra.length} bt=[{bt}] ks={p.2.keySize} e={p.2.entries.length}"

/-- `tv <cft_table_size> <hex>`: `VfsTable::parse` under a header with that container-table size -/
def tvLine (cft : Nat) (data : List Nat) : String :=
  match Cascette.Model.SerialTvfs.vfsParse cft data with
  | none => "err"
  | some es =>
    let one (e : Cascette.Model.SerialTvfs.VEntry) : String :=
      s!"{e.off}:" ++ String.intercalate "," (e.spans.map fun sp => s!"{sp.1}/{sp.2.1}/{sp.2.2}")
    s!"ok e={es.length} " ++ String.intercalate ";" (es.map one)

/-- `tc <flags> <hex>`: `ContainerFileTable::parse` then `build` (entry count, rebuilt size) -/
def tcLine (flags : Nat) (data : List Nat) : String :=
  let es := Cascette.Model.SerialTvfs.cftEntrySize 9 9 flags
  s!"ok n={Cascette.Model.SerialTvfs.cftCount es data.length} rebuilt={Cascette.Model.SerialTvfs.rebuiltCftSize es data.length}"

/-! ### root (C03's byte-level model): `<RootFile as CascFormat>::build` = every record re-inserted
into a `RootBuilder` of the parsed version, blocks keyed by (locale, content) -/

def fnv64N (b : List Nat) : UInt64 :=
  b.foldl (fun h x => (h ^^^ (UInt64.ofNat x)) * 0x00000100000001b3) 0xcbf29ce484222325

/-- `HashMap<(locale, content), RootBlock>` filled in insertion order (records of one key keep
their order) -/
def groupBlocks (recs : List (Nat × Nat × Cascette.Model.RootFile.Rec)) : List (Nat × Nat × List Cascette.Model.RootFile.Rec) :=
  (recs.foldl (fun acc (l, c, r) =>
    if acc.any (fun b => b.1 == l && b.2.1 == c) then
      acc.map fun b => if b.1 == l && b.2.1 == c then (b.1, b.2.1, r :: b.2.2) else b
    else acc ++ [(l, c, [r])]) []).map fun b => (b.1, b.2.1, b.2.2.reverse)

def rootRecs (p : Cascette.Model.RootFile.Parsed) : List (Nat × Nat × Cascette.Model.RootFile.Rec) :=
  p.blocks.flatMap fun b => b.recs.map fun r => (b.locale, b.content, r)

def rootRebuild (p : Cascette.Model.RootFile.Parsed) : Option (List Nat) :=
  Cascette.Model.RootFile.build p.version (groupBlocks (rootRecs p))

def lexLe : List Nat → List Nat → Bool
  | [], _ => true
  | _ :: _, [] => false
  | a :: as, b :: bs => a < b || (a == b && lexLe as bs)

/-- logical content: version + the multiset of (FileDataID, content key, name hash, locale, content) -/
def rootLogical (p : Cascette.Model.RootFile.Parsed) : Nat × List (List Nat) :=
  (p.version.num, ((rootRecs p).map fun (l, c, r) =>
    [r.fdid] ++ r.ckey ++ [match r.nameHash with | none => 0 | some h => h + 1, l, c]).mergeSort lexLe)

def outcomeRoot (input : List Nat) : String :=
  match Cascette.Model.RootFile.parse input with
  | none => "err"
  | some v =>
    let sm := s!"v={v.version.num} b={v.blocks.length} r={(v.blocks.map (·.recs.length)).sum}"
    match rootRebuild v with
    | none => s!"ok {sm} fp=accepted-not-rebuildable"
    | some y =>
      let pre := s!"ok {sm} n={y.length} h={hexFixed 16 (fnv64N y).toNat}"
      match Cascette.Model.RootFile.parse y with
      | none => s!"{pre} fp=rebuilt-not-parseable"
      | some v2 =>
        if rootLogical v2 ≠ rootLogical v then s!"{pre} fp=rebuild-changes-content" else
        match rootRebuild v2 with
        | none => s!"{pre} fp=second-build-fails"
        | some y2 => if y2 = y then s!"{pre} fp=ok" else s!"{pre} fp=second-build-differs"

def verOf : Nat → Option Cascette.Model.RootFile.Version
  | 1 => some .v1 | 2 => some .v2 | 3 => some .v3 | 4 => some .v4 | _ => none

/-- `fd,ckey,hash|-,locale,content` records separated by `;` (`-` = empty program) -/
def parseRecs (t : String) : Option (List (Nat × Nat × Cascette.Model.RootFile.Rec)) :=
  if t == "-" then some [] else
  (t.splitOn ";").mapM fun part =>
    match part.splitOn "," with
    | [fd, ck, nh, loc, cf] =>
      let nh? : Option (Option Nat) := if nh == "-" then some none else nh.toNat?.map some
      match fd.toNat?, parseHexNat ck, nh?, loc.toNat?, cf.toNat? with
      | some fd, some ck, some nh, some loc, some cf =>
        if ck.length ≠ 16 ∨ fd ≥ 4294967296 ∨ loc ≥ 4294967296 ∨ cf ≥ 18446744073709551616 then none
        else some (loc, cf, ({ fdid := fd, ckey := ck, nameHash := nh } : Cascette.Model.RootFile.Rec))
      | _, _, _, _, _ => none
    | _ => none

def rpLine (v : Cascette.Model.RootFile.Version) (recs : List (Nat × Nat × Cascette.Model.RootFile.Rec)) : String :=
  match Cascette.Model.RootFile.build v (groupBlocks recs) with
  | none => "err"
  | some y => s!"ok n={y.length} h={hexFixed 16 (fnv64N y).toNat}"

/-! ### archive index (C03's record-level model) -/

def parseAEnts (t : String) : Option (List Cascette.Model.ArchiveIndex.Entry) :=
  if t == "-" then some [] else
  (t.splitOn ";").mapM fun part =>
    match part.splitOn "," with
    | [k, sz, off] =>
      match parseHexNat k, sz.toNat?, off.toNat? with
      | some k, some sz, some off =>
        if sz ≥ 4294967296 ∨ off ≥ 18446744073709551616 then none
        else some ({ key := k, size := sz, offset := off, archive := none } : Cascette.Model.ArchiveIndex.Entry)
      | _, _, _ => none
    | _ => none

/-- with_config(ks, ob, 4) → build → parse → from_archive_index → build → parse -/
def apLine (ks ob : Nat) (es : List Cascette.Model.ArchiveIndex.Entry) : String :=
  let rpb := 4096 / (ks + 4 + ob)
  match Cascette.Model.ArchiveIndex.buildParse ks ob rpb es with
  | none => "err"
  | some c =>
    match Cascette.Model.ArchiveIndex.buildParse ks ob rpb c.entries with
    | none => "err"
    | some c2 =>
      let listing := String.intercalate ";" (c2.entries.map fun e =>
        s!"{hexOfNats e.key}:{e.size}:{e.offset}:{match e.archive with | some a => toString a | none => "-"}")
      s!"ok n={c2.entries.length} h={hexFixed 16 (fnv64N (listing.toUTF8.toList.map (·.toNat))).toNat}"

/-! ### `bp` lines: builder programs given by parameters -/

open Cascette.Model.SerialBuilders in
/-- id-derived data, the same functions of the id as in the harness -/
def dkey (id : Nat) : Bytes :=
  let w := id * 2654435761 % 4294967296
  ([w / 16777216 % 256, w / 65536 % 256, w / 256 % 256, w % 256] ++
    (List.range 12).map fun j => (id * 17 + 29 * (j + 4) + 3) % 256).map (BitVec.ofNat 8)

def strBytes (s : String) : Bytes := s.toUTF8.toList.map fun b => BitVec.ofNat 8 b.toNat

def dpath (id : Nat) : Bytes := strBytes s!"d\\f{id}.bin"

def dsize32 (id : Nat) : Nat :=
  if id % 5 = 0 then 0 else if id % 5 = 1 then 4294967295 else id * 2654435761 % 4294967296

def dtag (id : Nat) : Bytes := strBytes s!"T{id}"

/-- `<a>.<b>` -/
def two (t : String) : Option (Nat × Nat) :=
  match t.splitOn "." with
  | [a, b] => match a.toNat?, b.toNat? with
    | some a, some b => some (a, b)
    | _, _ => none
  | _ => none

inductive IOp
  | af (id : Nat) | aw (id tj : Nat) | rf (i : Nat) | at (id ty : Nat) | rt (tj : Nat)
  | as (i tj : Nat) | ds (i tj : Nat)

def parseIOp (o : String) : Option IOp :=
  let k := (o.take 2).toString
  let r := (o.drop 2).toString
  if r.isEmpty then none else
  if k == "af" then r.toNat?.map .af
  else if k == "rf" then r.toNat?.map .rf
  else if k == "rt" then r.toNat?.map .rt
  else if k == "aw" then (two r).map fun (a, b) => .aw a b
  else if k == "at" then (two r).map fun (a, b) => .at a b
  else if k == "as" then (two r).map fun (a, b) => .as a b
  else if k == "ds" then (two r).map fun (a, b) => .ds a b
  else none

open Cascette.Model.SerialBuilders in
/-- one editing call; an op whose indices do not exist is skipped (as the harness skips it) -/
def iStep (s : IBuilderS) : IOp → Except Err IBuilderS
  | .af id => .ok (s.addFile (dpath id) (dkey id) (dsize32 id))
  | .aw id tj =>
    match s.b.tags[tj]? with
    | none => .ok s
    | some t =>
      let s1 := s.addFile (dpath id) (dkey id) (dsize32 id)
      s1.lift fun b => b.assoc (b.entries.length - 1) t.name
  | .rf i => if i < s.b.entries.length then s.lift (·.removeFile i) else .ok s
  | .at id ty =>
    if validType ty ∧ ¬ s.b.tags.any (·.name == dtag id) then .ok { s with b := s.b.addTag (dtag id) ty }
    else .ok s
  | .rt tj =>
    match s.b.tags[tj]? with
    | none => .ok s
    | some t => s.lift (·.removeTag t.name)
  | .as i tj =>
    match s.b.tags[tj]? with
    | some t => if i < s.b.entries.length then s.lift (·.assoc i t.name) else .ok s
    | none => .ok s
  | .ds i tj =>
    match s.b.tags[tj]? with
    | some t => if i < s.b.entries.length then s.lift (·.dissoc i t.name) else .ok s
    | none => .ok s

open Cascette.Model.SerialBuilders in
def iRun (s : IBuilderS) : List IOp → Except Err IBuilderS
  | [] => .ok s
  | o :: os => match iStep s o with
    | .ok s' => iRun s' os
    | .error e => .error e

open Cascette.Model.SerialBuilders in
/-- `bp install <new|hex> <ops>` -/
def bpInstall (src ops : String) : String :=
  let ops? : Option (List IOp) := if ops == "-" then some [] else (ops.splitOn ",").mapM parseIOp
  let start? : Option (Option IBuilderS) :=
    if src == "new" then some (some IBuilderS.new) else
    match parseHex src with
    | none => none
    | some b => some ((parseInstallU b).map IBuilderS.fromManifest)
  match ops?, start? with
  | some ops, some (some s) =>
    (match iRun s ops with
     | .error _ => "err"
     | .ok s' =>
       match s'.build with
       | .error _ => "err"
       | .ok m =>
         let y := serInstall m
         s!"ok v={m.version} t={m.tags.length} e={m.entries.length} n={y.length} h={hexFixed 16 (fnv64 y).toNat}")
  | some _, some none => "err"
  | _, _ => "bad-op"

open Cascette.Model.SerialBuilders in
/-- `bp blte <c|d|x> <n|z|4> <chunks> <len>` -/
def bpBlte (via mode : String) (n len : Nat) : String :=
  if n = 0 ∨ len = 0 ∨ n ≥ 16777216 ∨ ¬ ["c", "d", "x"].contains via ∨ ¬ ["n", "z", "4"].contains mode then "bad-op" else
  match blteHead (via == "x") n with
  | .error _ => "err"
  | .ok h =>
    let hs := Cascette.Model.Blte.beNat ((h.drop 4).take 4)
    s!"ok hs={hs} tbl={if hs = 0 then "-" else hexOf ((h.drop 8).take 4)}"

open Cascette.Model.SerialBuilders in
/-- `bp tvfs <flags> <nspecs> <speclen> <files>` -/
def bpTvfs (flags ns sl n : Nat) : String :=
  if flags ≥ 8 ∨ ns * (sl + 1) ≥ 16777216 ∨ n ≥ 16777216 then "bad-op" else
  let estSize := if flags / 2 % 2 = 1 then ns * (max sl 1 + 1) else 0
  let (es, cft, w, last) := tvfsSizing flags estSize n
  s!"ok es={es} cft={cft} w={w} last={last}"

def bpOracleOnly : List String :=
  ["download", "installw", "downloadw", "sizew", "rootw", "aidxw", "agroupw", "encodingw", "parchivew",
   "pindexw", "zbsw", "bpsvw", "especw", "archivew"]

def formats : List String :=
  ["blte", "encoding", "aidx", "agroup", "root", "install", "download", "size", "tvfs", "parchive",
   "pindex", "zbsdiff", "buildcfg", "cdncfg", "patchcfg", "productcfg", "keyring", "bpsv", "espec"]

def handle (toks : List String) : String :=
  match toks with
  | ["m", fmt, h] =>
    match parseHex h with
    | none => "bad-op"
    | some b =>
      if fmt == "inst" then
        outcome parseInstallU buildInstall
          (fun m => s!"v={m.version} t={m.tags.length} e={m.entries.length}") b
      else if fmt == "dl" then
        outcome parseDFile buildDFile
          (fun m => s!"v={m.version} e={m.entries.length} t={m.tags.length}") b
      else if fmt == "size" then
        outcome parseSFile buildSFile
          (fun m => s!"v={m.version} e={m.entries.length} t={m.tags.length} total={m.total}") b
      else if fmt == "zbs" then
        outcome parseZFile buildZFile
          (fun z => s!"c={z.csize} d={z.dsize} o={z.osize} x={z.extra.length}") b
      else if fmt == "pidx" then
        outcomeL parsePFull (fun p => buildPIdx p.2) pidxSummary (fun p => p.2) b
      else if fmt == "root" then outcomeRoot (b.map (·.toNat))
      else "bad-op"
  | ["rp", v, recs] =>
    match v.toNat?.bind verOf, parseRecs recs with
    | some v, some recs => rpLine v recs
    | _, _ => "bad-op"
  | ["ap", ks, ob, ents] =>
    match ks.toNat?, ob.toNat?, parseAEnts ents with
    | some ks, some ob, some es =>
      if ks = 0 ∨ ks > 16 ∨ ¬ (ob = 4 ∨ ob = 5 ∨ ob = 6) ∨ es.any (·.key.length ≠ ks) then "bad-op"
      else apLine ks ob es
    | _, _, _ => "bad-op"
  | ["tv", n, h] =>
    match n.toNat?, parseHexNat h with
    | some cft, some d => if cft < 4294967296 then tvLine cft d else "bad-op"
    | _, _ => "bad-op"
  | ["tc", f, h] =>
    match f.toNat?, parseHexNat h with
    | some fl, some d => if fl < 2 then tcLine fl d else "bad-op"
    | _, _ => "bad-op"
  | ["bp", "install", src, ops] => bpInstall src ops
  | ["bp", "blte", via, mode, n, len] =>
    match n.toNat?, len.toNat? with
    | some n, some len => bpBlte via mode n len
    | _, _ => "bad-op"
  | ["bp", "tvfs", f, ns, sl, n] =>
    match f.toNat?, ns.toNat?, sl.toNat?, n.toNat? with
    | some f, some ns, some sl, some n => bpTvfs f ns sl n
    | _, _, _, _ => "bad-op"
  | "bp" :: fmt :: _ => if bpOracleOnly.contains fmt then "-" else "bad-op"
  | ["o", fmt, _] => if formats.contains fmt then "-" else "bad-op"
  | ["of", fmt, _, _] => if formats.contains fmt then "-" else "bad-op"
  | _ => "bad-op"

def main : IO Unit := do
  loopPure (← IO.getStdin) (← IO.getStdout) handle
