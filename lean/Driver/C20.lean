/-
Driver/C20 — answers the C20 request lines from the executable models
(Model/Path, Model/CacheKeys, Model/DiskFs).  Strings travel as hex of their UTF-8 bytes
(`-` = empty, `~` = None); paths are printed as "/S/…" text, hex-encoded.
-/
import Driver.Common
import Cascette.Model.Path
import Cascette.Model.CacheKeys
import Cascette.Model.DiskFs
import Cascette.Model.KeysExt
open Cascette Drv
open Cascette.Model.Path Cascette.Model.CacheKeys Cascette.Model.DiskFs Cascette.Model.KeysExt

def decStr (t : String) : Option String :=
  match parseHexNat t with
  | some l => String.fromUTF8? (ByteArray.mk (l.map UInt8.ofNat).toArray)
  | none => none

def decOpt (t : String) : Option (Option String) :=
  if t == "~" then some none else (decStr t).map some

def utf8 (s : String) : List Nat := s.toUTF8.toList.map (·.toNat)
def encS (s : String) : String := hexOfNats (utf8 s)
def encP (p : APath) : String := encS (String.ofList (render p))

def cS : Comp := ['S']
def rootP : APath := [cS, ['d', '1'], ['d', '2'], ['c', 'a', 'c', 'h', 'e']]
def fs0 : Fs := { dirs := (List.range 5).map (fun i => rootP.take i), files := [] }

/-- non-overlapping occurrences of ".." (the harness's safety guard). -/
def dd : List Char → Nat
  | '.' :: '.' :: r => 1 + dd r
  | _ :: r => dd r
  | [] => 0

def startsWith (p s : List Char) : Bool := p.isPrefixOf s

/-- the harness's padding characters (`PADS` in c20.rs): the guard looks through them. -/
def pads : List Char :=
  [' ', '\t', '\n', '\r', '\x0b', '\x0c', '\u00a0', '\u3000', '\u2028', '\ufeff', '\u200b', '"', '\'']

def stripPads (l : List Char) : List Char := l.dropWhile (fun c => pads.contains c)

def unsafeArgs (direct other : List String) : Bool :=
  let bad (s : String) : Bool :=
    let l := s.toList
    let t := stripPads l
    (isAbs t || t.head? == some '\\') &&
      !(startsWith "/S/".toList t && dd l == 0 &&
        (segs (t.drop 3)).any (fun g => !(g == [] || g == dot)))
  direct.any bad || ((direct ++ other).map (fun s => dd s.toList)).sum > 3

/-- the guard of the deep sandbox (`unsafe_deep`, `DEEP_DD` in c20.rs): at most 12 ".." in all. -/
def unsafeDeep (other : List String) : Bool :=
  (other.map (fun s => dd s.toList)).sum > 12

/-- the harness's `cu_ok`: a CDN path of non-empty `[a-z0-9]` segments. -/
def cuOk (path : String) : Bool :=
  !path.isEmpty && (segs path.toList).all (fun g => !g.isEmpty && g.all (fun c => c.isLower || c.isDigit))

def layoutLevels : String → Option Nat
  | "flat" => some 0
  | "h1" => some 1
  | "h2" => some 2
  | "h3" => some 3
  | _ => none

def subFor (levels : Nat) (key : String) : List Comp := subDirs levels (keyHash (utf8 key))

def fmtPut : PutOut → String
  | .ok f => "ok file=" ++ encP f
  | .err none => "err left=-"
  | .err (some t) => "err left=" ++ encP t

def putKey (levels : Nat) (key : String) : PutOut := put fs0 rootP (subFor levels key) key.toList

/-- ASCII alphanumerics plus the non-ASCII alphanumerics the harness generator uses. -/
def alnumD (c : Char) : Bool :=
  isAsciiAlnum c || c == 'é' || c == '中'

def isTcpOnly (e : String) : Bool :=
  e.startsWith "v1/summary" || e.startsWith "v1/certs/" || e.startsWith "v1/ocsp/"

def ctOf : String → Option ContentType
  | "config" => some .config
  | "data" => some .data
  | "patch" => some .patch
  | _ => none

def b01 : String → Option Bool
  | "0" => some false
  | "1" => some true
  | _ => none

def optNat (t : String) (max : Nat) : Option (Option Nat) :=
  if t == "~" then some none else
  match t.toNat? with
  | some n => if n ≤ max then some (some n) else none
  | none => none

def natLe (t : String) (max : Nat) : Option Nat :=
  match t.toNat? with
  | some n => if n ≤ max then some n else none
  | none => none

def hash32 (t : String) : Option Str :=
  match parseHexNat t with
  | some l => if l.length = 16 then some (hexEncode l) else none
  | none => none

/-- typed key from the request tokens, with the decoded string arguments (for the guard). -/
def parseTyped : String → List String → Option (Key × List String)
  | "ribbit", [e, r, p] =>
    match decStr e, decStr r, decOpt p with
    | some e, some r, some p => some (.ribbit e.toList r.toList (p.map (·.toList)), [e, r] ++ p.toList)
    | _, _, _ => none
  | "config", [t, h] =>
    match decStr t, decStr h with
    | some t, some h => some (.config t.toList h.toList, [t, h])
    | _, _ => none
  | "blte", [e, i] =>
    match hash32 e, optNat i (2 ^ 32 - 1) with
    | some e, some i => some (.blte e i, [])
    | _, _ => none
  | "content", [c] => (hash32 c).map fun c => (.content c, [])
  | "index", [n, h] =>
    match decStr n, decStr h with
    | some n, some h => some (.archiveIndex n.toList h.toList, [n, h])
    | _, _ => none
  | "manifest", [t, c, v] =>
    match decStr t, hash32 c, decOpt v with
    | some t, some c, some v => some (.manifest t.toList c (v.map (·.toList)), [t] ++ v.toList)
    | _, _, _ => none
  | "root", [c, p, v] =>
    match hash32 c, b01 p, optNat v 255 with
    | some c, some p, some v => some (.rootFile c p v, [])
    | _, _, _ => none
  | "encoding", [e, pg, p] =>
    match hash32 e, optNat pg (2 ^ 32 - 1), b01 p with
    | some e, some pg, some p => some (.encodingFile e pg p, [])
    | _, _, _ => none
  | "archive", [id, st, len] =>
    match decStr id, natLe st (2 ^ 64 - 1), natLe len (2 ^ 32 - 1) with
    | some id, some st, some len => some (.archiveRange id.toList st len, [id])
    | _, _, _ => none
  | "blteblock", [c, i, d] =>
    match hash32 c, natLe i (2 ^ 32 - 1), b01 d with
    | some c, some i, some d => some (.blteBlock c i d, [])
    | _, _, _ => none
  | _, _ => none

/-- one public constructor of key.rs by name (Model/KeysExt.Ctor). -/
def parseCtor : String → List String → Option Ctor
  | "RibbitKey::new", [e, r] =>
    match decStr e, decStr r with
    | some e, some r => some (.ribbitNew e.toList r.toList)
    | _, _ => none
  | "RibbitKey::with_product", [e, r, p] =>
    match decStr e, decStr r, decStr p with
    | some e, some r, some p => some (.ribbitWithProduct e.toList r.toList p.toList)
    | _, _, _ => none
  | "ConfigKey::new", [t, h] =>
    match decStr t, decStr h with
    | some t, some h => some (.configNew t.toList h.toList)
    | _, _ => none
  | "BlteKey::new", [e] => (hash32 e).map .blteNew
  | "BlteKey::with_block", [e, i] =>
    match hash32 e, natLe i (2 ^ 32 - 1) with
    | some e, some i => some (.blteWithBlock e i)
    | _, _ => none
  | "ContentCacheKey::new", [c] => (hash32 c).map .contentNew
  | "ArchiveIndexKey::new", [n, h] =>
    match decStr n, decStr h with
    | some n, some h => some (.archiveIndexNew n.toList h.toList)
    | _, _ => none
  | "ManifestKey::new", [t, c] =>
    match decStr t, hash32 c with
    | some t, some c => some (.manifestNew t.toList c)
    | _, _ => none
  | "ManifestKey::with_version", [t, c, v] =>
    match decStr t, hash32 c, decStr v with
    | some t, some c, some v => some (.manifestWithVersion t.toList c v.toList)
    | _, _, _ => none
  | "RootFileKey::new_raw", [c] => (hash32 c).map .rootNewRaw
  | "RootFileKey::new_parsed", [c] => (hash32 c).map .rootNewParsed
  | "RootFileKey::with_version", [c, p, v] =>
    match hash32 c, b01 p, natLe v 255 with
    | some c, some p, some v => some (.rootWithVersion c p v)
    | _, _, _ => none
  | "EncodingFileKey::new_raw", [e] => (hash32 e).map .encodingNewRaw
  | "EncodingFileKey::new_parsed", [e] => (hash32 e).map .encodingNewParsed
  | "EncodingFileKey::with_page", [e, pg, p] =>
    match hash32 e, natLe pg (2 ^ 32 - 1), b01 p with
    | some e, some pg, some p => some (.encodingWithPage e pg p)
    | _, _, _ => none
  | "ArchiveRangeKey::new", [id, st, len] =>
    match decStr id, natLe st (2 ^ 64 - 1), natLe len (2 ^ 32 - 1) with
    | some id, some st, some len => some (.archiveRangeNew id.toList st len)
    | _, _, _ => none
  | "BlteBlockKey::new_raw", [c, i] =>
    match hash32 c, natLe i (2 ^ 32 - 1) with
    | some c, some i => some (.blteBlockNewRaw c i)
    | _, _ => none
  | "BlteBlockKey::new_decompressed", [c, i] =>
    match hash32 c, natLe i (2 ^ 32 - 1) with
    | some c, some i => some (.blteBlockNewDecompressed c i)
    | _, _ => none
  | _, _ => none

/-- `stale`: constructor call whose text is read first, and the field values assigned afterwards. -/
def parseStale : String → List String → Option (Ctor × Key)
  | "ribbit", [e1, r1, e2, r2] =>
    match decStr e1, decStr r1, decStr e2, decStr r2 with
    | some e1, some r1, some e2, some r2 =>
      some (.ribbitNew e1.toList r1.toList, .ribbit e2.toList r2.toList none)
    | _, _, _, _ => none
  | "config", [t1, h1, t2, h2] =>
    match decStr t1, decStr h1, decStr t2, decStr h2 with
    | some t1, some h1, some t2, some h2 =>
      some (.configNew t1.toList h1.toList, .config t2.toList h2.toList)
    | _, _, _, _ => none
  | "blte", [e1, e2, i2] =>
    match hash32 e1, hash32 e2, optNat i2 (2 ^ 32 - 1) with
    | some e1, some e2, some i2 => some (.blteNew e1, .blte e2 i2)
    | _, _, _ => none
  | "archive", [id1, s1, l1, id2, s2, l2] =>
    match decStr id1, natLe s1 (2 ^ 64 - 1), natLe l1 (2 ^ 32 - 1), decStr id2, natLe s2 (2 ^ 64 - 1),
      natLe l2 (2 ^ 32 - 1) with
    | some id1, some s1, some l1, some id2, some s2, some l2 =>
      some (.archiveRangeNew id1.toList s1 l1, .archiveRange id2.toList s2 l2)
    | _, _, _, _, _, _ => none
  | _, _ => none

def sortStrings (l : List String) : List String := l.mergeSort (fun a b => a < b || a == b)

def outcomeStr (o : Outcome Str) (onOk : String → String) : String :=
  match o with
  | .invalidKey => "err:invalid-key"
  | .panic => "panic"
  | .ok v => onOk (String.ofList v)

def urlPart (cu : Bool) (tail : Option Str) : String :=
  if !cu then "-" else
  match tail with
  | some t => encS (String.ofList ('/' :: t))
  | none => "-"

/-- one call of op `cdnx`. -/
inductive XCall where
  | dl (ct : ContentType)
  | index
  | uncached (ct : ContentType)      -- download_range / download_with_resume / download_with_progress

def parseXCall (c : String) : Option XCall :=
  match c.splitOn "." with
  | ["dl", ct] => (ctOf ct).map .dl
  | ["progress", ct] => (ctOf ct).map .uncached
  | ["index"] => some .index
  | ["range", ct, off, len] =>
    match ctOf ct, off.toNat?, len.toNat? with
    | some ct, some o, some l => if l = 0 || o ≥ 2 ^ 64 || l ≥ 2 ^ 64 || o + l > 2 ^ 64 - 1 then none else some (.uncached ct)
    | _, _, _ => none
  | ["resume", ct, off] =>
    match ctOf ct, off.toNat? with
    | some ct, some o => if o < 2 ^ 64 then some (.uncached ct) else none
    | _, _ => none
  | _ => none

/-- `cdnx`: the calls in order against one cache (the set of cache keys stored so far): a caching
entry point whose key is present answers from the cache, everything else contacts the CDN. -/
def runXCalls (path : Str) (key : List Nat) : List XCall → List Str → List String × List Str
  | [], stored => ([], stored)
  | c :: rest, stored =>
    let fetch (ck : Outcome Str) (tail : Option Str) (caching : Bool) : String × List Str :=
      match ck with
      | .invalidKey => ("err:invalid-key@-", stored)
      | .panic => ("panic", stored)
      | .ok k =>
        if caching && stored.contains k then ("ok@-", stored)
        else ("ok@" ++ urlPart true tail, if caching then stored ++ [k] else stored)
    let (r, stored') :=
      match c with
      | .dl ct => fetch (downloadCacheKey path ct key) (cdnTail path ct.text (hexEncode key) []) true
      | .index => fetch (archiveIndexCacheKey path (hexEncode key)) (cdnTail path sData (hexEncode key) sIndexExt) true
      | .uncached ct => fetch (downloadCacheKey path ct key) (cdnTail path ct.text (hexEncode key) []) false
    let (rs, fin) := runXCalls path key rest stored'
    (r :: rs, fin)

def handle : List String → String
  | ["raw", layout, k] =>
    match layoutLevels layout, decStr k with
    | some lv, some key =>
      if unsafeArgs [key] [] then "unsafe-skip" else fmtPut (putKey lv key)
    | _, _ => "bad-op"
  | ["rget", layout, k] =>
    match layoutLevels layout, decStr k with
    | some lv, some key =>
      if unsafeArgs [key] [] then "unsafe-skip" else
      let sub := subFor lv key
      let fs : Fs := { (mkdirAll fs0 (rootP ++ sub)) with
        files := [[cS, ['d', '1'], ['s','e','c','r','e','t']], rootP ++ [['i','n','s','i','d','e']]] }
      match getCold fs rootP sub key.toList with
      | some loc => "hit " ++ encP loc
      | none => "miss"
    | _, _ => "bad-op"
  | "typed" :: layout :: kind :: args =>
    match layoutLevels layout, parseTyped kind args with
    | some lv, some (k, strs) =>
      let text := String.ofList (cacheKey k)
      if unsafeArgs [] strs then "key=" ++ encS text ++ " unsafe-skip"
      else "key=" ++ encS text ++ " " ++ fmtPut (putKey lv text)
    | _, _ => "bad-op"
  | ["tmp", layout, k] =>
    match layoutLevels layout, decStr k with
    | some lv, some key =>
      if unsafeArgs [key] [] then "unsafe-skip" else
      match putKey lv key with
      | .ok f =>
        let t := normalize (withExtTmp (diskPath rootP (subFor lv key) key.toList))
        if t = f then "tmp=none" else "tmp=" ++ encP t
      | .err _ => "n/a"
    | _, _ => "bad-op"
  | ["seq", k1, k2] =>
    match decStr k1, decStr k2 with
    | some a, some b =>
      if a.contains '/' || b.contains '/' || a.contains '\x00' || b.contains '\x00' then "n/a"
      else if unsafeArgs [a, b] [] then "unsafe-skip"
      else match putKey 0 a, putKey 0 b with
        | .ok fa, .ok fb =>
          let ta := normalize (withExtTmp (diskPath rootP [] a.toList))
          if fa = fb || ta = fb then "lost" else "kept"
        | _, _ => "n/a"
    | _, _ => "bad-op"
  | ["pcache", k] =>
    match decStr k with
    | some key =>
      if unsafeArgs [key] [] then "unsafe-skip" else
      match putKey 0 key with
      | .ok f => fmtPut (.ok f) ++ " get=hit"
      | o => fmtPut o
    | none => "bad-op"
  | ["query", e] =>
    match decStr e with
    | some ep =>
      if unsafeArgs [] [ep] then "unsafe-skip"
      else if validateEndpoint alnumD ep.toList != .ok then "err:invalid-endpoint"
      else if isTcpOnly ep then "err:other left=-"
      else match putKey 0 (String.ofList (ribbitCacheKey ep.toList)) with
        | .ok f => fmtPut (.ok f)
        | .err none => "err:other left=-"
        | .err (some t) => "err:other left=" ++ encP t
    | none => "bad-op"
  -- queryd: query in the deep sandbox (guard `unsafeDeep`)
  | ["queryd", e] =>
    match decStr e with
    | some ep =>
      if unsafeDeep [ep] then "unsafe-skip"
      else if validateEndpoint alnumD ep.toList != .ok then "err:invalid-endpoint"
      else if isTcpOnly ep then "err:other left=-"
      else match putKey 0 (String.ofList (ribbitCacheKey ep.toList)) with
        | .ok f => fmtPut (.ok f)
        | .err none => "err:other left=-"
        | .err (some t) => "err:other left=" ++ encP t
    | none => "bad-op"
  | "cdn" :: api :: scheme :: host :: path :: rest =>
    match decOpt scheme, decStr path with
    | some _, some path =>
      let localHost := host == "@"
      if !localHost && (decStr host).isNone then "bad-op" else
      let storeOut (ck : Outcome Str) (tail : Option Str) (cu : Bool) : String :=
        outcomeStr ck fun key =>
          if !localHost then "err:other left=-" else
          match putKey 0 key with
          | .ok f => fmtPut (.ok f) ++ " url=" ++ urlPart cu tail
          | .err none => "err:other left=-"
          | .err (some t) => "err:other left=" ++ encP t
      match api, rest with
      | "download", [ct, key, cuf] =>
        match ctOf ct, parseHexNat key with
        | some ct, some key =>
          if unsafeArgs [] [path] then "unsafe-skip" else
          storeOut (downloadCacheKey path.toList ct key)
            (cdnTail path.toList ct.text (hexEncode key) []) (cuf == "cu=1")
        | _, _ => "bad-op"
      | "range", [ct, key, off, len] =>
        match ctOf ct, parseHexNat key, natLe off (2 ^ 64 - 1), natLe len (2 ^ 64 - 1) with
        | some _, some key, some off, some len =>
          if unsafeArgs [] [path] then "unsafe-skip"
          else if key.length < 2 then "err:invalid-key"
          else if !localHost then "err:other left=-"
          else "ok range=" ++ encS (String.ofList (rangeHeader off len))
        | _, _, _, _ => "bad-op"
      | "index", [ak, cuf] =>
        match decStr ak with
        | some ak =>
          if unsafeArgs [] [path, ak] then "unsafe-skip" else
          storeOut (archiveIndexCacheKey path.toList ak.toList)
            (cdnTail path.toList sData ak.toList sIndexExt) (cuf == "cu=1")
        | none => "bad-op"
      | "isize", [ak, cuf] =>
        match decStr ak with
        | some ak =>
          if unsafeArgs [] [path, ak] then "unsafe-skip"
          else if !archiveKeyOk ak.toList then "err:invalid-key"
          else if !localHost then "err:other left=-"
          else "ok url=" ++ urlPart (cuf == "cu=1") (cdnTail path.toList sData ak.toList sIndexExt)
        | none => "bad-op"
      -- indexd / isized: index / isize in the deep sandbox (guard `unsafeDeep`)
      | "indexd", [ak, cuf] =>
        match decStr ak with
        | some ak =>
          if unsafeDeep [path, ak] then "unsafe-skip" else
          storeOut (archiveIndexCacheKey path.toList ak.toList)
            (cdnTail path.toList sData ak.toList sIndexExt) (cuf == "cu=1")
        | none => "bad-op"
      | "isized", [ak, cuf] =>
        match decStr ak with
        | some ak =>
          if unsafeDeep [path, ak] then "unsafe-skip"
          else if !archiveKeyOk ak.toList then "err:invalid-key"
          else if !localHost then "err:other left=-"
          else "ok url=" ++ urlPart (cuf == "cu=1") (cdnTail path.toList sData ak.toList sIndexExt)
        | none => "bad-op"
      | api, [ct, key, cuf] =>
        if api == "resume" || api == "progress" || api == "size" then
          match ctOf ct, parseHexNat key with
          | some ct, some key =>
            if unsafeArgs [] [path] then "unsafe-skip"
            else if key.length < 2 then "err:invalid-key"
            else if !localHost then "err:other left=-"
            else "ok url=" ++ urlPart (cuf == "cu=1") (cdnTail path.toList ct.text (hexEncode key) [])
          | _, _ => "bad-op"
        else "bad-op"
      | _, _ => "bad-op"
    | _, _ => "bad-op"
  | "cdnx" :: backing :: path :: key :: calls =>
    match decStr path, parseHexNat key, calls.mapM parseXCall with
    | some path, some key, some xs =>
      if xs.isEmpty || !(backing == "disk" || backing == "mem") then "bad-op"
      else if !cuOk path then "n/a"
      else
        let (rs, stored) := runXCalls path.toList key xs []
        let files := if backing == "disk" then
            sortStrings ((stored.filterMap fun k =>
              match putKey 0 (String.ofList k) with
              | .ok f => some (String.ofList (render f))
              | .err _ => none).eraseDups)
          else []
        " ".intercalate rs ++ " files=" ++ (if files.isEmpty then "-" else ",".intercalate (files.map encS))
    | _, _, _ => "bad-op"
  | "ctor" :: name :: args =>
    match parseCtor name args with
    | some c => "key=" ++ encS (String.ofList (cacheKey c.key)) ++ " same=1"
    | none => "bad-op"
  | "stale" :: kind :: args =>
    match parseStale kind args with
    | some (c, k2) =>
      let (before, m) := (Memo.new c).asCacheKey
      let after := (m.setFields k2).asCacheKey.1
      "before=" ++ encS (String.ofList before) ++ " after=" ++ encS (String.ofList after) ++
        " fresh=" ++ encS (String.ofList (cacheKey k2)) ++ " eq=1"
    | none => "bad-op"
  | ["pkey", p, e] =>
    match decStr p, decStr e with
    | some p, some e => "key=" ++ encS (String.ofList (protoCacheKey p.toList e.toList))
    | _, _ => "bad-op"
  | ["rdel", layout, k] =>
    match layoutLevels layout, decStr k with
    | some lv, some key =>
      if unsafeArgs [key] [] then "unsafe-skip" else
      let sub := subFor lv key
      let fs : Fs := { (mkdirAll fs0 (rootP ++ sub)) with
        files := [[cS, ['d', '1'], ['s','e','c','r','e','t']], rootP ++ [['i','n','s','i','d','e']]] }
      match removeCold fs rootP sub key.toList with
      | some loc => "removed gone=" ++ encP loc
      | none => "nothing gone=-"
    | _, _ => "bad-op"
  | ["arange", host, path, pp, name, off, len, cuf] =>
    match decStr host, decStr path, decOpt pp, decStr name, natLe off (2 ^ 64 - 1), natLe len (2 ^ 64 - 1) with
    | some host, some path, some pp, some name, some _, some _ =>
      match archiveContentUrl host.toList path.toList (pp.map (·.toList)) name.toList with
      | .invalidKey => "err:invalid-name"
      | .panic => "panic"
      | .ok u => "err:network url=" ++ (if cuf == "cu=1" then encS (String.ofList u) else "-")
    | _, _, _, _, _, _ => "bad-op"
  | ["fmt", "seg", i] =>
    match natLe i 65535 with
    | some i => encP (segmentDataPath rootP i)
    | none => "bad-op"
  | ["fmt", "idxtmp", k, kind] =>
    match parseHexNat k with
    | some b =>
      if b.length ≠ 16 then "bad-op" else
      let fin := indexFileName (bucketIndex b) 1
      let stem := fin.take 10
      let blocked : Option Str :=
        match kind with
        | "stem.tmp" => some (stem ++ tmpExt)
        | "name.tmp" => some (fin ++ tmpExt)
        | "tmp" => some ['t', 'm', 'p']
        | "name" => some fin
        | "stem" => some stem
        | "other.tmp" => some (stem.dropLast ++ ['2'] ++ tmpExt)
        | _ => none
      match blocked with
      | none => "bad-op"
      | some bl =>
        let tmpName := (indexTmpPath rootP (bucketIndex b) 1).getLast?.getD []
        (if bl = tmpName || bl = fin then "err" else "ok") ++ " blocked=" ++ encS (String.ofList bl)
    | none => "bad-op"
  | ["inst", n, dataDir, indicesDir, stdCsv] =>
    match decStr n with
    | some name =>
      if unsafeArgs [name] [] then "unsafe-skip" else
      match installDir rootP name.toList with
      | none => "err:config"
      | some dir =>
        let existing : List APath := rootP :: (stdCsv.splitOn ",").map (fun d => rootP ++ [d.toList])
        -- `create_dir_all("…/new/.")`: mkdir fails with ENOENT and `parent()` skips the "." , so a
        -- "." among the trailing segments of a directory that does not exist yet is an I/O error
        if name.contains '\x00' || nameTooLong dir ||
            (((segs name.toList).reverse.takeWhile (fun g => g == [] || g == dot)).any (· == dot) &&
              !existing.contains (normalize dir)) then "err:other" else
        let chain (leaf : String) : List APath :=
          let full := dir ++ [leaf.toList]
          (List.range (full.length + 1)).map (fun i => normalize (full.take i))
        let cand := (chain dataDir ++ chain indicesDir).filter
          (fun p => rootP.length < p.length && !existing.contains p)
        let names := sortStrings (cand.eraseDups.map (fun p => String.ofList (render p)))
        "ok dirs=" ++ (if names.isEmpty then "-" else ",".intercalate (names.map encS))
    | none => "bad-op"
  | ["fmt", "ckpath", k] =>
    match parseHexNat k with
    | some b => if b.length = 9 then encP (contentKeyPath rootP b) else "bad-op"
    | none => "bad-op"
  | ["fmt", "lru", g] =>
    match natLe g (2 ^ 64 - 1) with
    | some g => encP (lruFilePath rootP g)
    | none => "bad-op"
  | ["fmt", "idx", k] =>
    match parseHexNat k with
    | some b =>
      if b.length = 16 then "ok file=" ++ encP (rootP ++ [indexFileName (bucketIndex b) 1]) else "bad-op"
    | none => "bad-op"
  | _ => "bad-op"

def main : IO Unit := do
  loopPure (← IO.getStdin) (← IO.getStdout) handle
