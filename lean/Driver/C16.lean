/-
Driver/C16 — runs the executable ZBSDIFF model (builders, control-block codec, both patchers, and
the whole-patch layer of Model/Zbsdiff: header, zlib framing with zlib given as a table on the
request line, container split, i64 codec, short-reading old source) on protocol lines.
Stateful: `begin <old> <new>` sets the pair.
-/
import Driver.Common
import Cascette.Model.Zbsdiff
open Cascette Drv
open Cascette.Model.Bspatch
open Cascette.Model.Zbsdiff

structure St where
  old : Bytes := []
  new : Bytes := []

def intText (i : Int) : String := if i < 0 then "-" ++ toString i.natAbs else toString i.toNat

def ctlText (cs : List Spec.Bspatch.Ctl) : String :=
  if cs.isEmpty then "-" else
  ";".intercalate (cs.map fun c => toString c.diff ++ "," ++ toString c.extra ++ "," ++ intText c.seek)

def buildText : Except Err Patch → String
  | .error e => e.text
  | .ok p => "ctl=" ++ ctlText p.ctl ++ " raw=" ++ hexOf (encodeCtl p.ctl) ++ " diff=" ++ hexOf p.diff ++ " extra=" ++ hexOf p.extra ++ " out=" ++ toString p.outSize

def applyText : Except Err Bytes → String
  | .error e => e.text
  | .ok o => hexOf o

def parseSa (s : String) : Option (Array Nat) :=
  if s == "-" then some #[] else
  (s.splitOn ",").foldl (fun acc t => match acc, t.toNat? with
    | some a, some n => some (a.push n)
    | _, _ => none) (some #[])

/-! whole-patch layer: zlib is the finite table carried by the request line -/

def pErrText : Except PErr Bytes → String
  | .error e => e.text
  | .ok o => hexOf o

/-- pairs `<key> <value>`; a value `!` is "inflate fails". -/
def parsePairs : List String → Option (List (Bytes × Option Bytes))
  | [] => some []
  | [_] => none
  | k :: v :: rest =>
    match parseHex k, parsePairs rest with
    | some k, some r => if v == "!" then some ((k, none) :: r) else (parseHex v).map fun v => (k, some v) :: r
    | _, _ => none

def tableHas (t : List (Bytes × Option Bytes)) (k : Bytes) : Bool := t.any (·.1 == k)

/-- compress table: inflated → compressed (a missing entry is detected before the call). -/
def zOfCompress (t : List (Bytes × Option Bytes)) : Zlib :=
  ⟨fun b => ((t.lookup b).bind id).getD [], fun _ => none⟩

/-- decompress table: compressed → inflated | fails. -/
def zOfDecompress (t : List (Bytes × Option Bytes)) : Zlib :=
  ⟨fun b => b, fun b => (t.lookup b).bind id⟩

def buildP (t : List (Bytes × Option Bytes)) (r : Except Err Patch) : String :=
  match r with
  | .error e => e.text
  | .ok p =>
    if tableHas t (encodeCtl p.ctl) && tableHas t p.diff && tableHas t p.extra then
      pErrText (buildBytes (zOfCompress t) (.ok p))
    else PErr.zmiss.text

def applyP (t : List (Bytes × Option Bytes)) (buf : Option Nat) (old p : Bytes) : String :=
  let z := zOfDecompress t
  match splitPatch p with
  | .ok (_, cz, dz, ez) =>
    if tableHas t cz && tableHas t dz && tableHas t ez then pErrText (applyPatchBytes z buf old p) else PErr.zmiss.text
  | .error _ => pErrText (applyPatchBytes z buf old p)

def parseInt (s : String) : Option Int :=
  if s.startsWith "-" then (s.drop 1).toNat?.map fun n => -(n : Int) else s.toNat?.map fun n => (n : Int)

def parseNats (s : String) : Option (List Nat) :=
  (s.splitOn ",").foldr (fun t acc => match t.toNat?, acc with
    | some n, some a => some (n :: a)
    | _, _ => none) (some [])

def schedOf (ks : List Nat) : Nat → Nat := fun i => if ks.isEmpty then 1 else ks.getD (i % ks.length) 1

def handle (st : St) : List String → St × String
  | ["begin", o, n] =>
    match parseHex o, parseHex n with
    | some o, some n => ({ old := o, new := n }, "ok")
    | _, _ => (st, "bad-op")
  | ["build", "simple"] => (st, buildText (simple st.new))
  | ["build", "chunked", blk] =>
    match blk.toNat? with
    | some b => (st, buildText (chunked b st.old st.new))
    | none => (st, "bad-op")
  | ["build", "suffix", sa] =>
    match parseSa sa with
    | some sa => (st, buildText (suffix sa st.old st.new))
    | none => (st, "bad-op")
  | ["apply", "mem", c, d, e, out] =>
    match parseHex c, parseHex d, parseHex e, out.toNat? with
    | some c, some d, some e, some out => (st, applyText (applyBytes none st.old c d e out))
    | _, _, _, _ => (st, "bad-op")
  | ["apply", "stream", buf, c, d, e, out] =>
    match buf.toNat?, parseHex c, parseHex d, parseHex e, out.toNat? with
    | some b, some c, some d, some e, some out => (st, applyText (applyBytes (some b) st.old c d e out))
    | _, _, _, _, _ => (st, "bad-op")
  | ["apply", "streamc", caller, buf, c, d, e, out] =>
    match caller.toNat?, buf.toNat?, parseHex c, parseHex d, parseHex e, out.toNat? with
    | some k, some b, some c, some d, some e, some out => (st, applyText (applyBytesStreamCaller k b st.old c d e out))
    | _, _, _, _, _, _ => (st, "bad-op")
  | ["apply", "streamd", c, d, e, out] =>
    match parseHex c, parseHex d, parseHex e, out.toNat? with
    | some c, some d, some e, some out => (st, applyText (applyBytes (some defaultBuf) st.old c d e out))
    | _, _, _, _ => (st, "bad-op")
  | ["apply", "sread", ks, buf, c, d, e, out] =>
    match parseNats ks, buf.toNat?, parseHex c, parseHex d, parseHex e, out.toNat? with
    | some ks, some b, some c, some d, some e, some out =>
      (st, pErrText (applyBytesSrc ⟨st.old, schedOf ks, true⟩ b c d e out))
    | _, _, _, _, _, _ => (st, "bad-op")
  | ["apply", "noseek", buf, c, d, e, out] =>
    match buf.toNat?, parseHex c, parseHex d, parseHex e, out.toNat? with
    | some b, some c, some d, some e, some out =>
      (st, pErrText (applyBytesSrc ⟨st.old, fun _ => 1, false⟩ b c d e out))
    | _, _, _, _, _ => (st, "bad-op")
  | "buildp" :: "simple" :: rest =>
    match parsePairs rest with
    | some t => (st, buildP t (simple st.new))
    | none => (st, "bad-op")
  | "buildp" :: "chunked" :: blk :: rest =>
    match blk.toNat?, parsePairs rest with
    | some b, some t => (st, buildP t (chunked b st.old st.new))
    | _, _ => (st, "bad-op")
  | "buildp" :: "suffix" :: sa :: rest =>
    match parseSa sa, parsePairs rest with
    | some sa, some t => (st, buildP t (suffix sa st.old st.new))
    | _, _ => (st, "bad-op")
  | "applyp" :: "mem" :: p :: rest =>
    match parseHex p, parsePairs rest with
    | some p, some t => (st, applyP t none st.old p)
    | _, _ => (st, "bad-op")
  | "applyp" :: "stream" :: buf :: p :: rest =>
    match buf.toNat?, parseHex p, parsePairs rest with
    | some b, some p, some t => (st, applyP t (some b) st.old p)
    | _, _, _ => (st, "bad-op")
  | ["hdr", p] =>
    match parseHex p with
    | some p =>
      (st, match parseFromPatch p with
        | .ok h => "ok " ++ intText h.ctl ++ " " ++ intText h.diff ++ " " ++ intText h.out
        | .error e => e.text)
    | none => (st, "bad-op")
  | ["container", p] =>
    match parseHex p with
    | some p =>
      (st, match splitPatch p with
        | .ok (h, c, d, e) =>
          "ok " ++ intText h.ctl ++ " " ++ intText h.diff ++ " " ++ intText h.out ++ " c=" ++ hexOf c ++ " d=" ++ hexOf d ++
            " e=" ++ hexOf e ++ (if containerBuild h c d e == p then " rebuilt=same" else " rebuilt=differs")
        | .error e => e.text)
    | none => (st, "bad-op")
  | ["codec", "enc", v] =>
    match parseInt v with
    | some v => if -(2 ^ 63 : Int) ≤ v ∧ v < 2 ^ 63 then (st, hexOf (offtoutI64 v)) else (st, "bad-op")
    | none => (st, "bad-op")
  | ["codec", "dec", b] =>
    match parseHex b with
    | some b => if b.length = 8 then (st, intText (offtin b)) else (st, "bad-op")
    | none => (st, "bad-op")
  | _ => (st, "bad-op")

def main : IO Unit := do
  loopState (← IO.getStdin) (← IO.getStdout) handle ({} : St)
