/-
Driver/C16 — runs the executable ZBSDIFF model (builders, control-block codec, both patchers, and
the whole-patch layer of Model/Zbsdiff: header, zlib framing with zlib given as a table on the
request line, container split, i64 codec, short-reading old source) on protocol lines.
Stateful: `begin <old> <new>` sets the pair.

Large cases (harness/src/bin/c16.rs, "large blocks"): a byte-string token of a request may be a
reference into the state of the current case instead of hex —
  `@c` `@d` `@e`    the inflated control / diff / extra block of the last `build` / `buildp` line
                    that returned a patch (the MODEL's own blocks here, the real builder's there),
  `@p`              the patch bytes returned by the last `buildp` line,
  `@zc` `@zd` `@ze` the three stored slices of `@p` (container split),
  `@sa`             (suffix lines) the suffix array given by the last `sa <list>` line —
and a byte string of at least `digestMin` bytes is answered as `#<length>:<FNV-1a 64>` instead of
hex (both sides; equal response text = equal length and digest). A reference that has nothing to
refer to is `bad-op`.
-/
import Driver.Common
import Cascette.Model.Zbsdiff
open Cascette Drv
open Cascette.Model.Bspatch
open Cascette.Model.Zbsdiff

structure St where
  old : Bytes := []
  new : Bytes := []
  /-- inflated control / diff / extra block of the last `build` / `buildp` line that returned a patch -/
  blk : Option (Bytes × Bytes × Bytes) := none
  /-- patch bytes answered on the last `buildp` line -/
  pat : Option Bytes := none
  /-- suffix array of the last `sa` line -/
  sa : Option (Array Nat) := none
  /-- the builder line answered last (its tokens) and what the builder returned: `buildp X` right
  after `build X` asks for the same pure function of the same state (reset by `begin` / `sa`) -/
  memo : Option (List String × Except Err Patch) := none
  /-- `suffix sa old new` of this case for the suffix-array token answered last: `suffixBlk m sa old new`
  IS `suffix sa old new` for every `m` (by definition), so `build suffixb <m> <sa>` lines evaluate the
  same value once per case (reset by `begin` / `sa`) -/
  sfx : Option (String × Except Err Patch) := none

/-! big byte strings in responses: length + FNV-1a 64 -/

def digestMin : Nat := 16384

def fnv1a (b : Bytes) : UInt64 :=
  b.foldl (fun h x => (h ^^^ x.toNat.toUInt64) * 1099511628211) 14695981039346656037

def hexD (b : Bytes) : String :=
  if (b.take digestMin).length < digestMin then hexOf b
  else "#" ++ toString b.length ++ ":" ++ hexFixed 16 (fnv1a b).toNat

/-- a byte-string token: hex, `-`, or a reference into the state of the case. -/
def parseB (st : St) (t : String) : Option Bytes :=
  if t == "@c" then st.blk.map (·.1)
  else if t == "@d" then st.blk.map (·.2.1)
  else if t == "@e" then st.blk.map (·.2.2)
  else if t == "@p" then st.pat
  else if t == "@zc" ∨ t == "@zd" ∨ t == "@ze" then
    match st.pat.map splitPatch with
    | some (.ok (_, c, d, e)) => some (if t == "@zc" then c else if t == "@zd" then d else e)
    | _ => none
  else parseHex t

def intText (i : Int) : String := if i < 0 then "-" ++ toString i.natAbs else toString i.toNat

def ctlText (cs : List Spec.Bspatch.Ctl) : String :=
  if cs.isEmpty then "-" else
  ";".intercalate (cs.map fun c => toString c.diff ++ "," ++ toString c.extra ++ "," ++ intText c.seek)

def buildText : Except Err Patch → String
  | .error e => e.text
  | .ok p => "ctl=" ++ ctlText p.ctl ++ " raw=" ++ hexD (encodeCtl p.ctl) ++ " diff=" ++ hexD p.diff ++ " extra=" ++ hexD p.extra ++ " out=" ++ toString p.outSize

def applyText : Except Err Bytes → String
  | .error e => e.text
  | .ok o => hexD o

/-- state after a `build` / `buildp` line: the blocks of the patch it returned (none on an error). -/
def blocksOf : Except Err Patch → Option (Bytes × Bytes × Bytes)
  | .error _ => none
  | .ok p => some (encodeCtl p.ctl, p.diff, p.extra)

def parseSa (s : String) : Option (Array Nat) :=
  if s == "-" then some #[] else
  (s.splitOn ",").foldl (fun acc t => match acc, t.toNat? with
    | some a, some n => some (a.push n)
    | _, _ => none) (some #[])

/-! whole-patch layer: zlib is the finite table carried by the request line -/

def pErrText : Except PErr Bytes → String
  | .error e => e.text
  | .ok o => hexD o

/-- pairs `<key> <value>`; a value `!` is "inflate fails". -/
def parsePairs (st : St) : List String → Option (List (Bytes × Option Bytes))
  | [] => some []
  | [_] => none
  | k :: v :: rest =>
    match parseB st k, parsePairs st rest with
    | some k, some r => if v == "!" then some ((k, none) :: r) else (parseB st v).map fun v => (k, some v) :: r
    | _, _ => none

def tableHas (t : List (Bytes × Option Bytes)) (k : Bytes) : Bool := t.any (·.1 == k)

/-- compress table: inflated → compressed (a missing entry is detected before the call). -/
def zOfCompress (t : List (Bytes × Option Bytes)) : Zlib :=
  ⟨fun b => ((t.lookup b).bind id).getD [], fun _ => none⟩

/-- decompress table: compressed → inflated | fails. -/
def zOfDecompress (t : List (Bytes × Option Bytes)) : Zlib :=
  ⟨fun b => b, fun b => (t.lookup b).bind id⟩

def buildP (st : St) (t : List (Bytes × Option Bytes)) (r : Except Err Patch) : St × String :=
  match r with
  | .error e => ({ st with blk := none, pat := none }, e.text)
  | .ok p =>
    if tableHas t (encodeCtl p.ctl) && tableHas t p.diff && tableHas t p.extra then
      let b := buildBytes (zOfCompress t) (.ok p)
      ({ st with blk := blocksOf r, pat := b.toOption }, pErrText b)
    else ({ st with blk := blocksOf r, pat := none }, PErr.zmiss.text)

/-- a `build` line: answer and remember the blocks. -/
def buildB (st : St) (r : Except Err Patch) : St × String :=
  ({ st with blk := blocksOf r, pat := none }, buildText r)

def saTok (st : St) (t : String) : Option (Array Nat) :=
  if t == "@sa" then st.sa else parseSa t

/-- `suffix a old new` (= `suffixBlk m a old new` for every `m`), evaluated once per case and
suffix-array token. -/
def suffixOnce (st : St) (blk : Option Nat) (saTxt : String) (a : Array Nat) : Except Err Patch :=
  let run : Unit → Except Err Patch := fun _ =>
    match blk with
    | some m => suffixBlk m a st.old st.new
    | none => suffix a st.old st.new
  match st.sfx with
  | some (k, r) => if k == saTxt then r else run ()
  | none => run ()

/-- the state remembers the suffix builder's answer. -/
def noteSfx (st : St) (key : List String) (r : Except Err Patch) : St :=
  match key with
  | ["suffix", sa] => { st with sfx := some (sa, r) }
  | ["suffixb", _, sa] => { st with sfx := some (sa, r) }
  | _ => st

/-- the builder named by the tokens after `build` / `buildp`: (its tokens, the call, the rest of the line). -/
def builderOf (st : St) : List String → Option (List String × (Unit → Except Err Patch) × List String)
  | "simple" :: rest => some (["simple"], fun _ => simple st.new, rest)
  | "chunked" :: blk :: rest => blk.toNat?.map fun b => (["chunked", blk], fun _ => chunked b st.old st.new, rest)
  | "suffix" :: sa :: rest => (saTok st sa).map fun a => (["suffix", sa], fun _ => suffixOnce st none sa a, rest)
  | "suffixb" :: blk :: sa :: rest =>
    match blk.toNat?, saTok st sa with
    | some b, some a => some (["suffixb", blk, sa], fun _ => suffixOnce st (some b) sa a, rest)
    | _, _ => none
  | _ => none

def built (st : St) (key : List String) (f : Unit → Except Err Patch) : Except Err Patch :=
  match st.memo with
  | some (k, r) => if k == key then r else f ()
  | none => f ()

def applyP (t : List (Bytes × Option Bytes)) (buf : Option Nat) (old p : Bytes) : String :=
  let z := zOfDecompress t
  match splitPatch p with
  | .ok (_, cz, dz, ez) =>
    if tableHas t cz && tableHas t dz && tableHas t ez then pErrText (applyPatchBytes z buf old p) else PErr.zmiss.text
  | .error _ => pErrText (applyPatchBytes z buf old p)

def parseInt (s : String) : Option Int :=
  if s.startsWith "-" then (s.drop 1).toNat?.map fun n => -(n : Int) else s.toNat?.map fun n => (n : Int)

def parseNats (s : String) : Option (List Nat) :=
  (s.splitOn ",").foldr (fun t acc => match t.toNat?, acc with
    | some n, some a => some (n :: a)
    | _, _ => none) (some [])

def schedOf (ks : List Nat) : Nat → Nat := fun i => if ks.isEmpty then 1 else ks.getD (i % ks.length) 1

def handle (st : St) : List String → St × String
  | ["begin", o, n] =>
    match parseHex o, parseHex n with
    | some o, some n => ({ old := o, new := n }, "ok")
    | _, _ => (st, "bad-op")
  | ["sa", sa] =>
    match parseSa sa with
    | some sa => ({ st with sa := some sa, memo := none, sfx := none }, "ok")
    | none => (st, "bad-op")
  | "build" :: rest =>
    match builderOf st rest with
    | some (key, f, []) =>
      let r := built st key f
      buildB (noteSfx { st with memo := some (key, r) } key r) r
    | _ => (st, "bad-op")
  | "buildp" :: rest =>
    match builderOf st rest with
    | some (key, f, tbl) =>
      match parsePairs st tbl with
      | some t =>
        let r := built st key f
        buildP (noteSfx { st with memo := some (key, r) } key r) t r
      | none => (st, "bad-op")
    | none => (st, "bad-op")
  | ["apply", "mem", c, d, e, out] =>
    match parseB st c, parseB st d, parseB st e, out.toNat? with
    | some c, some d, some e, some out => (st, applyText (applyBytes none st.old c d e out))
    | _, _, _, _ => (st, "bad-op")
  | ["apply", "stream", buf, c, d, e, out] =>
    match buf.toNat?, parseB st c, parseB st d, parseB st e, out.toNat? with
    | some b, some c, some d, some e, some out => (st, applyText (applyBytes (some b) st.old c d e out))
    | _, _, _, _, _ => (st, "bad-op")
  | ["apply", "streamc", caller, buf, c, d, e, out] =>
    match caller.toNat?, buf.toNat?, parseB st c, parseB st d, parseB st e, out.toNat? with
    | some k, some b, some c, some d, some e, some out => (st, applyText (applyBytesStreamCaller k b st.old c d e out))
    | _, _, _, _, _, _ => (st, "bad-op")
  | ["apply", "streamd", c, d, e, out] =>
    match parseB st c, parseB st d, parseB st e, out.toNat? with
    | some c, some d, some e, some out => (st, applyText (applyBytes (some defaultBuf) st.old c d e out))
    | _, _, _, _ => (st, "bad-op")
  | ["apply", "sread", ks, buf, c, d, e, out] =>
    match parseNats ks, buf.toNat?, parseB st c, parseB st d, parseB st e, out.toNat? with
    | some ks, some b, some c, some d, some e, some out =>
      (st, pErrText (applyBytesSrc ⟨st.old, schedOf ks, true⟩ b c d e out))
    | _, _, _, _, _, _ => (st, "bad-op")
  -- the source is handed to `ZbsdiffPatcher::new` at stream position `pos`. In the code as written
  -- `get_old_file_size` is `stream_position(); seek(End(0)); seek(Start(saved))` = the absolute
  -- length, and every `read_old_chunk` seeks to an absolute `Start(p)` before `read_exact`: the
  -- model (`readOldChunk` over `Source.data` at an explicit `pos`) has no current position at
  -- all, so its answer is that of `sread` whatever `pos` is — which is the property's claim.
  | ["apply", "spos", pos, ks, buf, c, d, e, out] =>
    match pos.toNat?, parseNats ks, buf.toNat?, parseB st c, parseB st d, parseB st e, out.toNat? with
    | some _, some ks, some b, some c, some d, some e, some out =>
      (st, pErrText (applyBytesSrc ⟨st.old, schedOf ks, true⟩ b c d e out))
    | _, _, _, _, _, _, _ => (st, "bad-op")
  | ["apply", "noseek", buf, c, d, e, out] =>
    match buf.toNat?, parseB st c, parseB st d, parseB st e, out.toNat? with
    | some b, some c, some d, some e, some out =>
      (st, pErrText (applyBytesSrc ⟨st.old, fun _ => 1, false⟩ b c d e out))
    | _, _, _, _, _ => (st, "bad-op")
  | "applyp" :: "mem" :: p :: rest =>
    match parseB st p, parsePairs st rest with
    | some p, some t => (st, applyP t none st.old p)
    | _, _ => (st, "bad-op")
  | "applyp" :: "stream" :: buf :: p :: rest =>
    match buf.toNat?, parseB st p, parsePairs st rest with
    | some b, some p, some t => (st, applyP t (some b) st.old p)
    | _, _, _ => (st, "bad-op")
  | ["hdr", p] =>
    match parseB st p with
    | some p =>
      (st, match parseFromPatch p with
        | .ok h => "ok " ++ intText h.ctl ++ " " ++ intText h.diff ++ " " ++ intText h.out
        | .error e => e.text)
    | none => (st, "bad-op")
  | ["container", p] =>
    match parseB st p with
    | some p =>
      (st, match splitPatch p with
        | .ok (h, c, d, e) =>
          "ok " ++ intText h.ctl ++ " " ++ intText h.diff ++ " " ++ intText h.out ++ " c=" ++ hexD c ++ " d=" ++ hexD d ++
            " e=" ++ hexD e ++ (if containerBuild h c d e == p then " rebuilt=same" else " rebuilt=differs")
        | .error e => e.text)
    | none => (st, "bad-op")
  | ["codec", "enc", v] =>
    match parseInt v with
    | some v => if -(2 ^ 63 : Int) ≤ v ∧ v < 2 ^ 63 then (st, hexOf (offtoutI64 v)) else (st, "bad-op")
    | none => (st, "bad-op")
  | ["codec", "dec", b] =>
    match parseHex b with
    | some b => if b.length = 8 then (st, intText (offtin b)) else (st, "bad-op")
    | none => (st, "bad-op")
  | _ => (st, "bad-op")

/-! ### large cases run in a child process

The model works on `List Byte`; after a few cases with 200 KB lists the allocator's free lists are
scattered and every later list walk in the same process gets several times slower. A case whose
`begin` line is longer than `bigCase` bytes is therefore handed — all its lines, up to the next
`begin` — to a fresh copy of this executable (`--inline`: never delegates), which answers on the
inherited stdout. The answers are those of `handle` either way. -/

def bigCase : Nat := 60000

partial def collectCase (h : IO.FS.Stream) (acc : Array String) : IO (Array String × Option String) := do
  let line ← h.getLine
  if line.isEmpty then return (acc, none)
  if line.startsWith "begin" then return (acc, some line)
  collectCase h (acc.push line)

def feed (cin : IO.FS.Handle) (lines : Array String) : IO Unit := do
  for l in lines do cin.putStr l
  cin.flush

partial def mainLoop (isolate : Bool) (h out : IO.FS.Stream) (st : St) (pending : Option String) : IO Unit := do
  let line ← match pending with
    | some l => pure l
    | none => h.getLine
  if line.isEmpty then return ()
  if isolate && line.startsWith "begin " && line.utf8ByteSize > bigCase then
    let (lines, next) ← collectCase h #[line]
    out.flush
    let exe := (← IO.appPath).toString
    let spawned ← try
        let c ← IO.Process.spawn
          { cmd := exe, args := #["--inline"], stdin := .piped, stdout := .inherit, stderr := .null }
        pure (some c)
      catch _ => pure none
    -- `done = false`: no child ran (spawn failed, or the exec inside the forked child failed: exit
    -- code 255 before any output) — answer here instead (slower, same answers)
    let done ← match spawned with
      | some child => do
        let (cin, child) ← child.takeStdin
        try feed cin lines catch _ => pure ()
        let rc ← child.wait
        if rc == 255 then pure false
        else if rc != 0 then throw (IO.userError s!"child driver exited {rc}")
        else pure true
      | none => pure false
    if !done then
      let mut s : St := {}
      for l in lines do
        let (s', r) := handle s (tokens l)
        out.putStrLn r
        s := s'
    mainLoop isolate h out {} next
  else
    let (s', r) := handle st (tokens line)
    out.putStrLn r
    mainLoop isolate h out s' none

def main (args : List String) : IO Unit := do
  mainLoop (!args.contains "--inline") (← IO.getStdin) (← IO.getStdout) ({} : St) none
