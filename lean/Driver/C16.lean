/-
Driver/C16 — runs the executable ZBSDIFF model (builders, control-block codec, both patchers) on
protocol lines. Stateful: `begin <old> <new>` sets the pair.
-/
import Driver.Common
import Cascette.Model.Bspatch
open Cascette Drv
open Cascette.Model.Bspatch

structure St where
  old : Bytes := []
  new : Bytes := []

def intText (i : Int) : String := if i < 0 then "-" ++ toString i.natAbs else toString i.toNat

def ctlText (cs : List Spec.Bspatch.Ctl) : String :=
  if cs.isEmpty then "-" else
  ";".intercalate (cs.map fun c => toString c.diff ++ "," ++ toString c.extra ++ "," ++ intText c.seek)

def buildText : Except Err Patch → String
  | .error e => e.text
  | .ok p => "ctl=" ++ ctlText p.ctl ++ " raw=" ++ hexOf (encodeCtl p.ctl) ++ " diff=" ++ hexOf p.diff ++ " extra=" ++ hexOf p.extra ++ " out=" ++ toString p.outSize

def applyText : Except Err Bytes → String
  | .error e => e.text
  | .ok o => hexOf o

def parseSa (s : String) : Option (Array Nat) :=
  if s == "-" then some #[] else
  (s.splitOn ",").foldl (fun acc t => match acc, t.toNat? with
    | some a, some n => some (a.push n)
    | _, _ => none) (some #[])

def handle (st : St) : List String → St × String
  | ["begin", o, n] =>
    match parseHex o, parseHex n with
    | some o, some n => ({ old := o, new := n }, "ok")
    | _, _ => (st, "bad-op")
  | ["build", "simple"] => (st, buildText (simple st.new))
  | ["build", "chunked", blk] =>
    match blk.toNat? with
    | some b => (st, buildText (chunked b st.old st.new))
    | none => (st, "bad-op")
  | ["build", "suffix", sa] =>
    match parseSa sa with
    | some sa => (st, buildText (suffix sa st.old st.new))
    | none => (st, "bad-op")
  | ["apply", "mem", c, d, e, out] =>
    match parseHex c, parseHex d, parseHex e, out.toNat? with
    | some c, some d, some e, some out => (st, applyText (applyBytes none st.old c d e out))
    | _, _, _, _ => (st, "bad-op")
  | ["apply", "stream", buf, c, d, e, out] =>
    match buf.toNat?, parseHex c, parseHex d, parseHex e, out.toNat? with
    | some b, some c, some d, some e, some out => (st, applyText (applyBytes (some b) st.old c d e out))
    | _, _, _, _, _ => (st, "bad-op")
  | ["apply", "streamc", caller, buf, c, d, e, out] =>
    match caller.toNat?, buf.toNat?, parseHex c, parseHex d, parseHex e, out.toNat? with
    | some k, some b, some c, some d, some e, some out => (st, applyText (applyBytesStreamCaller k b st.old c d e out))
    | _, _, _, _, _, _ => (st, "bad-op")
  | _ => (st, "bad-op")

def main : IO Unit := do
  loopState (← IO.getStdin) (← IO.getStdout) handle ({} : St)
