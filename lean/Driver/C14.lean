/-
Driver/C14 — runs `Model.Retry` on protocol lines (see harness/src/bin/c14.rs for the grammar).
The f64 expression of the backoff update, which the theorems keep abstract as `scale`, is
instantiated here with IEEE doubles: `as_secs_f64`, `*`, Rust's NaN-ignoring `min`/`max`, and an
exact integer re-implementation of `Duration::try_from_secs_f64` (round to nearest, ties to even,
on the bits of the double).
-/
import Driver.Common
import Cascette.Model.Retry
import Cascette.Model.RetryEnv
import Cascette.Model.RetryClock
import Cascette.Generated.RetrySrc
open Cascette Drv
open Cascette.Model Cascette.Model.Retry Cascette.Model.RetryOps
open Cascette.Generated

namespace C14

/-- `Duration::as_secs_f64`: `secs as f64 + nanos as f64 / 1e9`. -/
def asSecsF64 (ns : Nat) : Float :=
  (UInt64.ofNat (ns / 1000000000)).toFloat + (UInt64.ofNat (ns % 1000000000)).toFloat / 1000000000.0

/-- Rust `f64::min`: a NaN operand is ignored. -/
def fmin (a b : Float) : Float :=
  if a.isNaN then b else if b.isNaN then a else if a < b then a else b

/-- Rust `f64::max`. -/
def fmax (a b : Float) : Float :=
  if a.isNaN then b else if b.isNaN then a else if a > b then a else b

/-- `Duration::try_from_secs_f64` in ns; `none` = `Err` (negative, NaN, ≥ 2^64 s). -/
def tryFromSecsF64 (x : Float) : Option Nat :=
  if x < 0.0 then none else
  let bits := x.toBits.toNat
  let mant := bits % 2 ^ 52 + 2 ^ 52
  let e : Int := ((bits / 2 ^ 52 % 2 ^ 11 : Nat) : Int) - 1023
  if e < -31 then some 0
  else if e ≥ 64 then none
  else if e ≥ 52 then some (mant * 2 ^ (e - 52).toNat * 1000000000)
  else
    let sh := (52 - e).toNat
    let num := mant * 1000000000
    let q := num / 2 ^ sh
    let r := num % 2 ^ sh
    let half := 2 ^ (sh - 1)
    some (if r > half ∨ (r = half ∧ q % 2 = 1) then q + 1 else q)

/-- IEEE doubles as the arithmetic of the GENERATED expressions (Generated/RetrySrc.lean). -/
def floatOps : Ops Float where
  asSecsF64 := asSecsF64
  ofNat := Float.ofNat
  toU64 := fun x => x.toUInt64.toNat
  mul := fun a b => a * b
  fmin := fmin
  fmax := fmax
  lit := fun n d => Float.ofNat n / Float.ofNat d
  tryFromSecsF64 := tryFromSecsF64

/-- the f64 part of the backoff update: the expression the translator read in the source
(`RetrySrc.scaled`), evaluated on doubles -/
def scaleFixed (mul : Float) (maxBackoff : Nat) (b : Nat) : Option Nat :=
  tryFromSecsF64 (RetrySrc.scaled floatOps b maxBackoff mul)

/-- `execute` assembled from the generated pieces only (Proofs/RetryTie: equal to the model) -/
def genExecute (mul : Float) (p : Policy) (outs : List Outcome) : Trace :=
  let S : Shape := { attemptInit := RetrySrc.attempt_init, arms := RetrySrc.arms,
                     stopGuard := RetrySrc.stop_guard, retryArm := RetrySrc.retry_arm }
  let P : Pieces := { baseDelay := RetrySrc.base_delay, jitterOn := false,
                      jittered := fun _ d => d,
                      nextBackoff := fun b => RetrySrc.next_backoff floatOps b p.maxBackoff mul }
  genLoop S P p.maxAttempts S.attemptInit (RetrySrc.first_backoff p.initialBackoff p.maxBackoff) outs

def ceilMs (ns : Nat) : Nat := (ns + 999999) / 1000000

def field (k : String) (toks : List String) : Option String :=
  toks.findSome? fun t => if t.startsWith (k ++ "=") then some (t.drop (k.length + 1)).toString else none

def parseTok (s : String) : Option Outcome :=
  match s.toList with
  | [] => none
  | h :: rest =>
    let r := String.ofList rest
    let code : Option Nat := r.toNat?.bind fun c => if 100 ≤ c ∧ c ≤ 999 then some c else none
    let nop (o : Outcome) : Option Outcome := if rest.isEmpty then some o else none
    match h with
    | 'O' => r.toNat?.map .ok
    | 'T' => nop (.err .timeout)
    | 'U' => nop (.err .serviceUnavailable)
    | 'W' => r.toNat?.map fun i => .err (.network i)
    | 'V' => code.map fun c => .err (.serverError c)
    | 'H' => code.map fun c => .err (.httpStatus c)
    | 'L' => if r == "-" then some (.err (.rateLimited none))
             else r.toNat?.bind fun h => if h ≤ durMax then some (.err (.rateLimited (some h))) else none
    | 'P' => r.toNat?.map fun i => .err (.parse i)
    | 'X' => r.toNat?.map fun i => .err (.other i)
    | 'A' => nop (.err .allHostsFailed)
    | 'K' => nop (.err .invalidKey)
    | 'E' => r.toNat?.map fun i => .err (.invalidEndpoint i)
    | 'G' => nop (.err .rangeNotSupported)
    | 'M' => r.toNat?.map fun i => .err (.unsupportedOnWasm i)
    | '8' => nop (.err .utf8)
    | 'C' => r.toNat?.map fun i => .err (.cache i)
    | _ => none

def errTok : Err → String
  | .network i => s!"W{i}"
  | .http t => if t then "Qc" else "Qo"
  | .parse i => s!"P{i}"
  | .cache i => s!"C{i}"
  | .allHostsFailed => "A"
  | .rateLimited none => "L-"
  | .rateLimited (some h) => s!"L{h}"
  | .serviceUnavailable => "U"
  | .httpStatus c => s!"H{c}"
  | .serverError c => s!"V{c}"
  | .invalidKey => "K"
  | .invalidEndpoint i => s!"E{i}"
  | .rangeNotSupported => "G"
  | .timeout => "T"
  | .other i => s!"X{i}"
  | .utf8 => "8"
  | .unsupportedOnWasm i => s!"M{i}"

def resTok : Result → String
  | .ok v => s!"O{v}"
  | .err e => errTok e
  | .panic => "panic"
  | .starved => "starved"

def optAll {α : Type} : List (Option α) → Option (List α)
  | [] => some []
  | none :: _ => none
  | some a :: r => (optAll r).map (a :: ·)

def msList (cap : Nat) (ds : List Nat) : String :=
  if ds.isEmpty then "-" else ",".intercalate (ds.map fun d => toString (ceilMs (min d cap)))

def parseBits (s : String) : Option Float :=
  if s.length ≠ 16 then none else
  (parseHexNat s).map fun bs => Float.ofBits (UInt64.ofNat (bs.foldl (fun a b => a * 256 + b) 0))

def bitsHex (f : Float) : String := hexFixed 16 f.toBits.toNat

def exec (toks : List String) : Option String := do
  let mx ← (← field "mx" toks).toNat?
  let ini ← (← field "ini" toks).toNat?
  let max ← (← field "max" toks).toNat?
  let mul ← parseBits (← field "mul" toks)
  let jit ← match ← field "jit" toks with
    | "0" => some false
    | "1" => some true
    | _ => none
  let cap ← (← field "cap" toks).toNat?
  let outS ← field "out" toks
  let outs ← if outS == "-" then some [] else optAll ((outS.splitOn ",").map parseTok)
  if mx ≥ 2 ^ 32 ∨ ini > durMax ∨ max > durMax then none
  let p : Policy := { maxAttempts := mx, initialBackoff := ini, maxBackoff := max, jitter := jit }
  let A := Arith.fixed (scaleFixed mul max)
  if !jit then
    if toks.length ≠ 7 then none
    let t := execute A p (fun _ _ => 0) outs
    -- the same run on the loop assembled from the generated source pieces
    let g := genExecute mul p outs
    if g.calls ≠ t.calls ∨ g.delays ≠ t.delays ∨ resTok g.result ≠ resTok t.result then
      return s!"source-shape-differs calls={g.calls} d={msList cap g.delays} res={resTok g.result}"
    return s!"calls={t.calls} d={msList cap t.delays} res={resTok t.result}"
  else
    if toks.length ≠ 8 then none
    let obsS ← field "obs" toks
    let obs ← if obsS == "-" then some [] else optAll ((obsS.splitOn ",").map String.toNat?)
    -- the jitter the implementation drew, recovered from its observed delays (whole ms)
    let jitOf (k base : Nat) : Nat :=
      if min base cap = cap then 0 else (obs.getD (k - 1) 0 - ceilMs base) * 1000000
    let t := execute A p jitOf outs
    -- the law the theorems assume of the jitter source (`jitter ∈ 0.0..0.3` of whole ms), and
    -- agreement of the model's delays with the observed ones
    let t0 := execute A p (fun _ _ => 0) outs
    let modelMs := t.delays.map fun d => ceilMs (min d cap)
    let rec firstBad (i : Nat) (bases ms os : List Nat) : Option Nat :=
      match bases, ms, os with
      | [], [], [] => none
      | b :: bs, m :: ms, o :: os =>
        if m = o ∧ (min b cap = cap ∨ 10 * (o - ceilMs b) ≤ 3 * (b / 1000000)) then firstBad (i + 1) bs ms os
        else some i
      | _, _, _ => some i
    let d := match firstBad 0 t0.delays modelMs obs with
      | none => "jit-ok"
      | some i => s!"jit-bad@{i}"
    return s!"calls={t.calls} d={d} res={resTok t.result}"

def envVal (s : String) : Option (Option (List Char)) :=
  if s == "~" ∨ s == "!" then some none
  else match parseHexNat s with
    | some bs =>
      match String.fromUTF8? (ByteArray.mk (bs.map UInt8.ofNat).toArray) with
      | some str => some (some str.toList)
      | none => none
    | none => none

def env (toks : List String) : Option String := do
  if toks.length ≠ 6 then none
  let r ← envVal (← field "r" toks)
  let b ← envVal (← field "b" toks)
  let m ← envVal (← field "m" toks)
  let x ← envVal (← field "x" toks)
  let j ← envVal (← field "j" toks)
  let xb ← field "xbits" toks
  let xbits ← if xb == "none" then some none else (parseBits xb).map some
  -- integer and f64 grammars as the library writes them (Model/RetryEnv); only the VALUE of an
  -- accepted f64 string is the parameter `xbits`. A string the model accepts and Rust rejects
  -- (xbits=none) shows as `mul=accepted-by-model-only`.
  let (p, mul) := RetryEnv.fromEnvC (fun _ => xbits) (some (2.0 : Float))
    { retries := r, backoff := b, maxBackoff := m, multiplier := x, jitter := j }
  let mulS := match mul with
    | some f => bitsHex f
    | none => "accepted-by-model-only"
  return s!"mx={p.maxAttempts} ini={p.initialBackoff} max={p.maxBackoff} mul={mulS} jit={if p.jitter then 1 else 0}"

/-- `pu bits=<32|64> s=<env string>`: `<uN as FromStr>` -/
def pu (toks : List String) : Option String := do
  if toks.length ≠ 2 then none
  let bits ← (← field "bits" toks).toNat?
  if bits ≠ 32 ∧ bits ≠ 64 then none
  let v ← envVal (← field "s" toks)
  let str ← v
  let a := RetryEnv.parseUnsignedChecked (2 ^ bits) str
  let b := parseUnsigned (2 ^ bits) str
  if a ≠ b then return "model-split"
  return match a with
    | some n => s!"v={n}"
    | none => "v=none"

/-- `f64 s=<env string>`: does `<f64 as FromStr>` accept? -/
def f64acc (toks : List String) : Option String := do
  if toks.length ≠ 1 then none
  let v ← envVal (← field "s" toks)
  let str ← v
  return s!"acc={if RetryEnv.f64Accepts str then 1 else 0}"

/-- `sleep d=<ns> fits=<0|1>`: what the paused clock shows for `tokio::time::sleep(d)`;
`fits` = `Instant::now().checked_add(d).is_some()` -/
def sleepOp (toks : List String) : Option String := do
  if toks.length ≠ 2 then none
  let d ← (← field "d" toks).toNat?
  if d > durMax then none
  let fits ← match ← field "fits" toks with
    | "0" => some false
    | "1" => some true
    | _ => none
  -- an `Instant` always has room for the 30-year clamp itself
  if !fits ∧ d ≤ RetryClock.farFuture then none
  let room := if fits then max d RetryClock.farFuture else RetryClock.farFuture
  let o := RetryClock.view (RetryClock.observed room d)
  if o ≠ RetryClock.view d then return "view-unsound"
  return s!"ms={o}"

def cdnStep (s : String) : Option (Nat × Option (List Char)) :=
  match s.splitOn ":" with
  | [st] => st.toNat?.bind fun c => if 200 ≤ c ∧ c ≤ 599 then some (c, none) else none
  | [st, h] =>
    match st.toNat?, envVal h with
    | some c, some (some v) => if 200 ≤ c ∧ c ≤ 599 then some (c, some v) else none
    | _, _ => none
  | _ => none

def cdn (toks : List String) : Option String := do
  if toks.length ≠ 1 then none
  let st ← field "st" toks
  let steps ← optAll ((st.splitOn ",").map cdnStep)
  let rec mk (k : Nat) : List (Nat × Option (List Char)) → List Outcome
    | [] => []
    | (c, h) :: r => classifyStatus c h k :: mk (k + 1) r
  -- after the script the mock answers 404
  let outs := mk 0 steps ++ List.replicate 4 (classifyStatus 404 none 0)
  let p := defaultPolicy
  let t := execute (Arith.fixed (scaleFixed 2.0 p.maxBackoff)) p (fun _ _ => 0) outs
  let res := match t.result with
    | .ok k => if (steps.getD k (0, none)).1 = 204 then "B" else s!"B{k}"
    | r => resTok r
  return s!"reqs={t.calls} res={res}"

def handle : List String → String
  | "exec" :: rest => (exec rest).getD "bad-op"
  | "env" :: rest => (env rest).getD "bad-op"
  | "cdn" :: rest => (cdn rest).getD "bad-op"
  | "pu" :: rest => (pu rest).getD "bad-op"
  | "f64" :: rest => (f64acc rest).getD "bad-op"
  | "sleep" :: rest => (sleepOp rest).getD "bad-op"
  | _ => "bad-op"

end C14

def main : IO Unit := do
  loopPure (← IO.getStdin) (← IO.getStdout) C14.handle
