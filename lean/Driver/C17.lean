/-
Driver/C17 — runs the pointer-level model `Model.LruPtr` (the code as written) on protocol lines
and, beside it, the proved sequence-level model `Model.LruSeq`; any difference between the two
layers is appended to the response line (`SEQ-DIFFERS …`) so that it shows up as a
correspondence failure.  The two layers are allowed to part only after a reload has dropped an
all-zero key (the recorded format-level finding), where `LruSeq` stops being exact by design.
Until then the pointer state must also satisfy the (executable part of the) representation
invariant of the refinement proof on every step (`REP-BROKEN` otherwise), and `filecheck` reads
the model's own checkpoint file back as a linked list, to be compared with the same reading of
the file the real code wrote.

`shutdown` (bump + checkpoint + scan_directory, `Model/LruPersist`) is run on both layers like any
other operation; `latest` (no state change) answers `find_latest_lru_file` on the model's
directory.

MD5 is a parameter of the model; the driver instantiates it with a constant (the hash field is
not an observable of the property, and the model only ever reads files it wrote itself).
-/
import Std.Data.HashMap
import Std.Data.HashSet
import Driver.Common
import Cascette.Model.LruPtr
import Cascette.Model.LruPersist
open Cascette Drv
open Cascette.Spec.Lru
open Cascette.Model

def md5c : Bytes → Bytes := fun _ => LruPtr.zeros16

/-- rendering helper: a key as one number (only used to index hash tables in the driver) -/
def keyNat (k : LruPtr.Key) : Nat × Nat :=
  ((k.take 7).foldl (fun a b => a * 256 + b.toNat) 0, (k.drop 7).foldl (fun a b => a * 256 + b.toNat) 0)

structure DState where
  started : Bool
  keys : List LruPtr.Key
  /-- universe key ↦ its index, for rendering `order=` -/
  index : Std.HashMap (Nat × Nat) Nat
  ptr : LruPtr.Ptr
  seq : LruSeq.Seq LruPtr.Key
  seqExact : Bool

def DState.empty : DState :=
  { started := false, keys := [], index := {}, ptr := LruPtr.Ptr.init 0, seq := LruSeq.Seq.init 0, seqExact := true }

def parseKeys (s : String) : Option (List LruPtr.Key) :=
  (s.splitOn ",").mapM fun h =>
    match parseHex h with
    | some b => if b.length = 9 then some b else none
    | none => none

def keyIndex (index : Std.HashMap (Nat × Nat) Nat) (k : LruPtr.Key) : String :=
  match index[keyNat k]? with
  | some i => toString i
  | none => "?"

def fmtOrder (index : Std.HashMap (Nat × Nat) Nat) : Option (List LruPtr.Key) → String
  | none => "loop"
  | some [] => "-"
  | some l => ",".intercalate (l.map (keyIndex index))

/-- `contains` for every universe key at once: `contains k` is `k ∈ key_map`, so one pass over
the key map's keys answers all of them. -/
def hasBits (keys present : List LruPtr.Key) : List Bool :=
  let set : Std.HashSet (Nat × Nat) := present.foldl (fun acc k => acc.insert (keyNat k)) {}
  keys.map fun k => set.contains (keyNat k)

def fmtHas (bits : List Bool) : String :=
  if bits.isEmpty then "-" else String.ofList (bits.map fun b => if b then '1' else '0')

def fmtOut : XOp LruPtr.Key → Out → String
  | .op .evictTail, .bool b => if b then "some" else "none"
  | _, .bool b => if b then "true" else "false"
  | _, .evicted n f => s!"{n} {f}"
  | _, .ok => "ok"
  | _, .err => "err"
  | _, .cycle l e f a => s!"ok loaded={l} evicted={e} freed={f} active={a}"

def ptrView (st : DState) (p : LruPtr.Ptr) : String :=
  s!"len={LruPtr.len p} order={fmtOrder st.index (LruPtr.iter p)} has={fmtHas (hasBits st.keys (p.keyMap.map (·.1)))} gen={p.gen} prev={p.prev}"

def seqView (st : DState) (q : LruSeq.Seq LruPtr.Key) : String :=
  s!"len={q.len} order={fmtOrder st.index (some (q.iter LruPtr.zeroKey))} has={fmtHas (hasBits st.keys q.order)} gen={q.gen} prev={q.prev}"

def parseBase (keys : List LruPtr.Key) : List String → Option (Op LruPtr.Key)
  | ["touch", i] => (i.toNat?.bind (keys[·]?)).map .touch
  | ["remove", i] => (i.toNat?.bind (keys[·]?)).map .remove
  | ["evict_tail"] => some .evictTail
  | ["evict_to", t, a] => match t.toNat?, a.toNat? with
    | some t, some a => some (.evictTo t a)
    | _, _ => none
  | ["bump"] => some .bump
  | ["checkpoint"] => some .checkpoint
  | ["load", g] => g.toNat?.map .load
  | ["run_cycle", l, a] => match l.toNat?, a.toNat? with
    | some l, some a => some (.runCycle l a)
    | _, _ => none
  | ["reset"] => some .reset
  | ["reopen"] => some .reopen
  | _ => none

def parseOp (keys : List LruPtr.Key) : List String → Option (XOp LruPtr.Key)
  | ["shutdown"] => some .shutdown
  | toks => (parseBase keys toks).map .op

/-- the executable side of the representation invariant of `Proofs/LruRefine` (`RepF`): the
`next` walk ends inside the fuel, `prev` and `mru_head` mirror it, linked + free = capacity =
array length, `len()` = number of linked slots.  Proved to hold after every history without a
reload; checked here on EVERY step of every generated history (reloads included) while the two
layers are supposed to agree. -/
def repHolds (p : LruPtr.Ptr) : Bool :=
  match p.slots with
  | none => false
  | some L =>
    LruPtr.prevOk p.entries LruPtr.SENT L && p.header.head == L.getLastD LruPtr.SENT &&
    p.entries.length == p.cap && L.length + p.freeList.length == p.cap && LruPtr.len p == L.length

/-- `filecheck`: the checkpoint file of the current generation read as a doubly linked list. -/
def fmtFileView (st : DState) : String :=
  match LruPtr.fileView md5c st.ptr with
  | none => "nofile"
  | some none => "file walk=bad"
  | some (some v) =>
    s!"file n={v.entries} linked={fmtOrder st.index (some v.linked)} free={v.free} stale={v.stale} prev={if v.prevOk then "ok" else "bad"} head={if v.headOk then "ok" else "bad"}"

/-- does this op restore a snapshot that holds the all-zero key (at the `LruSeq` level)? -/
def restoresZero (q : LruSeq.Seq LruPtr.Key) : XOp LruPtr.Key → Bool
  | .op (.load g) => match Files.lookup q.files g with
    | some snap => snap.contains LruPtr.zeroKey
    | none => false
  | .op (.runCycle _ _) => match Files.latest q.files with
    | some g => match Files.lookup q.files g with
      | some snap => snap.contains LruPtr.zeroKey
      | none => false
    | none => false
  | _ => false

def handle (st : DState) (toks : List String) : DState × String :=
  match toks with
  | ["begin", c, k] =>
    match (c.dropPrefix? "cap=").bind (·.toString.toNat?), (k.dropPrefix? "keys=").bind (fun r => parseKeys r.toString) with
    | some cap, some keys =>
      ({ started := true, keys := keys,
         index := (keys.zipIdx).foldl (fun m (k, i) => m.insert (keyNat k) i) {}, ptr := LruPtr.Ptr.init cap, seq := LruSeq.Seq.init cap, seqExact := true }, "ok")
    | _, _ => (st, "bad-op")
  | _ =>
    if !st.started then (st, "bad-op") else
    if toks == ["filecheck"] then (st, s!"{fmtFileView st} | {ptrView st st.ptr}") else
    if toks == ["latest"] then
      (st, (match LruPersist.ptrLatest st.ptr with | none => "none" | some g => s!"gen={g}") ++ s!" | {ptrView st st.ptr}") else
    match parseOp st.keys toks with
    | none => (st, "bad-op")
    | some op =>
      match LruPersist.ptrXStep md5c st.ptr op with
      | none => (st, "panic")
      | some (p', out) =>
        let exact := st.seqExact && !restoresZero st.seq op
        let (q', qout) := LruPersist.seqXStep LruPtr.zeroKey st.seq op
        let line := s!"{fmtOut op out} | {ptrView st p'}"
        let same := out == qout && LruPtr.len p' == q'.len && LruPtr.iter p' == some (q'.iter LruPtr.zeroKey)
          && hasBits st.keys (p'.keyMap.map (·.1)) == hasBits st.keys q'.order && p'.gen == q'.gen && p'.prev == q'.prev
        let line := if exact && !same then
          line ++ " SEQ-DIFFERS " ++ s!"{fmtOut op qout} | {seqView st q'}" else line
        let line := if exact && !repHolds p' then line ++ " REP-BROKEN" else line
        ({ st with ptr := p', seq := q', seqExact := exact }, line)

def main : IO Unit := do
  loopState (← IO.getStdin) (← IO.getStdout) handle DState.empty
