/-
Driver/C09 — runs the executable models of the cipher and hash primitives on protocol lines.
-/
import Driver.Common
import Cascette.Model.Salsa20
import Cascette.Model.Jenkins
import Cascette.Model.Arc4
import Cascette.Model.Simd
import Cascette.Spec.Md5
import Cascette.Spec.Rc4
import Cascette.Model.HashGuards
open Cascette Drv

def w32? (s : String) : Option W32 := s.toNat?.map (BitVec.ofNat 32)

def handle : List String → String
  | ["salsa", k, iv, idx, m] =>
    match parseHex k, parseHex iv, idx.toNat?, parseHex m with
    | some k, some iv, some idx, some m =>
      if k.length ≠ 16 then "bad-op" else
      match Model.Salsa20.crypt k iv idx m with
      | some o => hexOf o
      | none => "err"
    | _, _, _, _ => "bad-op"
  | ["salsa_split", k, iv, idx, m, sp] =>
    match parseHex k, parseHex iv, idx.toNat?, parseHex m, sp.toNat? with
    | some k, some iv, some idx, some m, some sp =>
      if k.length ≠ 16 then "bad-op" else
      match Model.Salsa20.new k iv idx with
      | some c =>
        let (c1, o1) := Model.Salsa20.apply c (m.take sp)
        let (_, o2) := Model.Salsa20.apply c1 (m.drop sp)
        hexOf (o1 ++ o2)
      | none => "err"
    | _, _, _, _, _ => "bad-op"
  | ["arc4", k, m] =>
    match parseHex k, parseHex m with
    | some k, some m =>
      match Model.Arc4.crypt k m with
      | some o => hexOf o
      | none => "err"
    | _, _ => "bad-op"
  | ["arc4_split", k, m, sp] =>
    match parseHex k, parseHex m, sp.toNat? with
    | some k, some m, some sp =>
      match Model.Arc4.new k with
      | some c =>
        let (c1, o1) := Model.Arc4.apply c (m.take sp)
        let (_, o2) := Model.Arc4.apply c1 (m.drop sp)
        hexOf (o1 ++ o2)
      | none => "err"
    | _, _, _ => "bad-op"
  | ["arc4c", k, m] =>
    -- the CHECKED model: `panic` where an index would be out of bounds
    match parseHex k, parseHex m with
    | some k, some m =>
      match Model.Arc4.Checked.new k with
      | none => if (Model.Arc4.new k).isSome then "panic" else "err"
      | some c =>
        match Model.Arc4.Checked.apply c m with
        | some (_, o) => hexOf o
        | none => "panic"
    | _, _ => "bad-op"
  | ["rc4", k, m] =>
    -- the SPECIFICATION itself (Spec/Rc4: permutation function, mod-256 arithmetic)
    match parseHex k, parseHex m with
    | some k, some m =>
      match Spec.Rc4.crypt k m with
      | some o => hexOf o
      | none => "err"
    | _, _ => "bad-op"
  | ["cka", h] =>
    match parseHex h with
    | some h => if h.length ≠ 30 then "bad-op" else hexFixed 8 (Model.HashGuards.checksumA h).toNat
    | _ => "bad-op"
  | ["lhv", base, h] =>
    match base.toNat?, parseHex h with
    | some base, some h => if h.length ≠ 30 then "bad-op" else toString (Model.HashGuards.lhdrValidate base h)
    | _, _ => "bad-op"
  | ["hg", e] =>
    match parseHex e with
    | some e => if e.length ≠ 24 then "bad-op" else hexFixed 8 (Model.HashGuards.hashGuard e).toNat
    | _ => "bad-op"
  | ["upv", e] =>
    match parseHex e with
    | some e => if e.length ≠ 24 then "bad-op" else toString (Model.HashGuards.updValidate e)
    | _ => "bad-op"
  | ["hl", seed, m] =>
    match w32? seed, parseHex m with
    | some s, some m => hexFixed 8 (Model.Jenkins.hashlittle m s).toNat
    | _, _ => "bad-op"
  | ["hl2", pc, pb, m] =>
    match w32? pc, w32? pb, parseHex m with
    | some pc, some pb, some m =>
      let (c, b) := Model.Jenkins.hashlittle2 m pc pb
      hexFixed 8 c.toNat ++ " " ++ hexFixed 8 b.toNat
    | _, _, _ => "bad-op"
  | ["j96", m] =>
    match parseHex m with
    | some m =>
      let (h64, h32) := Model.Jenkins.jenkins96 m
      hexFixed 16 h64.toNat ++ " " ++ hexFixed 8 h32.toNat
    | _ => "bad-op"
  | ["md5", m] =>
    -- ContentKey::from_data / EncodingKey::from_data: the model IS RFC 1321 (Spec/Md5)
    match parseHex m with
    | some m => hexOf (Spec.Md5.md5 m)
    | _ => "bad-op"
  | ["memcmp", mask, a, b] =>
    match mask.toNat?, parseHexNat a, parseHexNat b with
    | some m, some a, some b =>
      match Model.Simd.vectorizedMemcmp ⟨m % 2 = 1, m / 4 % 2 = 1⟩ a b with
      | .lt => "lt" | .eq => "eq" | .gt => "gt"
    | _, _, _ => "bad-op"
  | ["memeq", mask, a, b] =>
    match mask.toNat?, parseHexNat a, parseHexNat b with
    | some m, some a, some b => toString (Model.Simd.memEqual ⟨m % 2 = 1, m / 4 % 2 = 1⟩ a b)
    | _, _, _ => "bad-op"
  | ["memmem", mask, h, n] =>
    match mask.toNat?, parseHexNat h, parseHexNat n with
    | some m, some h, some n =>
      match Model.Simd.vectorizedMemmem ⟨m % 2 = 1, m / 4 % 2 = 1⟩ h n with
      | some p => toString p
      | none => "none"
    | _, _, _ => "bad-op"
  | ["memset", mask, d, v] =>
    match mask.toNat?, parseHexNat d, v.toNat? with
    | some m, some d, some v => hexOfNats (Model.Simd.memset ⟨m % 2 = 1, m / 4 % 2 = 1⟩ d v)
    | _, _, _ => "bad-op"
  | ["memcpy", mask, d, src] =>
    match mask.toNat?, parseHexNat d, parseHexNat src with
    | some m, some d, some src => hexOfNats (Model.Simd.memcpy ⟨m % 2 = 1, m / 4 % 2 = 1⟩ d src)
    | _, _, _ => "bad-op"
  | _ => "bad-op"

def main : IO Unit := do
  loopPure (← IO.getStdin) (← IO.getStdout) handle
