/-
Search/C09 — model-level search run by ./check when a C09 proof obligation no longer checks:
evaluates the definitions GENERATED from the current Rust source against the published
specification on boundary and pseudo-random inputs and prints each difference as
`FAIL <fragment> <input> generated=<…> spec=<…>`.  Run with `lake env lean --run Search/C09.lean`.
(Not part of any theorem; it only turns a broken tie into a concrete failing state.)
-/
import Cascette.Generated.CryptoSrc
import Cascette.Spec.Rc4
open Cascette

def lcg (s : Nat) : Nat := (s * 6364136223846793005 + 1442695040888963407) % 2 ^ 64

def words (seed n : Nat) : List W32 :=
  (List.range n).foldl (fun (acc : List W32 × Nat) _ =>
    let s := lcg acc.2; (BitVec.ofNat 32 (s / 2 ^ 20) :: acc.1, s)) ([], seed) |>.1

def mkS : List W32 → Spec.Salsa20.S
  | [a,b,c,d,e,f,g,h,i,j,k,l,m,n,o,p] => ⟨a,b,c,d,e,f,g,h,i,j,k,l,m,n,o,p⟩
  | _ => ⟨0,0,0,0,0,0,0,0,0,0,0,0,0,0,0,0⟩

def showS (s : Spec.Salsa20.S) : String :=
  toString [s.x0.toNat, s.x1.toNat, s.x2.toNat, s.x3.toNat, s.x4.toNat, s.x5.toNat, s.x6.toNat,
    s.x7.toNat, s.x8.toNat, s.x9.toNat, s.x10.toNat, s.x11.toNat, s.x12.toNat, s.x13.toNat,
    s.x14.toNat, s.x15.toNat]

/-- the values of `S` on 0..255 as a table. -/
def table (S : Spec.Rc4.Perm) : Array Nat := Array.ofFn (n := 256) fun x => S x.val

def main : IO Unit := do
  -- counter: generated update vs 64-bit little-endian increment, at and around the carry
  for (lo, hi) in [(0, 0), (1, 7), (0xFFFFFFFE, 0), (0xFFFFFFFF, 0), (0xFFFFFFFF, 5),
                   (0xFFFFFFFF, 0xFFFFFFFF), (0x7FFFFFFF, 1)] do
    let st : Spec.Salsa20.S := ⟨1,2,3,4,5,6,7,8, BitVec.ofNat 32 lo, BitVec.ofNat 32 hi, 11,12,13,14,15,16⟩
    let g := Generated.counter_update st
    let c : BitVec 64 := BitVec.ofNat 64 (lo + 2 ^ 32 * hi) + 1
    let want := { st with x8 := c.setWidth 32, x9 := (c >>> 32).setWidth 32 }
    if g ≠ want then
      IO.println s!"FAIL counter_update state-after-{lo + 2 ^ 32 * hi}-blocks x8={lo} x9={hi} generated=({g.x8.toNat},{g.x9.toNat}) spec-64-bit-counter=({want.x8.toNat},{want.x9.toNat}) [reached after {(lo + 2 ^ 32 * hi + 1) * 64} keystream bytes]"
  -- round function and block function on pseudo-random matrices
  for seed in List.range 20 do
    let s := mkS (words (seed + 1) 16)
    let g := Generated.round_body s
    let w := Spec.Salsa20.doubleround s
    if g ≠ w then
      IO.println s!"FAIL round_body state={showS s} generated={showS g} spec-doubleround={showS w}"
  if Generated.round_count ≠ 10 then
    IO.println s!"FAIL round_count generated={Generated.round_count} spec=10 (Salsa20/20 has 10 double rounds)"
  if Generated.refill_threshold ≠ 64 then
    IO.println s!"FAIL refill_threshold generated={Generated.refill_threshold} spec=64"
  -- lookup3
  for seed in List.range 20 do
    match words (seed + 100) 3 with
    | [a, b, c] =>
      if Generated.mix a b c ≠ Spec.Lookup3.mix a b c then
        IO.println s!"FAIL mix a={a.toNat} b={b.toNat} c={c.toNat} generated={repr (Generated.mix a b c)} spec={repr (Spec.Lookup3.mix a b c)}"
      if Generated.final_mix a b c ≠ Spec.Lookup3.final a b c then
        IO.println s!"FAIL final_mix a={a.toNat} b={b.toNat} c={c.toNat} generated={repr (Generated.final_mix a b c)} spec={repr (Spec.Lookup3.final a b c)}"
      for n in List.range 13 do
        let k : Bytes := (words (seed * 13 + n) n).map (·.setWidth 8)
        let (w0, w1, w2) := Spec.Lookup3.words3 k
        let want := if n = 0 then none else some (a + w0, b + w1, c + w2)
        if Generated.hashlittle_tail a b c k ≠ want then
          IO.println s!"FAIL hashlittle_tail len={n} k={k.map (·.toNat)} a={a.toNat} b={b.toNat} c={c.toNat}"
        if Generated.hashlittle2_tail a b c k ≠ want then
          IO.println s!"FAIL hashlittle2_tail len={n} k={k.map (·.toNat)} a={a.toNat} b={b.toNat} c={c.toNat}"
    | _ => pure ()
  -- ARC4: translated guard / KSA / PRGA / apply body against textbook RC4 (Spec/Rc4)
  for len in [0, 1, 2, 255, 256, 257, 300] do
    let g : Bool := decide (Generated.arc4_key_rejected len)
    let want : Bool := !(decide (1 ≤ len ∧ len ≤ 256))
    if g ≠ want then
      IO.println s!"FAIL arc4_key_rejected key.len()={len} generated-rejects={g} rc4-key-lengths-1..256-rejects={want}"
  let forRange {σ : Type} (body : σ → Nat → σ) (lo hi : Nat) (x : σ) : σ :=
    (List.range (hi - lo)).foldl (fun x k => body x (lo + k)) x
  let s0 := forRange Generated.arc4_init_body Generated.arc4_init_lo Generated.arc4_init_hi
    (Array.replicate Generated.arc4_s_len Generated.arc4_s_fill)
  for x in List.range 256 do
    if (s0.getD x 0xEE) ≠ BitVec.ofNat 8 x ∨ s0.size ≠ 256 then
      IO.println s!"FAIL arc4_init S[{x}]={(s0.getD x 0xEE).toNat} size={s0.size} rc4-identity-permutation S[{x}]={x} size=256"
  for seed in List.range 6 do
    let klen := [1, 3, 5, 16, 255, 256].getD seed 1
    let key : Bytes := (words (seed + 500) klen).map (·.setWidth 8)
    if hk : 0 < key.length then
      let (sK, _) := forRange (fun (x : Array Byte × Byte) i => Generated.arc4_ksa_body key.toArray x.1 i x.2)
        Generated.arc4_ksa_lo Generated.arc4_ksa_hi (s0, Generated.arc4_ksa_j0)
      let st0 := Spec.Rc4.init key hk
      let t0 := table st0.S
      let st0 : Spec.Rc4.State := { st0 with S := fun x => t0.getD x 0 }
      let mut bad := false
      for x in List.range 256 do
        if (sK.getD x 0).toNat ≠ st0.S x ∧ !bad then
          bad := true
          IO.println s!"FAIL arc4_ksa key={key.map (·.toNat)} after-KSA S[{x}] generated={(sK.getD x 0).toNat} rc4={st0.S x}"
      -- PRGA from the specification's post-KSA state, 300 steps (i wraps past 255)
      let mut s : Array Byte := Array.ofFn (n := 256) fun x => BitVec.ofNat 8 (st0.S x.val)
      let mut i := Generated.arc4_i0
      let mut j := Generated.arc4_j0
      let mut st := st0
      let mut stop := false
      for n in List.range 300 do
        if !stop then
          let ((s', i', j'), o) := Generated.arc4_apply_body s i j 0
          let (st', k) := Spec.Rc4.next st
          let t' := table st'.S
          if o.toNat ≠ k ∨ i'.toNat ≠ st'.i ∨ j'.toNat ≠ st'.j then
            stop := true
            IO.println s!"FAIL arc4_next key={key.map (·.toNat)} keystream-byte#{n} generated=(out {o.toNat}, i {i'.toNat}, j {j'.toNat}) rc4=(out {k}, i {st'.i}, j {st'.j})"
          s := s'; i := i'; j := j'; st := { st' with S := fun x => t'.getD x 0 }
  if !Generated.arc4_encrypt_is_xor_map then
    IO.println "FAIL arc4_encrypt: body is no longer `data.iter().map(|&byte| byte ^ self.next_keystream_byte()).collect()` (no model-level input)"
  if !Generated.arc4_decrypt_is_encrypt then
    IO.println "FAIL arc4_decrypt: body is no longer `self.encrypt(data)` (no model-level input)"
  if !Generated.arc4_new_flow_ok then
    IO.println "FAIL arc4_new: statement order changed (no model-level input)"
  -- Salsa20 apply_keystream loop body: with a labelled generator (block n = 64 bytes of value n),
  -- 150 zero bytes from a fresh cipher (pos = 64) must come out as 64×0, 64×1, 22×2
  let gen : Spec.Salsa20.S → Bytes → Nat → Spec.Salsa20.S × Bytes × Nat := fun st _ _ =>
    ({ st with x8 := st.x8 + 1 }, List.replicate 64 (st.x8.setWidth 8), 0)
  let st0 : Spec.Salsa20.S := ⟨0,0,0,0,0,0,0,0,0,0,0,0,0,0,0,0⟩
  let (_, outb) := (List.range 150).foldl (fun (acc : (Spec.Salsa20.S × Bytes × Nat) × List Nat) _ =>
    let ((a, b, c), o) := Generated.salsa_apply_body gen acc.1.1 acc.1.2.1 acc.1.2.2 0
    ((a, b, c), acc.2 ++ [o.toNat])) ((st0, List.replicate 64 0xEE, 64), [])
  let wantb := (List.range 150).map (· / 64)
  if outb ≠ wantb then
    let k := ((List.range 150).find? fun n => outb.getD n 999 ≠ wantb.getD n 999).getD 0
    IO.println s!"FAIL salsa_apply_body stream-byte#{k} generated-uses-keystream-byte-of-block={outb.getD k 999} salsa20-stream-uses-block={k / 64} (labelled generator; first refill expected at byte 0, next at 64, 128)"
  -- hashlittle: length word, empty-input return
  for n in [0, 1, 12, 13, 0xFFFFFFFF] do
    if Generated.hashlittle_len n ≠ BitVec.ofNat 32 n then
      IO.println s!"FAIL hashlittle_len len={n} generated={(Generated.hashlittle_len n).toNat} lookup3-(uint32_t)length={n}"
    if Generated.hashlittle2_len n ≠ BitVec.ofNat 32 n then
      IO.println s!"FAIL hashlittle2_len len={n} generated={(Generated.hashlittle2_len n).toNat} lookup3-(uint32_t)length={n}"
  for seed in List.range 6 do
    match words (seed + 900) 2 with
    | [pc, pb] =>
      let (a, b, c) := Generated.hashlittle_init (Generated.hashlittle_len 0) pc
      let g := Generated.hashlittle_empty_return a b c
      if g ≠ Spec.Lookup3.hashlittle [] pc then
        IO.println s!"FAIL hashlittle_empty_return input=empty initval={pc.toNat} generated={g.toNat} lookup3={(Spec.Lookup3.hashlittle [] pc).toNat}"
      let (a, b, c) := Generated.hashlittle2_init (Generated.hashlittle2_len 0) pc pb
      let g := Generated.hashlittle2_empty_return a b c pc pb
      if g ≠ Spec.Lookup3.hashlittle2 [] pc pb then
        IO.println s!"FAIL hashlittle2_empty_return input=empty pc={pc.toNat} pb={pb.toNat} generated=({g.1.toNat},{g.2.toNat}) lookup3=({(Spec.Lookup3.hashlittle2 [] pc pb).1.toNat},{(Spec.Lookup3.hashlittle2 [] pc pb).2.toNat})"
    | _ => pure ()
  if !Generated.hashlittle_flow_ok then
    IO.println "FAIL hashlittle: statement order changed (no model-level input)"
  if !Generated.hashlittle2_flow_ok then
    IO.println "FAIL hashlittle2_impl: statement order changed (no model-level input)"
  IO.println "search-done"
