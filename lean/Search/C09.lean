/-
Search/C09 — model-level search run by ./check when a C09 proof obligation no longer checks:
evaluates the definitions GENERATED from the current Rust source against the published
specification on boundary and pseudo-random inputs and prints each difference as
`FAIL <fragment> <input> generated=<…> spec=<…>`.  Run with `lake env lean --run Search/C09.lean`.
(Not part of any theorem; it only turns a broken tie into a concrete failing state.)
-/
import Cascette.Generated.CryptoSrc
open Cascette

def lcg (s : Nat) : Nat := (s * 6364136223846793005 + 1442695040888963407) % 2 ^ 64

def words (seed n : Nat) : List W32 :=
  (List.range n).foldl (fun (acc : List W32 × Nat) _ =>
    let s := lcg acc.2; (BitVec.ofNat 32 (s / 2 ^ 20) :: acc.1, s)) ([], seed) |>.1

def mkS : List W32 → Spec.Salsa20.S
  | [a,b,c,d,e,f,g,h,i,j,k,l,m,n,o,p] => ⟨a,b,c,d,e,f,g,h,i,j,k,l,m,n,o,p⟩
  | _ => ⟨0,0,0,0,0,0,0,0,0,0,0,0,0,0,0,0⟩

def showS (s : Spec.Salsa20.S) : String :=
  toString [s.x0.toNat, s.x1.toNat, s.x2.toNat, s.x3.toNat, s.x4.toNat, s.x5.toNat, s.x6.toNat,
    s.x7.toNat, s.x8.toNat, s.x9.toNat, s.x10.toNat, s.x11.toNat, s.x12.toNat, s.x13.toNat,
    s.x14.toNat, s.x15.toNat]

def main : IO Unit := do
  -- counter: generated update vs 64-bit little-endian increment, at and around the carry
  for (lo, hi) in [(0, 0), (1, 7), (0xFFFFFFFE, 0), (0xFFFFFFFF, 0), (0xFFFFFFFF, 5),
                   (0xFFFFFFFF, 0xFFFFFFFF), (0x7FFFFFFF, 1)] do
    let st : Spec.Salsa20.S := ⟨1,2,3,4,5,6,7,8, BitVec.ofNat 32 lo, BitVec.ofNat 32 hi, 11,12,13,14,15,16⟩
    let g := Generated.counter_update st
    let c : BitVec 64 := BitVec.ofNat 64 (lo + 2 ^ 32 * hi) + 1
    let want := { st with x8 := c.setWidth 32, x9 := (c >>> 32).setWidth 32 }
    if g ≠ want then
      IO.println s!"FAIL counter_update state-after-{lo + 2 ^ 32 * hi}-blocks x8={lo} x9={hi} generated=({g.x8.toNat},{g.x9.toNat}) spec-64-bit-counter=({want.x8.toNat},{want.x9.toNat}) [reached after {(lo + 2 ^ 32 * hi + 1) * 64} keystream bytes]"
  -- round function and block function on pseudo-random matrices
  for seed in List.range 20 do
    let s := mkS (words (seed + 1) 16)
    let g := Generated.round_body s
    let w := Spec.Salsa20.doubleround s
    if g ≠ w then
      IO.println s!"FAIL round_body state={showS s} generated={showS g} spec-doubleround={showS w}"
  if Generated.round_count ≠ 10 then
    IO.println s!"FAIL round_count generated={Generated.round_count} spec=10 (Salsa20/20 has 10 double rounds)"
  if Generated.refill_threshold ≠ 64 then
    IO.println s!"FAIL refill_threshold generated={Generated.refill_threshold} spec=64"
  -- lookup3
  for seed in List.range 20 do
    match words (seed + 100) 3 with
    | [a, b, c] =>
      if Generated.mix a b c ≠ Spec.Lookup3.mix a b c then
        IO.println s!"FAIL mix a={a.toNat} b={b.toNat} c={c.toNat} generated={repr (Generated.mix a b c)} spec={repr (Spec.Lookup3.mix a b c)}"
      if Generated.final_mix a b c ≠ Spec.Lookup3.final a b c then
        IO.println s!"FAIL final_mix a={a.toNat} b={b.toNat} c={c.toNat} generated={repr (Generated.final_mix a b c)} spec={repr (Spec.Lookup3.final a b c)}"
      for n in List.range 13 do
        let k : Bytes := (words (seed * 13 + n) n).map (·.setWidth 8)
        let (w0, w1, w2) := Spec.Lookup3.words3 k
        let want := if n = 0 then none else some (a + w0, b + w1, c + w2)
        if Generated.hashlittle_tail a b c k ≠ want then
          IO.println s!"FAIL hashlittle_tail len={n} k={k.map (·.toNat)} a={a.toNat} b={b.toNat} c={c.toNat}"
        if Generated.hashlittle2_tail a b c k ≠ want then
          IO.println s!"FAIL hashlittle2_tail len={n} k={k.map (·.toNat)} a={a.toNat} b={b.toNat} c={c.toNat}"
    | _ => pure ()
  IO.println "search-done"
