//! Shared plumbing for the per-property correspondence/oracle binaries.
//!
//! Every binary `cXX` is run as `cXX --tier quick|thorough --seed N --out DIR [--replay FILE]`
//! and writes into DIR:
//!   req.txt     request lines (fed verbatim to the Lean driver `drv_cXX`)
//!   impl.txt    canonical response of the REAL code, one line per request line
//!   oracle.txt  one line per oracle failure: `<sig>\t<message>\t<replay lines joined by " ;; ">`
//!   stats.json  evaluations, distinct_nontrivial, rule, samples, distribution
//! All random choices derive from one `Rng` seeded with `--seed`.

use std::collections::{BTreeMap, HashSet};
use std::fs::File;
use std::io::{BufWriter, Write};
use std::path::{Path, PathBuf};

pub mod gens;

/// xorshift64* — deterministic, seedable, no external crate.
#[derive(Clone)]
pub struct Rng(pub u64);

impl Rng {
    pub fn new(seed: u64) -> Self {
        let mut z = seed.wrapping_add(0x9E37_79B9_7F4A_7C15);
        z = (z ^ (z >> 30)).wrapping_mul(0xBF58_476D_1CE4_E5B9);
        z = (z ^ (z >> 27)).wrapping_mul(0x94D0_49BB_1331_11EB);
        z ^= z >> 31;
        Rng(if z == 0 { 0x1234_5678_9ABC_DEF1 } else { z })
    }
    pub fn next(&mut self) -> u64 {
        let mut x = self.0;
        x ^= x >> 12;
        x ^= x << 25;
        x ^= x >> 27;
        self.0 = x;
        x.wrapping_mul(0x2545_F491_4F6C_DD1D)
    }
    /// uniform in 0..n (n > 0)
    pub fn below(&mut self, n: u64) -> u64 {
        self.next() % n
    }
    pub fn range(&mut self, lo: u64, hi_incl: u64) -> u64 {
        lo + self.below(hi_incl - lo + 1)
    }
    pub fn chance(&mut self, num: u64, den: u64) -> bool {
        self.below(den) < num
    }
    pub fn byte(&mut self) -> u8 {
        (self.next() >> 32) as u8
    }
    pub fn bytes(&mut self, n: usize) -> Vec<u8> {
        (0..n).map(|_| self.byte()).collect()
    }
    pub fn pick<'a, T>(&mut self, xs: &'a [T]) -> &'a T {
        &xs[self.below(xs.len() as u64) as usize]
    }
}

pub fn hex(b: &[u8]) -> String {
    if b.is_empty() {
        "-".to_string()
    } else {
        hex::encode(b)
    }
}

pub fn unhex(s: &str) -> Option<Vec<u8>> {
    if s == "-" { Some(vec![]) } else { hex::decode(s).ok() }
}

pub struct Args {
    pub tier: String,
    pub seed: u64,
    pub out: PathBuf,
    pub replay: Option<PathBuf>,
    pub search: bool,
    pub extra: Vec<String>,
}

impl Args {
    pub fn parse() -> Args {
        let mut tier = "quick".to_string();
        let mut seed = 1u64;
        let mut out = PathBuf::from(".");
        let mut replay = None;
        let mut search = false;
        let mut extra = vec![];
        let mut it = std::env::args().skip(1);
        while let Some(a) = it.next() {
            match a.as_str() {
                "--tier" => tier = it.next().expect("--tier value"),
                "--seed" => seed = it.next().expect("--seed value").parse().expect("seed int"),
                "--out" => out = PathBuf::from(it.next().expect("--out value")),
                "--replay" => replay = Some(PathBuf::from(it.next().expect("--replay value"))),
                "--search" => search = true,
                other => extra.push(other.to_string()),
            }
        }
        Args { tier, seed, out, replay, search, extra }
    }
    pub fn thorough(&self) -> bool {
        self.tier == "thorough"
    }
}

/// Read the `req ` lines of a case/replay file (Appendix C of DESIGN.md). Lines without the
/// `req ` prefix that look like raw requests are accepted too, so a `req.txt` can be replayed.
pub fn read_case(path: &Path) -> Vec<String> {
    let text = std::fs::read_to_string(path).unwrap_or_default();
    let mut v = vec![];
    for l in text.lines() {
        if let Some(r) = l.strip_prefix("req ") {
            v.push(r.to_string());
        }
    }
    if v.is_empty() {
        for l in text.lines() {
            let l = l.trim();
            if l.is_empty() || l.starts_with('#') || l.contains(": ") {
                continue;
            }
            v.push(l.to_string());
        }
    }
    v
}

pub struct Session {
    req: BufWriter<File>,
    imp: BufWriter<File>,
    ora: BufWriter<File>,
    out: PathBuf,
    pub evaluations: u64,
    pub lines: u64,
    distinct: HashSet<u64>,
    dist: BTreeMap<String, u64>,
    samples: Vec<String>,
    pub oracle_failures: u64,
    pub rule: String,
    pub extra: BTreeMap<String, serde_json::Value>,
}

fn fnv(s: &str) -> u64 {
    let mut h = 0xcbf2_9ce4_8422_2325u64;
    for b in s.as_bytes() {
        h ^= *b as u64;
        h = h.wrapping_mul(0x1000_0000_01b3);
    }
    h
}

impl Session {
    pub fn new(out: &Path) -> Session {
        std::fs::create_dir_all(out).expect("create out dir");
        let f = |n: &str| BufWriter::new(File::create(out.join(n)).expect("create out file"));
        Session {
            req: f("req.txt"),
            imp: f("impl.txt"),
            ora: f("oracle.txt"),
            out: out.to_path_buf(),
            evaluations: 0,
            lines: 0,
            distinct: HashSet::new(),
            dist: BTreeMap::new(),
            samples: vec![],
            oracle_failures: 0,
            rule: String::new(),
            extra: BTreeMap::new(),
        }
    }
    /// one request line and the implementation's canonical response to it
    pub fn line(&mut self, req: &str, resp: &str) {
        debug_assert!(!req.contains('\n') && !resp.contains('\n'));
        writeln!(self.req, "{req}").unwrap();
        writeln!(self.imp, "{resp}").unwrap();
        self.lines += 1;
        if self.samples.len() < 12 && (self.lines < 4 || self.lines % 97 == 0) {
            let mut s = format!("{req} -> {resp}");
            if s.len() > 300 {
                s.truncate(300);
                s.push('…');
            }
            self.samples.push(s);
        }
    }
    /// count one evaluated case; `nontrivial_key` is Some(canonical text) when the case reached
    /// a non-trivial branch by the binary's stated rule.
    pub fn case(&mut self, nontrivial_key: Option<&str>) {
        self.evaluations += 1;
        if let Some(k) = nontrivial_key {
            self.distinct.insert(fnv(k));
        }
    }
    pub fn tally(&mut self, key: &str) {
        *self.dist.entry(key.to_string()).or_insert(0) += 1;
    }
    pub fn tally_n(&mut self, key: &str, n: u64) {
        *self.dist.entry(key.to_string()).or_insert(0) += n;
    }
    /// an oracle failure on the implementation: `sig` classifies the sub-claim and the shape of
    /// the failing case (matched against KNOWN_FINDINGS.txt by the orchestrator).
    pub fn oracle_fail(&mut self, sig: &str, msg: &str, replay: &[String]) {
        self.oracle_failures += 1;
        let msg = msg.replace(['\t', '\n'], " ");
        writeln!(self.ora, "{sig}\t{msg}\t{}", replay.join(" ;; ")).unwrap();
    }
    pub fn finish(mut self) {
        self.req.flush().unwrap();
        self.imp.flush().unwrap();
        self.ora.flush().unwrap();
        let stats = serde_json::json!({
            "evaluations": self.evaluations,
            "lines": self.lines,
            "distinct_nontrivial": self.distinct.len(),
            "rule": self.rule,
            "samples": self.samples,
            "distribution": self.dist,
            "oracle_failures": self.oracle_failures,
            "extra": self.extra,
        });
        std::fs::write(self.out.join("stats.json"), serde_json::to_string_pretty(&stats).unwrap())
            .expect("write stats");
    }
}

/// Run `f`, mapping a panic to `Err(message)`.
pub fn catch<T>(f: impl FnOnce() -> T + std::panic::UnwindSafe) -> Result<T, String> {
    std::panic::catch_unwind(f).map_err(|e| {
        if let Some(s) = e.downcast_ref::<&str>() {
            (*s).to_string()
        } else if let Some(s) = e.downcast_ref::<String>() {
            s.clone()
        } else {
            "panic".to_string()
        }
    })
}

pub fn quiet_panics() {
    std::panic::set_hook(Box::new(|_| {}));
}
