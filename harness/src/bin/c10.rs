//! C10 — MemoryCache / DiskCache as bounded maps: real code vs Lean model (K) and the property's
//! own oracle (O): reference map (latest value or nothing), count / byte bounds, size()/stats()
//! equal to what is retrievable, survival and expiry across drop-and-recreate (disk).
//!
//! Protocol (one case = one `begin` line followed by operations), see lean/Driver/C10.lean:
//!   begin mem max=<n> bytes=<n>|none policy=lru|lfu|fifo|random|ttl dttl=long|short
//!   begin disk dttl=long|short [sub=<levels 1..7>]   (sub= : hashed sub-directory layout; absent = flat)
//!   put <key> <hex> ev=…   putttl <key> <hex> long|short ev=…   get|contains|remove <key>
//!   clear   size   stats   reopen   cleanup (memc / diskc only)
//!   begin diskc … = DiskCache::new_with_background_tasks (cleanup_interval 2 ms, sync_interval 1 h).
//!   begin memc …  = MemoryCache::new_with_cleanup (cleanup_interval 2 ms). The cache futures never
//!   yield, so on the current-thread runtime the background task runs only while the harness
//!   awaits: `cleanup` = await a real 12 ms sleep (>= 1 tick of the task), nothing else.
//!   stats answers `<entries> <bytes> <get_count> <hit_count> <miss_count>`.
//! Clocks: both caches read `std::time::{Instant, SystemTime}` (not tokio time), so TTL classes
//! are produced with real time: `long` = 1 h, `short` = 0 ns … 1 ms followed by a real sleep of
//! more than three times that before the next operation. Between any two operations the harness
//! spins until both clocks have advanced, so LRU / FIFO time stamps are strictly increasing
//! and the model's choice of victims is determined; for LFU (ties on the access count are
//! broken by DashMap iteration order) and Random the victims actually chosen are observed with
//! side-effect-free `contains` probes and written on the request line (`ev=k1,k2`), and the
//! model checks that the choice is one the policy allows.
//!
//! Keys: a protocol key is a number; `key(n)` is one fixed global map from numbers to `RibbitKey`s
//! (so a replay needs nothing but the request lines).  Numbers below 1000 are plain keys
//! (`ribbit:us:k<n>` / `ribbit:eu:wow:e<n>`); numbers from 1000 on are members of NEAR-COLLISION
//! FAMILIES (`families()`): keys that are different keys — different fields, different
//! `as_cache_key()` text — but differ only in a separator / field boundary, punctuation, blanks,
//! letter case, a Unicode look-alike or normalisation form, a path separator, or far into a very
//! long name.  The model knows keys only as numbers (the reference map is keyed by exact key), so
//! any confusion of two such keys inside a cache shows as another key's value / a lost value / a
//! drifted counter.  Every generated history with two or more keys draws at least two keys of one
//! family; directed walks put, read, remove, re-create and clear every family as a whole on the
//! memory cache and on every disk layout.
use bytes::Bytes;
use cascette_cache::config::{DiskCacheConfig, MemoryCacheConfig};
use cascette_cache::key::RibbitKey;
use cascette_cache::traits::{AsyncCache, EvictionPolicy};
use cascette_cache::{DiskCache, MemoryCache};
use std::collections::{BTreeMap, BTreeSet};
use std::sync::OnceLock;
use std::time::{Duration, Instant, SystemTime};
use verif_harness::*;

const LONG: Duration = Duration::from_secs(3600);
const CLEANUP_INTERVAL: Duration = Duration::from_millis(2);
const SHORTS: [Duration; 4] = [Duration::ZERO, Duration::from_nanos(1000), Duration::from_micros(50), Duration::from_millis(1)];

#[derive(Clone, Debug, PartialEq)]
enum Op {
    Put(usize, Vec<u8>),
    PutTtl(usize, Vec<u8>, bool),
    Get(usize),
    Contains(usize),
    Remove(usize),
    Clear,
    Size,
    Stats,
    Reopen,
    Cleanup,
    Raw(String),
}

#[derive(Clone, Debug)]
struct Cfg {
    disk: bool,
    max: usize,
    bytes: Option<usize>,
    policy: EvictionPolicy,
    dshort: bool,
    /// `new_with_cleanup` instead of `new` (memory cache only)
    cleanup: bool,
    /// disk cache: `Some(levels)` = hashed sub-directories, `None` = flat directory
    sub: Option<usize>,
    /// disk cache: the keys of this history whose file the file system refuses to create
    /// (`!disk_ok`); information for the model, the real put is issued like any other
    refuse: Vec<usize>,
}

fn pol_name(p: &EvictionPolicy) -> &'static str {
    match p {
        EvictionPolicy::Lru => "lru",
        EvictionPolicy::Lfu => "lfu",
        EvictionPolicy::Fifo => "fifo",
        EvictionPolicy::Random => "random",
        EvictionPolicy::Ttl => "ttl",
    }
}

impl Cfg {
    fn line(&self) -> String {
        let d = if self.dshort { "short" } else { "long" };
        if self.disk {
            let sub = self.sub.map_or(String::new(), |l| format!(" sub={l}"));
            let rf = if self.refuse.is_empty() { String::new() } else { format!(" refuse={}", self.refuse.iter().map(|k| k.to_string()).collect::<Vec<_>>().join(",")) };
            format!("begin {} dttl={d}{sub}{rf}", if self.cleanup { "diskc" } else { "disk" })
        } else {
            let b = self.bytes.map_or("none".to_string(), |b| b.to_string());
            format!("begin {} max={} bytes={} policy={} dttl={}", if self.cleanup { "memc" } else { "mem" }, self.max, b, pol_name(&self.policy), d)
        }
    }
    fn parse(toks: &[&str]) -> Option<Cfg> {
        let kv = |t: &str, p: &str| t.strip_prefix(p).map(|s| s.to_string());
        match toks {
            ["begin", m @ ("mem" | "memc"), mx, by, pol, dt] => {
                let max = kv(mx, "max=")?.parse().ok()?;
                let b = kv(by, "bytes=")?;
                let bytes = if b == "none" { None } else { Some(b.parse().ok()?) };
                let policy = match kv(pol, "policy=")?.as_str() {
                    "lru" => EvictionPolicy::Lru,
                    "lfu" => EvictionPolicy::Lfu,
                    "fifo" => EvictionPolicy::Fifo,
                    "random" => EvictionPolicy::Random,
                    "ttl" => EvictionPolicy::Ttl,
                    _ => return None,
                };
                let dshort = match kv(dt, "dttl=")?.as_str() { "short" => true, "long" => false, _ => return None };
                Some(Cfg { disk: false, max, bytes, policy, dshort, cleanup: *m == "memc", sub: None, refuse: vec![] })
            }
            ["begin", m @ ("disk" | "diskc"), dt, rest @ ..] if rest.len() <= 2 => {
                // canonical decimals only; levels 1..=7 (a level >= 8 would shift the 64-bit hash out)
                let num = |v: &str| -> Option<usize> { v.parse::<usize>().ok().filter(|l| l.to_string() == v) };
                let p_sub = |t: &str| -> Option<usize> { num(&kv(t, "sub=")?).filter(|l| (1..=7).contains(l)) };
                let p_ref = |t: &str| -> Option<Vec<usize>> { kv(t, "refuse=")?.split(',').map(num).collect() };
                let (sub, refuse) = match rest {
                    [] => (None, vec![]),
                    [t] if t.starts_with("sub=") => (Some(p_sub(t)?), vec![]),
                    [t] => (None, p_ref(t)?),
                    [t, u] => (Some(p_sub(t)?), p_ref(u)?),
                    _ => return None,
                };
                let dshort = match kv(dt, "dttl=")?.as_str() { "short" => true, "long" => false, _ => return None };
                Some(Cfg { disk: true, max: 0, bytes: None, policy: EvictionPolicy::Lru, dshort, cleanup: *m == "diskc", sub, refuse })
            }
            _ => None,
        }
    }
}

fn parse_op(line: &str) -> Op {
    let toks: Vec<&str> = line.split(' ').filter(|t| !t.is_empty()).collect();
    let k = |s: &str| s.parse::<usize>().ok();
    let r = match toks.as_slice() {
        ["put", a, v, _ev] => k(a).zip(unhex(v)).map(|(a, v)| Op::Put(a, v)),
        ["putttl", a, v, c, _ev] if *c == "short" || *c == "long" => k(a).zip(unhex(v)).map(|(a, v)| Op::PutTtl(a, v, *c == "short")),
        ["get", a] => k(a).map(Op::Get),
        ["contains", a] => k(a).map(Op::Contains),
        ["remove", a] => k(a).map(Op::Remove),
        ["clear"] => Some(Op::Clear),
        ["size"] => Some(Op::Size),
        ["stats"] => Some(Op::Stats),
        ["reopen"] => Some(Op::Reopen),
        ["cleanup"] => Some(Op::Cleanup),
        _ => None,
    };
    r.unwrap_or_else(|| Op::Raw(line.to_string()))
}

// ---- the key universe ------------------------------------------------------------------------

/// (endpoint, region, product)
type KeySpec = (String, String, Option<String>);

struct Family {
    name: &'static str,
    members: Vec<KeySpec>,
}

/// key numbers `FAM_BASE + FAM_STRIDE * family + member`
const FAM_BASE: usize = 1000;
const FAM_STRIDE: usize = 100;
/// NAME_MAX of the file systems the scratch directory can be on (tmpfs, ext4, xfs, btrfs, overlayfs)
const NAME_MAX: usize = 255;

/// a long endpoint with no period in it (every position is told apart from its neighbours)
fn long_name(n: usize) -> String {
    (0..n).map(|i| (b'a' + ((i * 7 + i / 26) % 26) as u8) as char).collect()
}

fn replace_at(s: &str, pos: usize, c: char) -> String {
    s.chars().enumerate().map(|(i, x)| if i == pos { c } else { x }).collect()
}

/// Near-collision families: within one family the keys differ only in the way the family's name
/// says.  All of them are different keys with different `as_cache_key()` texts and, on the pinned
/// tree, different files; none contains ':' inside a field (that ambiguity of the key text itself
/// is C20's finding), none ends in ".tmp", none has an empty / "." / ".." path segment, and no
/// key text is a directory prefix of another one (checked by `check_universe`).
fn families() -> &'static Vec<Family> {
    static F: OnceLock<Vec<Family>> = OnceLock::new();
    F.get_or_init(|| {
        let n = |e: &str, r: &str| -> KeySpec { (e.to_string(), r.to_string(), None) };
        let p = |e: &str, r: &str, p: &str| -> KeySpec { (e.to_string(), r.to_string(), Some(p.to_string())) };
        let mut fams = vec![];
        // 0: where one field ends and the next begins / which separator stands between them
        fams.push(Family { name: "separator", members: vec![
            n("versions", "us_wow"), p("versions", "us", "wow"), n("versions", "us-wow"), n("versions", "us.wow"),
            n("versions", "us wow"), n("versions", "us+wow"), n("versions", "uswow"), n("wow_versions", "us"),
            n("wow-versions", "us"), n("wow versions", "us"), n("wow.versions", "us"), p("versions", "us_wow", ""),
            n("versions", "us__wow"), n("versions", "us#wow"), n("versions", "us=wow"), n("versions", "us,wow"),
            n("versions", "us;wow"), n("versions", "us@wow"), n("versions", "us~wow"), n("versions", "us|wow"),
            n("versions", "us%3Awow"), n("versions", "us\\wow"), p("versions", "us", "wow_"), p("versions", "us_", "wow"),
            p("wow_versions", "us", ""), n("_wow_versions", "us"), p("", "us_wow", "versions"), n("wowversions", "us"),
        ] });
        // 1: punctuation inside one field
        let punct = ["cdns+bgdl", "cdns#bgdl", "cdns bgdl", "cdns_bgdl", "cdns-bgdl", "cdns.bgdl", "cdnsbgdl", "cdns%2Bbgdl",
            "cdns++bgdl", "cdns+bgdl+", "+cdns+bgdl", "cdns&bgdl", "cdns*bgdl", "cdns?bgdl", "cdns!bgdl", "cdns$bgdl",
            "cdns'bgdl", "cdns\"bgdl", "cdns(bgdl)", "cdns[bgdl]", "cdns{bgdl}", "cdns<bgdl>", "cdns^bgdl", "cdns`bgdl",
            "cdns%bgdl", "cdns__bgdl", "cdns_bgdl_", "_cdns_bgdl", "cdns=bgdl", "cdns,bgdl", "cdns;bgdl", "cdns@bgdl", "cdns~bgdl"];
        fams.push(Family { name: "punctuation", members: punct.iter().map(|e| p(e, "eu", "wow")).collect() });
        // 2: blanks — which, how many, leading / trailing (and the trailing period some systems drop)
        let blanks = ["summary v1", "summary_v1", "summary  v1", "summary\tv1", "summary\nv1", "summary\u{a0}v1", "summaryv1",
            " summary v1", "summary v1 ", "summary v1  ", "summary\rv1", "summary\u{2003}v1", "summary\u{200b}v1", "summary v1\n",
            "summary v1.", "summary v1\t", "\tsummary v1", "summary%20v1", "summary+v1", "summary\u{3000}v1", "summary\u{2028}v1",
            "summary-v1", "summary.v1", "  summary v1"];
        fams.push(Family { name: "blanks", members: blanks.iter().map(|e| n(e, "us")).collect() });
        // 3: letter case, in each field
        fams.push(Family { name: "case", members: vec![
            n("Summary", "us"), n("summary", "us"), n("SUMMARY", "us"), n("sUMMARY", "us"), n("summarY", "us"), n("summary", "US"),
            n("summary", "Us"), n("summary", "uS"), p("summary", "us", "WoW"), p("summary", "us", "wow"), p("summary", "us", "WOW"),
            p("Summary", "us", "wow"), p("summary", "US", "wow"), p("SUMMARY", "US", "WOW"), p("summary", "us", "Wow"),
        ] });
        // 4: Unicode look-alikes, normalisation forms, case-folding specials, and what lossy
        // conversions to ASCII turn them into
        let uni = ["versions", "v\u{435}rsions", "versi\u{43e}ns", "\u{ff56}ersions", "ver\u{17f}ions", "v\u{e9}rsions", "ve\u{301}rsions",
            "v?rsions", "v_rsions", "v__rsions", "vrsions", "vers\u{131}ons", "vers\u{130}ons", "versions\u{200d}", "versions\u{feff}",
            "_ersions", "___ersions", "?ersions", "ersions", "pro\u{fb01}le", "profile", "pro_le", "pro___le", "prole",
            "stra\u{df}e", "strasse", "STRASSE", "stra\u{1e9e}e", "VERSIONS", "\u{212a}ey", "Key", "key", "versions\u{301}", "ve_rsions", "ve__rsions",
            "v\u{fffd}rsions", "v%D0%B5rsions", "verSions"];
        fams.push(Family { name: "unicode", members: uni.iter().map(|e| n(e, "kr")).collect() });
        // 5: path separators inside the endpoint ("products/wow" is a stock endpoint shape) and
        // what replaces them
        let paths = ["products/wow", "products_wow", "products\\wow", "products wow", "products%2Fwow", "products-wow", "products.wow",
            "productswow", "products|wow", "Products/wow", "products/Wow", "products/wow_", "products/wow ", "products/wow.", "products__wow",
            "products\u{2215}wow", "products\u{2044}wow", "products\u{ff0f}wow", "products/wow_versions", "products_wow_versions", "products/wow-versions"];
        fams.push(Family { name: "path", members: paths.iter().map(|e| n(e, "tw")).collect() });
        // 6: long names that differ only far from one end, or only in length; key text =
        // "ribbit:cn:" (10 bytes) + endpoint.  Up to 251 bytes the name and its temporary name
        // (+ ".tmp") fit NAME_MAX; the longer ones are for the memory cache only (`disk_ok`).
        let mut long: Vec<KeySpec> = vec![];
        for t in [32usize, 63, 64, 65, 100, 101, 127, 128, 129, 143, 144, 199, 200, 201, 240, 250, 251] {
            long.push(n(&long_name(t - 10), "cn"));
        }
        let full = long_name(241);
        for c in ['A', 'B'] {
            long.push(n(&replace_at(&full, 240, c), "cn")); // last character
            long.push(n(&replace_at(&full, 0, c), "cn"));   // first character
            long.push(n(&replace_at(&full, 120, c), "cn")); // middle
            long.push(n(&replace_at(&full, 60, c), "cn"));
            long.push(n(&replace_at(&full, 200, c), "cn"));
        }
        for t in [252usize, 255, 256, 257, 300, 1000, 5000] {
            let l = long_name(t - 10);
            long.push(n(&l, "cn"));
            if t >= 300 {
                for c in ['A', 'B'] {
                    long.push(n(&replace_at(&l, t - 11, c), "cn"));
                }
                long.push(n(&replace_at(&l, 260, 'A'), "cn"));
            }
        }
        fams.push(Family { name: "long", members: long });
        for f in &fams {
            assert!(f.members.len() >= 2 && f.members.len() <= FAM_STRIDE, "family {} has {} members", f.name, f.members.len());
        }
        fams
    })
}

fn key_spec(n: usize) -> KeySpec {
    if n >= FAM_BASE {
        let (f, m) = ((n - FAM_BASE) / FAM_STRIDE, (n - FAM_BASE) % FAM_STRIDE);
        if let Some(spec) = families().get(f).and_then(|fam| fam.members.get(m)) {
            return spec.clone();
        }
    }
    if n % 3 == 2 { (format!("e{n}"), "eu".to_string(), Some("wow".to_string())) } else { (format!("k{n}"), "us".to_string(), None) }
}

fn key(n: usize) -> RibbitKey {
    match key_spec(n) {
        (e, r, Some(p)) => RibbitKey::with_product(e, r, p),
        (e, r, None) => RibbitKey::new(e, r),
    }
}

/// the key text as the key types document it (`ribbit:{region}[:{product}]:{endpoint}`), written
/// out by the harness itself: used for messages and for the self-check of the key universe only
fn key_text(n: usize) -> String {
    match key_spec(n) {
        (e, r, Some(p)) => format!("ribbit:{r}:{p}:{e}"),
        (e, r, None) => format!("ribbit:{r}:{e}"),
    }
}

/// printable form for messages: ASCII with escapes, long names shortened
fn key_show(n: usize) -> String {
    let t = key_text(n);
    let esc: String = t.escape_default().to_string();
    if t.len() > 90 {
        let cs: Vec<char> = t.chars().collect();
        let head: String = cs[..28].iter().collect();
        let tail: String = cs[cs.len() - 24..].iter().collect();
        format!("#{n} \"{}…{}\" ({} bytes)", head.escape_default(), tail.escape_default(), t.len())
    } else {
        format!("#{n} \"{esc}\"")
    }
}

/// can the disk cache store this key on a file system with NAME_MAX = 255?  Every path segment of
/// the key text and the temporary name `write_file` derives from the last one have to fit.
fn disk_ok(n: usize) -> bool {
    let t = key_text(n);
    let segs: Vec<&str> = t.split('/').collect();
    let last = segs[segs.len() - 1];
    let tmp = std::path::Path::new(last).with_extension("tmp");
    segs.iter().all(|s| s.len() <= NAME_MAX) && tmp.as_os_str().len() <= NAME_MAX
}

/// the `refuse=` list of a disk history over these keys
fn refused(keys: &[usize], disk: bool) -> Vec<usize> {
    let mut r: Vec<usize> = keys.iter().copied().filter(|k| disk && !disk_ok(*k)).collect();
    r.sort();
    r.dedup();
    r
}

fn begin_line(b: &str, keys: &[usize]) -> String {
    let r = refused(keys, b.starts_with("begin disk"));
    if r.is_empty() { b.to_string() } else { format!("{b} refuse={}", r.iter().map(|k| k.to_string()).collect::<Vec<_>>().join(",")) }
}

fn family_ids(f: usize) -> Vec<usize> {
    (0..families()[f].members.len()).map(|m| FAM_BASE + FAM_STRIDE * f + m).collect()
}

/// self-check of the generator (not of the code under test): the universe consists of pairwise
/// different key texts that the pinned `get_file_path` maps to pairwise different files
fn check_universe() {
    let mut ids: Vec<usize> = (0..FAM_BASE).collect();
    for f in 0..families().len() { ids.extend(family_ids(f)); }
    let mut seen: BTreeMap<String, usize> = BTreeMap::new();
    for &i in &ids {
        let t = key_text(i);
        if let Some(j) = seen.insert(t.clone(), i) {
            panic!("key universe: #{i} and #{j} have the same text {t:?}");
        }
    }
    for (t, &i) in &seen {
        assert!(!t.to_ascii_lowercase().ends_with(".tmp"), "key universe: #{i} ends in .tmp");
        assert!(!t.starts_with('/') && !t.contains('\0'), "key universe: #{i}");
        let segs: Vec<&str> = t.split('/').collect();
        for s in &segs {
            assert!(!s.is_empty() && *s != "." && *s != "..", "key universe: #{i} has a degenerate path segment");
        }
        for cut in 1..segs.len() {
            let prefix = segs[..cut].join("/");
            assert!(!seen.contains_key(&prefix), "key universe: {prefix:?} is a key and a directory of #{i}");
        }
    }
}

/// spin until both clocks the caches read have moved, so consecutive operations never share a
/// time stamp
fn advance_clocks() {
    let (i0, s0) = (Instant::now(), SystemTime::now());
    while Instant::now() <= i0 || SystemTime::now() <= s0 {
        std::hint::spin_loop();
    }
}

#[derive(Clone, Debug)]
struct RefEntry {
    val: Vec<u8>,
    short: bool,
    epoch: u32,
}

enum Cache {
    Mem(MemoryCache<RibbitKey>),
    Disk(DiskCache<RibbitKey>),
}

struct Case {
    rng_short: u64,
    cfg: Cfg,
    rt: tokio::runtime::Runtime,
    cache: Option<Cache>,
    dir: Option<tempfile::TempDir>,
    epoch: u32,
    /// the reference map: what an ideal unbounded cache holds (short entries = already expired)
    refmap: BTreeMap<usize, RefEntry>,
    last_put: BTreeMap<usize, Vec<u8>>,
    lines: Vec<String>,
    reported: BTreeSet<String>,
    nontrivial: BTreeSet<&'static str>,
    /// the oracle's own count of get calls / of get calls that returned a value since the last
    /// clear (or re-creation): what stats().get_count / hit_count must report
    o_gets: u64,
    o_hits: u64,
}

fn temp_root() -> tempfile::TempDir {
    let shm = std::path::Path::new("/dev/shm");
    if shm.is_dir() {
        if let Ok(d) = tempfile::Builder::new().prefix("verif-c10-").tempdir_in(shm) {
            return d;
        }
    }
    tempfile::Builder::new().prefix("verif-c10-").tempdir().expect("tempdir")
}

impl Case {
    fn begin(s: &mut Session, cfg: Cfg, salt: u64) -> Case {
        let rt = tokio::runtime::Builder::new_current_thread().enable_all().build().expect("rt");
        let mut c = Case {
            rng_short: salt, cfg, rt, cache: None, dir: None, epoch: 0, refmap: BTreeMap::new(),
            last_put: BTreeMap::new(), lines: vec![], reported: BTreeSet::new(), nontrivial: BTreeSet::new(),
            o_gets: 0, o_hits: 0,
        };
        let line = c.cfg.line();
        let resp = match c.open() {
            Ok(()) => "ok",
            Err(()) => "err:config",
        };
        c.emit(s, line, resp.to_string());
        c
    }

    fn open(&mut self) -> Result<(), ()> {
        if self.cfg.disk {
            if self.dir.is_none() {
                self.dir = Some(temp_root());
            }
            let mut dc = DiskCacheConfig::new(self.dir.as_ref().unwrap().path().join("cache"));
            dc = match self.cfg.sub { Some(l) => dc.with_subdirectories(true, l), None => dc.with_subdirectories(false, 0) };
            dc.default_ttl = Some(if self.cfg.dshort { SHORTS[3] } else { LONG });
            let c = if self.cfg.cleanup {
                dc.cleanup_interval = CLEANUP_INTERVAL;
                dc.sync_interval = LONG; // its first tick still runs `sync` once per instance
                let _g = self.rt.enter();
                DiskCache::new_with_background_tasks(dc)
            } else {
                DiskCache::new(dc)
            };
            self.cache = Some(Cache::Disk(c.map_err(|_| ())?));
        } else {
            let mut mc = MemoryCacheConfig::new().with_max_entries(self.cfg.max).with_eviction_policy(self.cfg.policy.clone());
            mc.max_memory_bytes = self.cfg.bytes;
            mc.default_ttl = Some(if self.cfg.dshort { SHORTS[3] } else { LONG });
            let c = if self.cfg.cleanup {
                mc.cleanup_interval = CLEANUP_INTERVAL;
                let _g = self.rt.enter(); // tokio::spawn inside new_with_cleanup needs a runtime context
                MemoryCache::new_with_cleanup(mc)
            } else {
                MemoryCache::new(mc)
            };
            self.cache = Some(Cache::Mem(c.map_err(|_| ())?));
        }
        Ok(())
    }

    fn emit(&mut self, s: &mut Session, req: String, resp: String) {
        s.line(&req, &resp);
        self.lines.push(req);
    }

    fn fail(&mut self, s: &mut Session, sig: &str, msg: String) {
        // one report per (case, sig): enough for a replay, keeps known findings from flooding
        if self.reported.insert(sig.to_string()) {
            let m = format!("{msg} [config: {}]", self.cfg.line());
            s.oracle_fail(sig, &m, &self.lines);
        }
    }

    fn c(&self) -> &dyn AsyncCache<RibbitKey> {
        match self.cache.as_ref().expect("cache open") {
            Cache::Mem(m) => m,
            Cache::Disk(d) => d,
        }
    }

    // ---- side-effect-free observations used by the oracle and for the `ev=` hint
    fn n_size(&self) -> usize {
        self.rt.block_on(self.c().size()).unwrap_or(usize::MAX)
    }
    fn n_metrics(&self) -> (u64, u64, u64) {
        self.rt.block_on(self.c().stats()).map(|st| (st.get_count, st.hit_count, st.miss_count)).unwrap_or((u64::MAX, u64::MAX, u64::MAX))
    }
    fn n_stats(&self) -> (usize, usize) {
        self.rt.block_on(self.c().stats()).map(|st| (st.entry_count, st.memory_usage_bytes)).unwrap_or((usize::MAX, usize::MAX))
    }
    /// keys the reference map holds live and the memory cache still has (`contains` neither
    /// mutates nor touches access statistics for a present, unexpired entry or an absent key)
    fn live_present(&self) -> BTreeSet<usize> {
        self.refmap.iter().filter(|(_, e)| !e.short).filter(|(k, _)| self.rt.block_on(self.c().contains(&key(**k))).unwrap_or(false)).map(|(k, _)| *k).collect()
    }

    fn ttl_for(&mut self, short: bool) -> Duration {
        if !short { return LONG; }
        self.rng_short = self.rng_short.wrapping_mul(6364136223846793005).wrapping_add(1442695040888963407);
        SHORTS[(self.rng_short >> 33) as usize % SHORTS.len()]
    }

    fn do_put(&mut self, s: &mut Session, k: usize, v: Vec<u8>, short: bool, explicit: bool) {
        let is_mem = !self.cfg.disk;
        let hinted = is_mem && matches!(self.cfg.policy, EvictionPolicy::Lfu | EvictionPolicy::Random);
        let mut ev = "auto".to_string();
        let (n0, b0) = self.n_stats();
        let target = self.cfg.max * 90 / 100;
        let needs = is_mem && (n0 >= self.cfg.max || self.cfg.bytes.is_some_and(|m| b0 >= m));
        let will_evict = needs && n0 > target;
        let mut before = BTreeSet::new();
        if hinted && will_evict {
            // make every stored entry observable without side effects: sweep expired ones first
            let exp: Vec<usize> = self.refmap.iter().filter(|(_, e)| e.short).map(|(k, _)| *k).collect();
            for e in exp {
                self.apply(s, &Op::Contains(e));
            }
            before = self.live_present();
        }
        let (n0, b0) = self.n_stats();
        let ttl = if explicit { self.ttl_for(short) } else if short { SHORTS[3] } else { LONG };
        advance_clocks();
        let kk = key(k);
        let val = Bytes::from(v.clone());
        let r = if explicit { self.rt.block_on(self.c().put_with_ttl(kk, val, ttl)) } else { self.rt.block_on(self.c().put(kk, val)) };
        if short {
            std::thread::sleep(ttl * 3 + Duration::from_micros(150));
        }
        let resp = if r.is_ok() { "ok" } else { "err" };
        if r.is_ok() {
            self.refmap.insert(k, RefEntry { val: v.clone(), short, epoch: self.epoch });
            self.last_put.insert(k, v.clone());
        }
        let (n1, b1) = self.n_stats();
        if hinted && will_evict {
            let n_ev = n0 - target;
            let mut gone: Vec<usize> = before.iter().filter(|x| **x != k && !self.rt.block_on(self.c().contains(&key(**x))).unwrap_or(false)).copied().collect();
            // the put's own key was evicted and re-inserted iff one more entry left than we can see
            if gone.len() + 1 == n_ev && before.contains(&k) && n1 == target + 1 {
                gone.push(k);
            }
            gone.sort();
            ev = if gone.is_empty() { "-".into() } else { gone.iter().map(|x| x.to_string()).collect::<Vec<_>>().join(",") };
            self.nontrivial.insert("evict-hinted");
        }
        let req = if explicit {
            format!("putttl {k} {} {} ev={ev}", hex(&v), if short { "short" } else { "long" })
        } else {
            format!("put {k} {} ev={ev}", hex(&v))
        };
        self.emit(s, req, resp.to_string());
        if short { self.nontrivial.insert("short-ttl"); }
        if is_mem {
            if n1 < n0 + 1 && n0 > 0 && needs { self.nontrivial.insert("evict"); }
            // O: bounds after a put
            if let Some(m) = self.cfg.bytes {
                if b1 > m && b1 != usize::MAX {
                    // the as-designed behaviour: eviction runs BEFORE the insert and is sized by the
                    // entry count only. Either no eviction was due (the new value itself crossed the
                    // limit) or it ran / returned early leaving at most target+1 entries.
                    let as_designed = b0 < m || n1 <= target + 1 || self.cfg.policy == EvictionPolicy::Ttl || n0 < self.cfg.max;
                    let sig = if as_designed { "mem-bytes-bound" } else { "mem-bytes-bound-eviction-skipped" };
                    self.fail(s, sig, format!("after put of {} bytes: memory_usage_bytes {b1} > max_memory_bytes {m} (entries {n1}, max_entries {}, target {target}; before: {n0} entries, {b0} bytes)", v.len(), self.cfg.max));
                }
            }
        }
    }

    /// run one operation on the real cache, write its protocol line, evaluate the oracle
    fn apply(&mut self, s: &mut Session, op: &Op) {
        s.tally(match op {
            Op::Put(..) => "op.put", Op::PutTtl(_, _, true) => "op.putttl.short", Op::PutTtl(_, _, false) => "op.putttl.long",
            Op::Get(_) => "op.get", Op::Contains(_) => "op.contains", Op::Remove(_) => "op.remove", Op::Clear => "op.clear",
            Op::Size => "op.size", Op::Stats => "op.stats", Op::Reopen => "op.reopen", Op::Cleanup => "op.cleanup", Op::Raw(_) => "op.raw",
        });
        if self.cache.is_none() {
            let l = match op { Op::Raw(l) => l.clone(), o => op_line(o) };
            self.emit(s, l, "bad-op".into());
            return;
        }
        let disk = self.cfg.disk;
        match op {
            Op::Put(k, v) => { let sh = self.cfg.dshort; self.do_put(s, *k, v.clone(), sh, false) }
            Op::PutTtl(k, v, sh) => self.do_put(s, *k, v.clone(), *sh, true),
            Op::Get(k) => {
                advance_clocks();
                let r = self.rt.block_on(self.c().get(&key(*k)));
                let resp = match &r {
                    Ok(Some(v)) => format!("val {}", hex(v)),
                    Ok(None) => "none".to_string(),
                    Err(_) => "err:io".to_string(),
                };
                self.emit(s, format!("get {k}"), resp);
                self.o_gets += 1;
                if matches!(r, Ok(Some(_))) { self.o_hits += 1; }
                let re = self.refmap.get(k).cloned();
                match (&r, &re) {
                    (Ok(Some(v)), Some(e)) if !e.short && e.val[..] == v[..] => { s.tally("get.hit"); }
                    (Ok(Some(v)), _) => {
                        let v = v.to_vec();
                        let latest = self.last_put.get(k) == Some(&v);
                        let other = self.last_put.iter().any(|(k2, v2)| k2 != k && *v2 == v) && v.len() >= 3;
                        let (sig, why) = match &re {
                            Some(e) if e.short && latest && disk && e.epoch < self.epoch =>
                                ("disk-ttl-across-instances", "an entry whose TTL ended is served by a new instance on the same directory (expiry times live in memory only)"),
                            Some(e) if e.short && latest => ("get-expired", "an expired value is served"),
                            None if latest => ("get-removed", "a removed / cleared value is served"),
                            _ if other && !latest => ("get-other-key", "another key's value is served"),
                            _ => ("get-replaced", "a value that is not the most recent put for this key is served"),
                        };
                        // name the keys involved: the key read and every other key whose latest put stored these bytes
                        let owners: Vec<String> = self.last_put.iter().filter(|(k2, v2)| *k2 != k && **v2 == v && v.len() >= 3).map(|(k2, _)| key_show(*k2)).take(4).collect();
                        let whose = if owners.is_empty() { String::new() } else { format!("; these bytes are the latest put of key {}", owners.join(", ")) };
                        let mine = match &re { Some(e) if !e.short => format!("; the reference map holds {} bytes {} for the key read", e.val.len(), hex(&e.val[..e.val.len().min(12)])), Some(_) => "; the key read holds an ended-TTL value".to_string(), None => "; the key read is not stored".to_string() };
                        self.fail(s, sig, format!("get {k} = key {} -> {} bytes {}: {why}{whose}{mine}", key_show(*k), v.len(), hex(&v[..v.len().min(12)])));
                    }
                    (Ok(None), Some(e)) if !e.short && disk => {
                        self.fail(s, "disk-lost-value", format!("get {k} = key {} -> none although the value was put with a long TTL and never removed (epoch of put {}, now {})", key_show(*k), e.epoch, self.epoch));
                    }
                    (Ok(None), Some(e)) if e.short => { self.refmap.remove(k); self.nontrivial.insert("expiry-sweep"); s.tally("get.expired"); }
                    (Ok(None), _) => { s.tally("get.miss"); }
                    (Err(_), _) => self.fail(s, "get-error", format!("get {k} = key {} -> Err", key_show(*k))),
                }
            }
            Op::Contains(k) => {
                advance_clocks();
                let r = self.rt.block_on(self.c().contains(&key(*k)));
                let resp = match r { Ok(true) => "true", Ok(false) => "false", Err(_) => "err" };
                self.emit(s, format!("contains {k}"), resp.to_string());
                let live = self.refmap.get(k).is_some_and(|e| !e.short);
                if r.as_ref().ok() == Some(&true) && !live {
                    // an ended-TTL entry written by an earlier instance and read back by this one is
                    // indexed without expiry: same root cause as the get finding, same signature
                    let revived = disk && self.refmap.get(k).is_some_and(|e| e.short && e.epoch < self.epoch);
                    if revived {
                        self.fail(s, "disk-ttl-across-instances", format!("contains {k} -> true for an entry whose TTL ended before this instance was created (expiry times live in memory only)"));
                    } else {
                        self.fail(s, "contains-phantom", format!("contains {k} = key {} -> true for a key the reference map does not hold live", key_show(*k)));
                    }
                }
                // the memory cache sweeps an expired entry on contains; the disk cache does not
                if !disk && self.refmap.get(k).is_some_and(|e| e.short) { self.refmap.remove(k); self.nontrivial.insert("expiry-sweep"); }
            }
            Op::Remove(k) => {
                advance_clocks();
                let r = self.rt.block_on(self.c().remove(&key(*k)));
                let resp = match r { Ok(true) => "true", Ok(false) => "false", Err(_) => "err" };
                self.emit(s, format!("remove {k}"), resp.to_string());
                self.refmap.remove(k);
            }
            Op::Clear => {
                advance_clocks();
                let r = self.rt.block_on(self.c().clear());
                self.emit(s, "clear".into(), if r.is_ok() { "ok" } else { "err" }.into());
                self.refmap.clear();
                self.o_gets = 0;
                self.o_hits = 0;
            }
            Op::Size => {
                let n = self.n_size();
                self.emit(s, "size".into(), n.to_string());
            }
            Op::Stats => {
                let (n, b) = self.n_stats();
                let (g, h, m) = self.n_metrics();
                self.emit(s, "stats".into(), format!("{n} {b} {g} {h} {m}"));
                // O: the hit / miss figures are what the gets of this instance actually answered
                if g != self.o_gets || h != self.o_hits || m != self.o_gets - self.o_hits {
                    let (og, oh) = (self.o_gets, self.o_hits);
                    self.fail(s, "stats-hit-miss", format!("stats() reports get_count {g}, hit_count {h}, miss_count {m} but since the last clear / re-creation {og} gets were issued and {oh} of them returned a value"));
                }
            }
            Op::Cleanup => {
                if !self.cfg.cleanup {
                    self.emit(s, "cleanup".into(), "bad-op".into());
                    return;
                }
                // let the background task run: at least one tick of its interval elapses
                self.rt.block_on(async { tokio::time::sleep(CLEANUP_INTERVAL * 6).await });
                self.emit(s, "cleanup".into(), "ok".into());
                self.nontrivial.insert("cleanup");
                // O: after a tick of the cleanup task no ended-TTL entry is left in the cache
                if disk {
                    // entries this instance indexed with an ended TTL are gone from index and directory;
                    // `figures` below then demands exact counters (a drift is a violation)
                    let ep = self.epoch;
                    let pending: Vec<usize> = self.refmap.iter().filter(|(_, e)| e.short && e.epoch == ep).map(|(k, _)| *k).collect();
                    if !pending.is_empty() { self.nontrivial.insert("cleanup-swept"); }
                    for k in pending { self.refmap.remove(&k); }
                    self.figures(s, true);
                    return;
                }
                let pending: Vec<usize> = self.refmap.iter().filter(|(_, e)| e.short).map(|(k, _)| *k).collect();
                if !pending.is_empty() {
                    let n = self.n_size();
                    let p = self.live_present();
                    if n > p.len() {
                        self.fail(s, "mem-cleanup-left-expired", format!("after a tick of the background cleanup task size() = {n} but only {} entries are retrievable ({} ended-TTL entries were waiting): the task did not remove them / did not adjust the counters", p.len(), pending.len()));
                    } else {
                        for k in pending { self.refmap.remove(&k); }
                        self.nontrivial.insert("cleanup-swept");
                    }
                }
            }
            Op::Reopen => {
                if !disk {
                    self.emit(s, "reopen".into(), "bad-op".into());
                    return;
                }
                self.cache = None;
                self.epoch += 1;
                self.o_gets = 0;
                self.o_hits = 0;
                let ok = self.open().is_ok();
                self.emit(s, "reopen".into(), if ok { "ok" } else { "err" }.into());
                self.nontrivial.insert("reopen");
            }
            Op::Raw(l) => self.emit(s, l.clone(), "bad-op".into()),
        }
        if self.cache.is_some() {
            self.figures(s, matches!(op, Op::Size | Op::Stats));
        }
    }

    /// O: size() / stats() against what is retrievable, and the count bound, after every operation
    fn figures(&mut self, s: &mut Session, explicit: bool) {
        let n = self.n_size();
        let (sn, sb) = self.n_stats();
        let disk = self.cfg.disk;
        if !disk && sn != n {
            self.fail(s, "stats-size-mismatch", format!("size() = {n} but stats().entry_count = {sn}"));
        }
        if !disk && self.cfg.policy != EvictionPolicy::Ttl && n > self.cfg.max {
            self.fail(s, "mem-count-bound", format!("{n} entries > max_entries {}", self.cfg.max));
        }
        // what is actually retrievable
        let (a_n, a_b, u_n, u_b);
        if disk {
            // the disk cache never evicts: everything live is retrievable, and so (finding
            // disk-ttl-across-instances) is every expired entry written by an earlier instance
            let a: Vec<&RefEntry> = self.refmap.values().filter(|e| !e.short || e.epoch < self.epoch).collect();
            let u: Vec<&RefEntry> = self.refmap.values().filter(|e| e.short && e.epoch == self.epoch).collect();
            a_n = a.len(); a_b = a.iter().map(|e| e.val.len()).sum::<usize>();
            u_n = u.len(); u_b = u.iter().map(|e| e.val.len()).sum::<usize>();
        } else {
            let p = self.live_present();
            a_n = p.len(); a_b = p.iter().map(|k| self.refmap[k].val.len()).sum::<usize>();
            let u: Vec<&RefEntry> = self.refmap.values().filter(|e| e.short).collect();
            u_n = u.len(); u_b = u.iter().map(|e| e.val.len()).sum::<usize>();
        }
        let pre = if disk { "disk" } else { "mem" };
        let what = format!("size() = {n}, stats = ({sn} entries, {sb} bytes); retrievable {a_n} entries / {a_b} bytes; expired-not-yet-swept at most {u_n} entries / {u_b} bytes; instance #{}", self.epoch);
        let n_ok = n == a_n;
        let b_ok = sb == a_b;
        if n_ok && b_ok { return; }
        let within_unswept = n >= a_n && n <= a_n + u_n && sb >= a_b && sb <= a_b + u_b && u_n > 0;
        let partial_index = disk && self.epoch > 0 && n <= a_n + u_n && sb <= a_b + u_b && sn <= a_n + u_n;
        if within_unswept {
            if explicit { self.fail(s, &format!("{pre}-size-unswept-expired"), format!("reported figures count entries whose TTL has ended but which no get/contains has swept yet: {what}")); }
        } else if partial_index {
            if explicit { self.fail(s, "disk-size-partial-index", format!("a re-created instance reports only what it has indexed so far (size() scans the directory only while entry_count = 0; disk usage restarts at 0): {what}")); }
        } else {
            self.fail(s, &format!("{pre}-size-drift"), format!("reported figures differ from what is retrievable: {what}"));
        }
    }

    fn finish(self, s: &mut Session) {
        let keytxt = self.lines.join("\n");
        let nt = !self.nontrivial.is_empty();
        for t in &self.nontrivial { s.tally(&format!("case.{t}")); }
        s.tally(&format!("case.{}", if self.cfg.disk { "disk".to_string() } else { format!("mem.{}", pol_name(&self.cfg.policy)) }));
        s.case(if nt { Some(&keytxt) } else { None });
    }
}

fn op_line(op: &Op) -> String {
    match op {
        Op::Put(k, v) => format!("put {k} {} ev=auto", hex(v)),
        Op::PutTtl(k, v, s) => format!("putttl {k} {} {} ev=auto", hex(v), if *s { "short" } else { "long" }),
        Op::Get(k) => format!("get {k}"),
        Op::Contains(k) => format!("contains {k}"),
        Op::Remove(k) => format!("remove {k}"),
        Op::Clear => "clear".into(),
        Op::Size => "size".into(),
        Op::Stats => "stats".into(),
        Op::Reopen => "reopen".into(),
        Op::Cleanup => "cleanup".into(),
        Op::Raw(l) => l.clone(),
    }
}

/// values are unique per put (sequence number in the first bytes) whenever they are long enough
fn value(rng: &mut Rng, seq: &mut u32, cfg: &Cfg) -> Vec<u8> {
    *seq += 1;
    let lim = cfg.bytes.unwrap_or(64);
    let n = match rng.below(12) {
        0 => 0,
        1 => 1,
        2 => lim,                                  // exactly the byte limit
        3 => lim + 1 + rng.below(8) as usize,      // above the byte limit
        4 => lim.saturating_sub(1),
        5 | 6 => rng.range(0, (lim as u64 / 4).max(3)) as usize,
        7 => rng.range(0, (lim as u64 * 2).min(1200)) as usize,
        _ => rng.range(2, 24) as usize,
    }.min(1500);
    let mut v: Vec<u8> = (0..n).map(|i| (i as u8).wrapping_mul(7).wrapping_add(*seq as u8)).collect();
    for (i, b) in seq.to_be_bytes().iter().enumerate() {
        if i < v.len() { v[i] = *b; }
    }
    v
}

fn gen_case(rng: &mut Rng, s: &mut Session, disk: bool, nops: usize) {
    let pols = [EvictionPolicy::Lru, EvictionPolicy::Lfu, EvictionPolicy::Fifo, EvictionPolicy::Random, EvictionPolicy::Ttl];
    let maxes = [1usize, 1, 2, 2, 3, 4, 5, 7, 9, 10, 11, 12, 16, 20, 30];
    let byts = [None, None, None, Some(1usize), Some(2), Some(10), Some(40), Some(100), Some(300), Some(1000)];
    let cfg = Cfg {
        disk,
        max: if disk { 0 } else { *rng.pick(&maxes) },
        bytes: if disk { None } else { *rng.pick(&byts) },
        policy: if disk { EvictionPolicy::Lru } else { rng.pick(&pols).clone() },
        dshort: rng.chance(1, 8),
        cleanup: if disk { rng.chance(1, 5) } else { rng.chance(1, 4) },
        sub: None,
        refuse: vec![],
    };
    let cfg = Cfg { sub: if disk && rng.chance(1, 2) { Some(rng.range(1, 3) as usize) } else { None }, ..cfg };
    // key population: usually larger than the capacity; at least two keys of one near-collision
    // family whenever there are two keys at all
    let pop = if disk { rng.range(1, 12) as usize } else if rng.chance(1, 6) { rng.range(1, cfg.max as u64) as usize } else { cfg.max + 1 + rng.below(cfg.max as u64 + 4) as usize };
    let keys = population(rng, s, pop, disk);
    let cfg = Cfg { refuse: refused(&keys, disk), ..cfg };
    let salt = rng.next();
    let mut case = Case::begin(s, cfg.clone(), salt);
    let mut seq = 0u32;
    // op mix varies per case so that some histories fill up quickly and others churn
    let put_w = rng.range(25, 60);
    let short_w = *rng.pick(&[0u64, 10, 25, 50]);
    for _ in 0..nops {
        let k = keys[rng.below(pop as u64) as usize];
        let x = rng.below(100);
        let op = if x < put_w {
            let v = value(rng, &mut seq, &cfg);
            if rng.chance(1, 3) { Op::PutTtl(k, v, rng.below(100) < short_w.max(5)) } else { Op::Put(k, v) }
        } else {
            match rng.below(if disk { 24 } else { 21 }) {
                0..=9 => Op::Get(k),
                10..=12 => Op::Contains(k),
                13..=15 => Op::Remove(k),
                16 => if rng.chance(1, 3) { Op::Clear } else { Op::Get(k) },
                17 => Op::Size,
                18 => if cfg.cleanup { Op::Cleanup } else { Op::Size },
                19 | 20 => Op::Stats,
                _ => Op::Reopen,
            }
        };
        case.apply(s, &op);
    }
    // closing sweep: every key is read, then the figures are asked for explicitly
    if disk && rng.chance(1, 2) { case.apply(s, &Op::Reopen); }
    if cfg.cleanup { case.apply(s, &Op::Cleanup); case.apply(s, &Op::Size); }
    for &k in &keys { case.apply(s, &Op::Get(k)); }
    case.apply(s, &Op::Size);
    case.apply(s, &Op::Stats);
    case.finish(s);
}

/// `n` different key numbers.  With two or more keys, between 2 and n of them are members of one
/// near-collision family (sometimes two families): a window of neighbours in the family table (the
/// closest variants stand next to each other) or a random subset.  The rest are plain keys.
fn population(rng: &mut Rng, s: &mut Session, n: usize, disk: bool) -> Vec<usize> {
    let mut ids: Vec<usize> = vec![];
    if n >= 2 {
        let nf = if n >= 5 && rng.chance(1, 3) { 2 } else { 1 };
        let quota = rng.range(2, n as u64) as usize;
        for j in 0..nf {
            let f = rng.below(families().len() as u64) as usize;
            // names the file system refuses (disk cache): one candidate in four stays in
            let cands: Vec<usize> = family_ids(f).into_iter().filter(|i| (!disk || disk_ok(*i) || i % 4 == 0) && !ids.contains(i)).collect();
            let want = if nf == 2 && j == 0 { (quota / 2).max(2) } else { quota.saturating_sub(ids.len()) };
            let take = want.min(cands.len());
            if take == 0 { continue; }
            s.tally(&format!("keys.family.{}", families()[f].name));
            if rng.chance(1, 2) {
                let start = rng.below(cands.len() as u64) as usize;
                for t in 0..take { ids.push(cands[(start + t) % cands.len()]); }
            } else {
                let mut c = cands.clone();
                for _ in 0..take {
                    let i = rng.below(c.len() as u64) as usize;
                    ids.push(c.swap_remove(i));
                }
            }
        }
    }
    s.tally_n("keys.near-collision", ids.len() as u64);
    let mut p = 0;
    while ids.len() < n { ids.push(p); p += 1; }
    s.tally_n("keys.plain", p as u64);
    ids
}

/// `validate mem <max> <bytes|none> <cleanup_zero>` / `validate disk <max_files> <bytes|none>
/// <cleanup_zero> <sync_zero> <use_subdirs> <levels>`: the real `validate()` (stateless); O: the
/// constructor accepts exactly the configurations `validate()` accepts.
fn validate_line(s: &mut Session, line: &str, toks: &[&str]) {
    let bytes = |b: &str| -> Option<Option<usize>> { if b == "none" { Some(None) } else { b.parse().ok().map(Some) } };
    let flag = |f: &str| -> Option<bool> { match f { "0" => Some(false), "1" => Some(true), _ => None } };
    let dur = |zero: bool| if zero { Duration::ZERO } else { Duration::from_millis(7) };
    let r: Option<(bool, bool)> = match toks {
        ["validate", "mem", mx, b, cz] => (|| {
            let mut c = MemoryCacheConfig::new();
            c.max_entries = mx.parse().ok()?;
            c.max_memory_bytes = bytes(b)?;
            c.cleanup_interval = dur(flag(cz)?);
            let v = c.validate().is_ok();
            Some((v, MemoryCache::<RibbitKey>::new(c).is_ok()))
        })(),
        ["validate", "disk", mf, b, cz, sz, sub, lv] => (|| {
            let d = temp_root();
            let mut c = DiskCacheConfig::new(d.path().join("cache"));
            c.max_files = mf.parse().ok()?;
            c.max_disk_bytes = bytes(b)?;
            c.cleanup_interval = dur(flag(cz)?);
            c.sync_interval = dur(flag(sz)?);
            c.use_subdirectories = flag(sub)?;
            c.subdirectory_levels = lv.parse().ok()?;
            let v = c.validate().is_ok();
            Some((v, DiskCache::<RibbitKey>::new(c).is_ok()))
        })(),
        _ => None,
    };
    match r {
        None => s.line(line, "bad-op"),
        Some((v, n)) => {
            s.line(line, if v { "ok" } else { "err:config" });
            s.tally(if v { "validate.ok" } else { "validate.err" });
            if v != n {
                s.oracle_fail("config-validate-new-mismatch", &format!("validate() says {v} but the constructor says {n} for `{line}`"), &[line.to_string()]);
            }
        }
    }
}

fn run_script(s: &mut Session, lines: &[String]) {
    let mut cur: Option<Case> = None;
    for l in lines {
        let toks: Vec<&str> = l.split(' ').filter(|t| !t.is_empty()).collect();
        if toks.first() == Some(&"validate") {
            validate_line(s, l, &toks);
        } else if toks.first() == Some(&"begin") {
            if let Some(c) = cur.take() { c.finish(s); }
            match Cfg::parse(&toks) {
                Some(cfg) => cur = Some(Case::begin(s, cfg, 7)),
                None => s.line(l, "bad-op"),
            }
        } else if let Some(c) = cur.as_mut() {
            c.apply(s, &parse_op(l));
        } else {
            s.line(l, "bad-op");
        }
    }
    if let Some(c) = cur.take() { c.finish(s); }
}

/// Near-collision families as a whole: every member is stored with its own value, read, every other
/// one removed, read, stored again, (disk: re-created,) read, a third of them replaced by ended-TTL
/// values, probed, read, cleared, read — on the memory cache and on the flat and the hashed disk
/// layouts (with and without background tasks).  One history per family first (short replays),
/// then one over all families together (variants of one word sit in different families).
fn family_walks(s: &mut Session) {
    let val = |round: u8, id: usize| -> String {
        let mut v = vec![round, (id >> 8) as u8, id as u8, 0x5a];
        v.extend(std::iter::repeat_n(0xC0 | round, id % 5));
        hex(&v)
    };
    let begins = ["begin mem max=1000 bytes=none policy=lru dttl=long", "begin disk dttl=long", "begin disk dttl=long sub=1",
        "begin disk dttl=long sub=2", "begin diskc dttl=long sub=3", "begin memc max=1000 bytes=none policy=lfu dttl=long"];
    let nf = families().len();
    // neighbours in the family tables two at a time: the shortest possible replay for a confusion
    // of two keys (store both, read both, remove one, read the other, store it again, read both)
    for b in ["begin disk dttl=long", "begin disk dttl=long sub=2", "begin mem max=4 bytes=none policy=lru dttl=long"] {
        let disk = b.starts_with("begin disk");
        for f in 0..nf {
            let ids: Vec<usize> = family_ids(f);
            for w in ids.windows(2) {
                let (a, c) = (w[0], w[1]);
                let mut sc = vec![begin_line(b, w), format!("put {a} {} ev=auto", val(1, a)), format!("put {c} {} ev=auto", val(1, c)), format!("get {a}"), format!("get {c}"),
                    format!("remove {c}"), format!("get {a}"), format!("put {c} {} ev=auto", val(2, c)), format!("get {a}"), format!("get {c}")];
                if disk { sc.extend(["reopen".to_string(), format!("get {a}"), format!("remove {a}"), format!("get {c}")]); }
                sc.push("stats".into());
                run_script(s, &sc);
                s.tally("case.family-pair");
            }
        }
    }
    for b in begins {
        let disk = b.starts_with("begin disk");
        let task = b.starts_with("begin diskc") || b.starts_with("begin memc");
        for f in 0..=nf {
            // f == nf: all families together, interleaved with a few plain keys
            let ids: Vec<usize> = if f < nf { family_ids(f) } else { (0..nf).flat_map(family_ids).chain(0..6).collect() };
            let mut sc = vec![begin_line(b, &ids)];
            for &i in &ids { sc.push(format!("put {i} {} ev=auto", val(1, i))); }
            for &i in &ids { sc.push(format!("get {i}")); }
            sc.push("size".into());
            sc.push("stats".into());
            for &i in ids.iter().step_by(2) { sc.push(format!("remove {i}")); }
            for &i in &ids { sc.push(format!("get {i}")); }
            for &i in ids.iter().step_by(2) { sc.push(format!("putttl {i} {} long ev=auto", val(2, i))); }
            for &i in ids.iter().rev().step_by(3) { sc.push(format!("put {i} {} ev=auto", val(3, i))); }
            if disk { sc.push("reopen".into()); }
            for &i in &ids { sc.push(format!("get {i}")); }
            for &i in ids.iter().skip(1).step_by(3) { sc.push(format!("putttl {i} {} short ev=auto", val(4, i))); }
            for &i in &ids { sc.push(format!("contains {i}")); }
            if task { sc.push("cleanup".into()); }
            for &i in &ids { sc.push(format!("get {i}")); }
            if disk {
                // a new instance finds the files only: remove through the fallback path, then read
                sc.push("reopen".into());
                for &i in ids.iter().skip(2).step_by(4) { sc.push(format!("remove {i}")); }
                for &i in &ids { sc.push(format!("get {i}")); }
            }
            sc.push("size".into());
            sc.push("stats".into());
            sc.push("clear".into());
            for &i in ids.iter().take(8) { sc.push(format!("get {i}")); }
            sc.push(format!("put {} {} ev=auto", ids[0], val(5, ids[0])));
            for &i in ids.iter().take(8) { sc.push(format!("get {i}")); }
            sc.push("size".into());
            run_script(s, &sc);
            s.tally("case.family-walk");
        }
    }
}

fn directed(s: &mut Session) {
    let scripts: Vec<Vec<String>> = vec![
        // configuration validation
        vec!["begin mem max=0 bytes=none policy=lru dttl=long".into(), "get 1".into()],
        vec!["begin mem max=3 bytes=0 policy=lru dttl=long".into(), "size".into()],
        // protocol errors
        vec!["begin mem max=3 bytes=none policy=lru dttl=long".into(), "frobnicate 1".into(), "reopen".into(), "get x".into()],
    ];
    for sc in scripts { run_script(s, &sc); }
    // the layout token of the disk cache: canonical 1..7 only
    for t in ["sub=0", "sub=8", "sub=01", "sub=x", "sub=", "sub=2 x", "xsub=2"] {
        run_script(s, &[format!("begin disk dttl=long {t}"), "get 1".to_string()]);
    }
    for t in ["refuse=", "refuse=-", "refuse=01", "refuse=1,,2", "refuse=1,x", "sub=2 refuse=", "refuse=1 sub=2", "sub=2 refuse=1 x", "sub=0 refuse=1"] {
        run_script(s, &[format!("begin diskc dttl=short {t}"), "size".to_string()]);
    }
    // a listed key that the file system does accept: only the model would refuse it (never
    // generated; the line documents that `refuse=` is an input of the model)
    run_script(s, &["begin disk dttl=long sub=1 refuse=5".to_string(), "get 5".to_string(), "put 6 0102 ev=auto".to_string(), "get 6".to_string()]);
    family_walks(s);
    // put_with_ttl over an entry whose TTL has ended (not yet swept): one entry, the new size, the
    // new value; then hit / miss figures. Memory (with and without cleanup task) and disk.
    for b in ["begin mem max=3 bytes=none policy=lru dttl=long", "begin memc max=3 bytes=40 policy=fifo dttl=long", "begin disk dttl=long"] {
        let sc: Vec<String> = [b, "putttl 1 aabbccdd short ev=auto", "stats", "putttl 1 0102030405060708 long ev=auto", "stats", "get 1", "get 2",
            "putttl 1 ee short ev=auto", "putttl 1 ffff short ev=auto", "size", "get 1", "stats", "put 2 0909 ev=auto", "putttl 2 - short ev=auto",
            "putttl 2 0a0b0c long ev=auto", "get 2", "stats", "clear", "stats", "get 2", "stats"].iter().map(|x| x.to_string()).collect();
        run_script(s, &sc);
    }
    // the background cleanup task: ended-TTL entries nobody looks at, then a tick of the task
    for pol in ["lru", "lfu", "fifo", "random", "ttl"] {
        let sc: Vec<String> = [&format!("begin memc max=4 bytes=none policy={pol} dttl=long")[..], "cleanup", "putttl 1 aabbcc short ev=auto", "put 2 0102 ev=auto",
            "putttl 3 - short ev=auto", "size", "cleanup", "size", "stats", "get 1", "get 2", "get 3", "putttl 2 0708 short ev=auto", "cleanup", "cleanup", "stats",
            "put 5 01 ev=auto", "put 6 02 ev=auto", "put 7 03 ev=auto", "put 8 04 ev=auto", "putttl 9 05 short ev=auto", "cleanup", "size", "get 9", "get 8"].iter().map(|x| x.to_string()).collect();
        run_script(s, &sc);
    }
    for d in ["long", "short"] {
        let sc: Vec<String> = [&format!("begin diskc dttl={d}")[..], "cleanup", "putttl 1 aabbcc short ev=auto", "put 2 0102 ev=auto", "putttl 3 - short ev=auto",
            "cleanup", "size", "stats", "get 1", "get 2", "get 3", "putttl 4 0708 long ev=auto", "putttl 2 09 short ev=auto", "reopen", "cleanup", "get 2", "get 4",
            "putttl 5 0a0b short ev=auto", "cleanup", "cleanup", "stats", "get 5", "contains 5", "size"].iter().map(|x| x.to_string()).collect();
        run_script(s, &sc);
    }
    run_script(s, &["begin mem max=3 bytes=none policy=lru dttl=long".to_string(), "cleanup".to_string()]);
    run_script(s, &["begin disk dttl=long".to_string(), "cleanup".to_string()]);
    // configuration validation: the whole small grid
    let mut sc = vec![];
    for mx in [0usize, 1, 2, 1000] { for b in ["none", "0", "1", "4096"] { for cz in [0, 1] {
        sc.push(format!("validate mem {mx} {b} {cz}"));
    } } }
    for mf in [0usize, 1, 50] { for b in ["none", "0", "1"] { for cz in [0, 1] { for sz in [0, 1] { for sub in [0, 1] { for lv in [0usize, 1, 3] {
        sc.push(format!("validate disk {mf} {b} {cz} {sz} {sub} {lv}"));
    } } } } } }
    sc.push("validate mem x none 0".into());
    sc.push("validate disk 1 none 0 0 2 1".into());
    run_script(s, &sc);
    s.case(Some(&sc.join("\n")));
    // every policy × small capacities: fill past capacity with distinct keys, touching some
    for pol in ["lru", "lfu", "fifo", "random", "ttl"] {
        for max in [1usize, 2, 3, 10, 11] {
            for bytes in ["none", "1", "25"] {
                let mut sc = vec![format!("begin mem max={max} bytes={bytes} policy={pol} dttl=long")];
                for k in 0..(max + 3) {
                    sc.push(format!("put {k} {} ev=auto", hex(&vec![k as u8 + 1; 5 + k % 3])));
                    if k % 2 == 0 { sc.push(format!("get {}", k / 2)); }
                    if k == max { sc.push(format!("putttl {k} {} short ev=auto", hex(&vec![0xEE; 4]))); sc.push("size".into()); }
                }
                sc.push("stats".into());
                for k in 0..(max + 3) { sc.push(format!("get {k}")); }
                sc.push("size".into());
                run_script(s, &sc);
            }
        }
    }
}

fn main() {
    let args = Args::parse();
    quiet_panics();
    let mut s = Session::new(&args.out);
    s.rule = "seeded histories of put / put_with_ttl / get / contains / remove / clear / size / stats (+ reopen for the disk cache) over all five eviction policies, max_entries 1..30, max_memory_bytes none/1/2/10/40/100/300/1000, value sizes 0 .. above the byte limit, key populations above capacity in which (from two keys on) at least two keys belong to one near-collision family (different keys that differ only in a separator / field boundary, punctuation, blanks, letter case, a Unicode look-alike or normalisation form, a path separator, or far into a 32..251-byte name; names of 252..5000 bytes are stored by the memory cache and refused by the file system under the disk cache — listed as refuse= on the begin line, a put of them must fail and store nothing), disk layouts flat and hashed sub-directories (1..3 levels), directed walks over every whole family on the memory cache and every disk layout, TTL classes long (1 h) / short (0 ns–1 ms followed by a real sleep > 3×TTL); a quarter of the memory histories on MemoryCache::new_with_cleanup with ticks of the background task (`cleanup`); stats() compared in five figures (entries, bytes, get / hit / miss counts); plus the grid of MemoryCacheConfig / DiskCacheConfig::validate inputs; evaluations = histories; non-trivial = the history reached an eviction, an expiry sweep, a short TTL, a reopen or a cleanup tick; distinct = canonical request text of the whole history".into();
    let mut rng = Rng::new(args.seed);
    check_universe();

    if let Some(p) = &args.replay {
        let lines = read_case(p);
        run_script(&mut s, &lines);
        s.finish();
        return;
    }

    directed(&mut s);
    let (mem_cases, disk_cases, nops) = if args.thorough() { (2500, 500, 160) } else { (260, 70, 110) };
    for i in 0..mem_cases {
        let n = if i % 10 == 0 { nops * 3 } else { rng.range(20, nops as u64) as usize };
        gen_case(&mut rng, &mut s, false, n);
    }
    for _ in 0..disk_cases {
        let n = rng.range(10, nops as u64 / 2) as usize;
        gen_case(&mut rng, &mut s, true, n);
    }
    s.finish();
}
