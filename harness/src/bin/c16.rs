//! C16 — ZBSDIFF: a patch built by any builder, applied to old by either patcher, yields new;
//! applying any patch yields exactly header.output_size bytes or fails.
//!
//! K: the real builders / patchers vs the Lean model (`drv_c16`) on the same request lines.
//!    Observables: control triples, inflated diff / extra blocks, applied output, error class.
//! O: apply(old, build(old,new)) == new for memory and streaming patchers (all buffer sizes),
//!    Ok-length == header.output_size for arbitrary (mutated) patches, memory == streaming.
//!
//! Protocol (stateful; a case starts with `begin`):
//!   begin <old> <new>                          -> ok
//!   build simple                               -> ctl=d,e,s;… raw=<inflated control bytes> diff=<hex> extra=<hex> out=<n> | err:<class>
//!   build chunked <max_diff_block_size>        -> same
//!   build suffix <sa: comma separated | ->     -> same   (sa = suffix array of old)
//!   build suffixb <max_diff_block_size> <sa>   -> same   (with_max_diff_block_size(n).build(): the suffix builder under a configured block size)
//!   sa <sa>                                    -> ok     (large old: the suffix array once per case; later suffix lines say `@sa`)
//!   apply mem <ctl-bytes> <diff> <extra> <out> -> <hex> | err:<class>
//!   apply stream <buf> <ctl-bytes> <diff> <extra> <out> -> same
//!   apply streamd <ctl-bytes> <diff> <extra> <out>          -> same (ZbsdiffPatcher::new default buffer, no with_buffer_size)
//!   apply sread <k,k,…> <buf> <ctl-bytes> <diff> <extra> <out> -> same; the old file is a Read+Seek source whose i-th
//!                                                 read() returns at most k[i mod n] (>= 1) bytes
//!   apply spos <pos> <k,k,…> <buf> <ctl-bytes> <diff> <extra> <out> -> same as sread; the source is handed to
//!                                                 ZbsdiffPatcher::new at stream position <pos> (0 .. beyond the end: the caller
//!                                                 read / hashed part of the file first). The result must not depend on <pos>.
//!   apply noseek <buf> <ctl-bytes> <diff> <extra> <out>     -> err:seek (every seek of the source fails)
//! whole patch BYTES (zlib is a table on the line: the model looks its own blocks / slices up, a miss is err:z-miss):
//!   buildp simple|chunked <blk>|suffix <sa> {<inflated> <compressed>}*   -> <patch hex> | err:<class>
//!   applyp mem <patch> {<compressed> <inflated|!>}*            -> <hex> | err:<class>   (apply_patch_memory)
//!   applyp stream <buf> <patch> {<compressed> <inflated|!>}*   -> same (parse_from_patch + new + apply_patch_from_data)
//!   hdr <bytes>                                -> ok <control_size> <diff_size> <output_size> | err:<class>  (parse_from_patch)
//!   container <bytes>                          -> ok <c> <d> <o> c=<hex> d=<hex> e=<hex> rebuilt=same|differs  (ZbsDiff::parse / build)
//!   codec enc <i64>                            -> 8 bytes written by ControlBlock::to_compressed for that seek (private offtout)
//!   codec dec <8 bytes>                        -> the seek ControlBlock::from_compressed reads (private offtin)
//! `<ctl-bytes>` is the inflated control block (24-byte sign-magnitude records), the blocks are
//! the inflated diff / extra blocks, all recovered from the patch BYTES the builder returned.
//!
//! Large cases ("large blocks": 16 KiB .. 200 KB per block): a byte-string token of >= REF_MIN bytes
//! that IS one of the following is written as a reference instead of hex —
//!   @c @d @e     inflated control / diff / extra block of the last build / buildp line that returned a patch
//!   @p           the patch bytes of the last buildp line;  @zc @zd @ze  its three stored slices
//! (here: of the REAL builder's patch; in the driver: of the MODEL's patch — the preceding build /
//! buildp line compares the two) and a byte string of >= DIGEST_MIN bytes in a response is written
//! `#<length>:<FNV-1a 64>` on both sides.
use cascette_formats::zbsdiff::{
    ControlBlock, ControlEntry, ZBSDIFF1_SIGNATURE, ZbsDiff, ZbsdiffBuilder, ZbsdiffError, ZbsdiffHeader,
    ZbsdiffPatcher, apply_patch_memory, compress_zlib, decompress_zlib,
};
use std::io::{BufReader, Cursor, Read, Seek, SeekFrom};
use std::panic::AssertUnwindSafe;
use verif_harness::*;

#[derive(Clone, Debug, PartialEq)]
struct Blocks {
    /// inflated control block exactly as the builder wrote it
    raw: Vec<u8>,
    ctl: Vec<(i64, i64, i64)>,
    diff: Vec<u8>,
    extra: Vec<u8>,
    out: i64,
}

fn err_class(e: &ZbsdiffError) -> &'static str {
    match e {
        ZbsdiffError::EmptyControlBlock => "err:empty-ctl",
        ZbsdiffError::InvalidControlEntry { .. } | ZbsdiffError::ApplicationFailed { .. } => "err:bad-entry",
        ZbsdiffError::InsufficientData { .. } => "err:short",
        ZbsdiffError::CompressionError(io) if io.kind() == std::io::ErrorKind::UnexpectedEof => "err:short",
        ZbsdiffError::SizeMismatch { .. } => "err:size",
        ZbsdiffError::CorruptPatch { .. } => "err:ctl-trunc",
        ZbsdiffError::InvalidSize { .. } | ZbsdiffError::SizeTooLarge(_) | ZbsdiffError::InvalidSignature { .. } => "err:header",
        _ => "err:other",
    }
}

/// smallest byte string written as a reference (`@d` …) on a request line
const REF_MIN: usize = 4096;
/// smallest byte string answered as `#<len>:<fnv>` instead of hex
const DIGEST_MIN: usize = 16384;
/// smallest old content whose suffix array goes on its own `sa` line
const SA_REF_MIN: usize = 4096;

fn fnv1a(b: &[u8]) -> u64 {
    let mut h = 0xcbf2_9ce4_8422_2325u64;
    for x in b {
        h ^= *x as u64;
        h = h.wrapping_mul(0x0100_0000_01b3);
    }
    h
}

/// response-side byte string: hex, or length + digest from DIGEST_MIN bytes on
fn hexd(b: &[u8]) -> String {
    if b.len() < DIGEST_MIN { hex(b) } else { format!("#{}:{:016x}", b.len(), fnv1a(b)) }
}

/// byte count denoted by a response byte string (`-`, hex, or `#<len>:<fnv>`)
fn resp_len(r: &str) -> i64 {
    if r == "-" { 0 } else if let Some(x) = r.strip_prefix('#') { x.split(':').next().and_then(|n| n.parse().ok()).unwrap_or(-1) } else { r.len() as i64 / 2 }
}

/// text used in distinct-case keys
fn keyb(b: &[u8]) -> String {
    if b.len() < REF_MIN { hex(b) } else { format!("#{}:{:016x}", b.len(), fnv1a(b)) }
}

/// error classes of the whole-patch entry points (header / zlib / old-source errors kept apart)
fn err_class_p(e: &ZbsdiffError) -> String {
    match e {
        ZbsdiffError::BinaryFormatError(b) => {
            if format!("{b}").contains("failed to fill whole buffer") { "err:hdr-short".into() } else { "err:binrw-other".into() }
        }
        ZbsdiffError::CorruptPatch { reason } if reason.starts_with("Invalid header signature") => "err:sig".into(),
        ZbsdiffError::DecompressionError(_) => "err:zlib".into(),
        ZbsdiffError::OldFileReadError(_) => "err:old-read".into(),
        ZbsdiffError::CompressionError(io) if io.kind() == std::io::ErrorKind::Unsupported => "err:seek".into(),
        _ => err_class(e).to_string(),
    }
}

/// the old file as a `Read + Seek` whose i-th `read` returns at most ks[i mod n] (>= 1) bytes
struct ShortReader {
    data: Vec<u8>,
    pos: u64,
    ks: Vec<usize>,
    calls: usize,
    seekable: bool,
}

impl Read for ShortReader {
    fn read(&mut self, buf: &mut [u8]) -> std::io::Result<usize> {
        let k = if self.ks.is_empty() { 1 } else { self.ks[self.calls % self.ks.len()].max(1) };
        self.calls += 1;
        let pos = (self.pos as usize).min(self.data.len());
        let n = buf.len().min(k).min(self.data.len() - pos);
        buf[..n].copy_from_slice(&self.data[pos..pos + n]);
        self.pos += n as u64;
        Ok(n)
    }
}

impl Seek for ShortReader {
    fn seek(&mut self, to: SeekFrom) -> std::io::Result<u64> {
        if !self.seekable {
            return Err(std::io::Error::from(std::io::ErrorKind::Unsupported));
        }
        let np: i128 = match to {
            SeekFrom::Start(p) => p as i128,
            SeekFrom::End(d) => self.data.len() as i128 + d as i128,
            SeekFrom::Current(d) => self.pos as i128 + d as i128,
        };
        if np < 0 {
            return Err(std::io::Error::from(std::io::ErrorKind::InvalidInput));
        }
        self.pos = np as u64;
        Ok(self.pos)
    }
}

fn res_p(r: Result<Result<Vec<u8>, ZbsdiffError>, String>) -> Result<Vec<u8>, String> {
    match r {
        Err(_) => Err("panic".into()),
        Ok(Ok(v)) => Ok(v),
        Ok(Err(e)) => Err(err_class_p(&e)),
    }
}

/// whole-patch entry points with the header / zlib error classes
fn apply_p(mode: Mode, old: &[u8], patch: &[u8]) -> Result<Vec<u8>, String> {
    res_p(catch(AssertUnwindSafe(|| match mode {
        Mode::Mem => apply_patch_memory(old, patch),
        Mode::Stream(buf) => {
            let h = ZbsdiffHeader::parse_from_patch(patch)?;
            ZbsdiffPatcher::new(Cursor::new(old.to_vec()), h.output_size as usize).with_buffer_size(buf).apply_patch_from_data(patch)
        }
    })))
}

/// streaming patcher over a short-reading (or unseekable) source, documented construction
fn apply_src(ks: &[usize], seekable: bool, buf: Option<usize>, old: &[u8], patch: &[u8]) -> Result<Vec<u8>, String> {
    apply_src_at(0, ks, seekable, buf, old, patch)
}

/// the same, the source handed to `ZbsdiffPatcher::new` at stream position `pos` (may lie beyond the end)
fn apply_src_at(pos: u64, ks: &[usize], seekable: bool, buf: Option<usize>, old: &[u8], patch: &[u8]) -> Result<Vec<u8>, String> {
    res_p(catch(AssertUnwindSafe(|| {
        let h = ZbsdiffHeader::parse_from_patch(patch)?;
        let src = ShortReader { data: old.to_vec(), pos, ks: ks.to_vec(), calls: 0, seekable };
        let p = ZbsdiffPatcher::new(src, h.output_size as usize);
        let p = match buf { Some(b) => p.with_buffer_size(b), None => p };
        p.apply_patch_from_data(patch)
    })))
}

/// how the old-file reader got to its start position before it is handed to the streaming patcher
#[derive(Clone, Copy, Debug, PartialEq)]
enum Pre {
    /// `Cursor` moved with `set_position` (any position, also beyond the end)
    CursorSet,
    /// `Cursor` from which the caller READ `pos` bytes (e.g. to hash a prefix / the whole file)
    CursorRead,
    /// `BufReader<Cursor>` (64-byte buffer) from which the caller read `pos` bytes: the inner cursor
    /// is ahead of the logical position, `stream_position()` subtracts the buffered bytes
    BufRead,
    /// `BufReader<Cursor>` after `seek(SeekFrom::Start(pos))`
    BufSeek,
}

const PRES: [Pre; 4] = [Pre::CursorSet, Pre::CursorRead, Pre::BufRead, Pre::BufSeek];

/// streaming patcher (documented construction) over a std reader that is at stream position `pos`
/// (`*Read` variants: at min(pos, |old|)) when `ZbsdiffPatcher::new` receives it
fn apply_std_at(pre: Pre, pos: u64, buf: usize, old: &[u8], patch: &[u8]) -> Result<Vec<u8>, String> {
    res_p(catch(AssertUnwindSafe(|| {
        let h = ZbsdiffHeader::parse_from_patch(patch)?;
        let n = (pos as usize).min(old.len());
        let mut sink = vec![0u8; n];
        match pre {
            Pre::CursorSet => {
                let mut c = Cursor::new(old.to_vec());
                c.set_position(pos);
                ZbsdiffPatcher::new(c, h.output_size as usize).with_buffer_size(buf).apply_patch_from_data(patch)
            }
            Pre::CursorRead => {
                let mut c = Cursor::new(old.to_vec());
                c.read_exact(&mut sink).expect("prefix read");
                ZbsdiffPatcher::new(c, h.output_size as usize).with_buffer_size(buf).apply_patch_from_data(patch)
            }
            Pre::BufRead => {
                let mut c = BufReader::with_capacity(64, Cursor::new(old.to_vec()));
                c.read_exact(&mut sink).expect("prefix read");
                ZbsdiffPatcher::new(c, h.output_size as usize).with_buffer_size(buf).apply_patch_from_data(patch)
            }
            Pre::BufSeek => {
                let mut c = BufReader::with_capacity(64, Cursor::new(old.to_vec()));
                c.seek(SeekFrom::Start(pos)).expect("seek");
                ZbsdiffPatcher::new(c, h.output_size as usize).with_buffer_size(buf).apply_patch_from_data(patch)
            }
        }
    })))
}

/// start positions for an old file of n bytes: 1, 2, 16, the middle, the last byte, the end, beyond
fn start_positions(n: usize, all: bool) -> Vec<u64> {
    let cand: Vec<usize> = if all { vec![1, 2, 16, n / 2, n.saturating_sub(1), n, n + 1, n + 7] } else { vec![1, n / 2, n] };
    let mut v: Vec<u64> = vec![];
    for c in cand {
        if c > 0 && !v.contains(&(c as u64)) { v.push(c as u64); }
    }
    v
}

/// the harness's own reading of the container layout (three little-endian i64 after the signature)
fn raw_split(p: &[u8]) -> Option<(&[u8], &[u8], &[u8])> {
    if p.len() < 32 {
        return None;
    }
    let c = i64::from_le_bytes(p[8..16].try_into().unwrap());
    let d = i64::from_le_bytes(p[16..24].try_into().unwrap());
    if c < 0 || d < 0 || (c as u128) + (d as u128) > (p.len() - 32) as u128 {
        return None;
    }
    let (c, d) = (c as usize, d as usize);
    Some((&p[32..32 + c], &p[32 + c..32 + c + d], &p[32 + c + d..]))
}

/// zlib table for an `applyp` line: what the real decompress_zlib returns on each of the three slices
fn unz_pairs(st: &St, p: &[u8]) -> String {
    let mut t = String::new();
    if let Some((c, d, e)) = raw_split(p) {
        for sl in [c, d, e] {
            let v = match decompress_zlib(sl) { Ok(v) => enc(st, &v), Err(_) => "!".into() };
            t.push_str(&format!(" {} {}", enc(st, sl), v));
        }
    }
    t
}

/// zlib table for a `buildp` line: what the real compress_zlib returns on each inflated block
fn z_pairs(st: &St, b: &Blocks) -> String {
    let mut t = String::new();
    for blk in [&b.raw, &b.diff, &b.extra] {
        t.push_str(&format!(" {} {}", enc(st, blk), hex(&compress_zlib(blk).expect("zlib"))));
    }
    t
}

/// sign-magnitude (bsdiff offtout), written here independently of the crate's private encoder
fn offtout(v: i64) -> [u8; 8] {
    let mut b = v.unsigned_abs().to_le_bytes();
    if v < 0 {
        b[7] |= 0x80;
    }
    b
}

fn ctl_bytes(ctl: &[(i64, i64, i64)]) -> Vec<u8> {
    let mut v = vec![];
    for (d, e, s) in ctl {
        v.extend_from_slice(&offtout(*d));
        v.extend_from_slice(&offtout(*e));
        v.extend_from_slice(&offtout(*s));
    }
    v
}

/// recover the three blocks from the patch bytes (only pub API: header, from_compressed, zlib)
fn split_patch(patch: &[u8]) -> Result<Blocks, String> {
    let h = ZbsdiffHeader::parse_from_patch(patch).map_err(|e| format!("header: {e}"))?;
    let c0 = 32usize;
    let c1 = c0 + h.control_size as usize;
    let d1 = c1 + h.diff_size as usize;
    if d1 > patch.len() {
        return Err("patch shorter than header sizes".into());
    }
    let cb = ControlBlock::from_compressed(&patch[c0..c1]).map_err(|e| format!("control: {e}"))?;
    // the raw inflated control bytes must be exactly the records (checked against our encoder)
    let raw = decompress_zlib(&patch[c0..c1]).map_err(|e| format!("control zlib: {e}"))?;
    let ctl: Vec<(i64, i64, i64)> = cb.entries.iter().map(|e| (e.diff_size, e.extra_size, e.seek_offset)).collect();
    if raw != ctl_bytes(&ctl) {
        return Err("control block bytes are not the sign-magnitude records of its entries".into());
    }
    let diff = decompress_zlib(&patch[c1..d1]).map_err(|e| format!("diff zlib: {e}"))?;
    let extra = decompress_zlib(&patch[d1..]).map_err(|e| format!("extra zlib: {e}"))?;
    Ok(Blocks { raw, ctl, diff, extra, out: h.output_size })
}

fn fmt_blocks(b: &Blocks) -> String {
    let c: Vec<String> = b.ctl.iter().map(|(d, e, s)| format!("{d},{e},{s}")).collect();
    format!("ctl={} raw={} diff={} extra={} out={}", if c.is_empty() { "-".to_string() } else { c.join(";") }, hexd(&b.raw), hexd(&b.diff), hexd(&b.extra), b.out)
}

/// assemble patch bytes from raw blocks (header written by hand, little-endian)
fn make_patch(ctl_raw: &[u8], diff: &[u8], extra: &[u8], out: i64) -> Vec<u8> {
    let c = compress_zlib(ctl_raw).expect("zlib");
    let d = compress_zlib(diff).expect("zlib");
    let e = compress_zlib(extra).expect("zlib");
    let mut p = vec![];
    p.extend_from_slice(&ZBSDIFF1_SIGNATURE.to_le_bytes());
    p.extend_from_slice(&(c.len() as i64).to_le_bytes());
    p.extend_from_slice(&(d.len() as i64).to_le_bytes());
    p.extend_from_slice(&out.to_le_bytes());
    p.extend_from_slice(&c);
    p.extend_from_slice(&d);
    p.extend_from_slice(&e);
    p
}

#[derive(Clone, Copy, Debug, PartialEq)]
enum Mode {
    Mem,
    Stream(usize),
}

fn mode_txt(m: Mode) -> String {
    match m {
        Mode::Mem => "mem".into(),
        Mode::Stream(b) => format!("stream {b}"),
    }
}

fn apply(mode: Mode, old: &[u8], patch: &[u8]) -> Result<Vec<u8>, String> {
    let r = catch(AssertUnwindSafe(|| match mode {
        Mode::Mem => apply_patch_memory(old, patch),
        Mode::Stream(buf) => {
            // documented use: output size taken from the patch header
            let h = ZbsdiffHeader::parse_from_patch(patch)?;
            ZbsdiffPatcher::new(Cursor::new(old.to_vec()), h.output_size as usize)
                .with_buffer_size(buf)
                .apply_patch_from_data(patch)
        }
    }));
    match r {
        Err(_) => Err("panic".into()),
        Ok(Ok(v)) => Ok(v),
        Ok(Err(e)) => Err(err_class(&e).to_string()),
    }
}

fn build(kind: &str, blk: usize, old: &[u8], new: &[u8]) -> Result<Vec<u8>, String> {
    let r = catch(AssertUnwindSafe(|| {
        let b = ZbsdiffBuilder::new(old.to_vec(), new.to_vec()).with_max_diff_block_size(blk);
        match kind {
            "simple" => b.build_simple_patch(),
            "chunked" => b.build_chunked_patch(),
            _ => b.build(),
        }
    }));
    match r {
        Err(_) => Err("panic".into()),
        Ok(Ok(v)) => Ok(v),
        Ok(Err(e)) => Err(err_class(&e).to_string()),
    }
}

fn suffix_array(old: &[u8]) -> Vec<usize> {
    let n = old.len();
    let mut idx: Vec<usize> = (0..n).collect();
    if n < 2048 {
        idx.sort_by(|&a, &b| old[a..].cmp(&old[b..]));
        return idx;
    }
    // prefix doubling (the suffix array is unique; comparing whole suffixes is quadratic on the
    // long periodic / single-byte contents of the shared-run stream)
    let mut rank: Vec<usize> = old.iter().map(|b| *b as usize).collect();
    let mut tmp = vec![0usize; n];
    let mut k = 1usize;
    loop {
        let key = |r: &[usize], i: usize| (r[i], if i + k < n { r[i + k] + 1 } else { 0 });
        idx.sort_by_key(|&i| key(&rank, i));
        tmp[idx[0]] = 0;
        for j in 1..n {
            tmp[idx[j]] = tmp[idx[j - 1]] + (key(&rank, idx[j]) != key(&rank, idx[j - 1])) as usize;
        }
        rank.copy_from_slice(&tmp);
        if rank[idx[n - 1]] == n - 1 { break; }
        k *= 2;
    }
    idx
}

struct St {
    old: Vec<u8>,
    new: Vec<u8>,
    /// blocks of the last build / buildp line that returned a (parsable) patch
    last: Option<Blocks>,
    /// patch bytes of the last buildp line
    patch: Option<Vec<u8>>,
    /// run the lines on the real code (the oracle needs the state) but do not write them to the
    /// request stream: pairs on which the list-based model would take minutes (quick tier only)
    quiet: bool,
}

/// request-side byte string: a reference when the bytes ARE the referenced thing, else hex
fn enc(st: &St, b: &[u8]) -> String {
    if b.len() >= REF_MIN {
        if let Some(l) = &st.last {
            if b == &l.raw[..] { return "@c".into(); }
            if b == &l.diff[..] { return "@d".into(); }
            if b == &l.extra[..] { return "@e".into(); }
        }
        if let Some(p) = &st.patch {
            if b == &p[..] { return "@p".into(); }
            if let Some((c, d, e)) = raw_split(p) {
                if b == c { return "@zc".into(); }
                if b == d { return "@zd".into(); }
                if b == e { return "@ze".into(); }
            }
        }
    }
    hex(b)
}

/// a byte-string token of a request line
fn tokb(st: &St, t: &str) -> Option<Vec<u8>> {
    match t {
        "@c" => st.last.as_ref().map(|l| l.raw.clone()),
        "@d" => st.last.as_ref().map(|l| l.diff.clone()),
        "@e" => st.last.as_ref().map(|l| l.extra.clone()),
        "@p" => st.patch.clone(),
        "@zc" | "@zd" | "@ze" => {
            let p = st.patch.as_ref()?;
            let (c, d, e) = raw_split(p)?;
            Some(match t { "@zc" => c, "@zd" => d, _ => e }.to_vec())
        }
        _ => unhex(t),
    }
}

/// a `build` (whole = false) or `buildp` line: run the real builder, remember its blocks / bytes
fn do_build(st: &mut St, kind: &str, blk: usize, whole: bool) -> String {
    st.last = None;
    st.patch = None;
    match build(kind, blk, &st.old, &st.new) {
        Err(e) => e,
        Ok(p) => {
            let sp = split_patch(&p);
            let resp = if whole { hexd(&p) } else {
                match &sp {
                    Ok(b) => fmt_blocks(b),
                    Err(e) => format!("unparsable-patch:{}", e.split(':').next().unwrap_or("")),
                }
            };
            st.last = sp.ok();
            if whole { st.patch = Some(p); }
            resp
        }
    }
}

fn run_line(st: &mut St, toks: &[&str]) -> Option<String> {
    Some(match toks {
        ["begin", o, n] => {
            st.old = unhex(o)?;
            st.new = unhex(n)?;
            st.last = None;
            st.patch = None;
            "ok".into()
        }
        // the real builder computes its own suffix array (divsufsort); the line is for the model
        ["sa", sa] => { if *sa != "-" && !sa.split(',').all(|x| x.parse::<usize>().is_ok()) { return None; } "ok".into() }
        ["build", "simple"] => do_build(st, "simple", 1 << 20, false),
        ["build", "chunked", blk] => do_build(st, "chunked", blk.parse().ok()?, false),
        ["build", "suffix", _sa] => do_build(st, "suffix", 1 << 20, false),
        ["build", "suffixb", blk, _sa] => do_build(st, "suffixb", blk.parse().ok()?, false),
        ["apply", "mem", c, d, e, out] => {
            let p = make_patch(&tokb(st, c)?, &tokb(st, d)?, &tokb(st, e)?, out.parse().ok()?);
            apply_resp(apply(Mode::Mem, &st.old, &p))
        }
        ["apply", "stream", buf, c, d, e, out] => {
            let p = make_patch(&tokb(st, c)?, &tokb(st, d)?, &tokb(st, e)?, out.parse().ok()?);
            apply_resp(apply(Mode::Stream(buf.parse().ok()?), &st.old, &p))
        }
        ["apply", "streamc", caller, buf, c, d, e, out] => {
            // the caller-supplied expected size differs from the header's (API probe)
            let p = make_patch(&tokb(st, c)?, &tokb(st, d)?, &tokb(st, e)?, out.parse().ok()?);
            apply_resp(apply_stream_caller(caller.parse().ok()?, buf.parse().ok()?, &st.old, &p))
        }
        ["apply", "streamd", c, d, e, out] => {
            let p = make_patch(&tokb(st, c)?, &tokb(st, d)?, &tokb(st, e)?, out.parse().ok()?);
            let r = catch(AssertUnwindSafe(|| {
                let h = ZbsdiffHeader::parse_from_patch(&p)?;
                ZbsdiffPatcher::new(Cursor::new(st.old.clone()), h.output_size as usize).apply_patch_from_data(&p)
            }));
            apply_resp(match r { Err(_) => Err("panic".into()), Ok(Ok(v)) => Ok(v), Ok(Err(e)) => Err(err_class(&e).to_string()) })
        }
        ["apply", "sread", ks, buf, c, d, e, out] => {
            let ks: Vec<usize> = ks.split(',').map(|x| x.parse().ok()).collect::<Option<Vec<_>>>()?;
            let p = make_patch(&tokb(st, c)?, &tokb(st, d)?, &tokb(st, e)?, out.parse().ok()?);
            apply_resp(apply_src(&ks, true, Some(buf.parse().ok()?), &st.old, &p))
        }
        ["apply", "spos", pos, ks, buf, c, d, e, out] => {
            let ks: Vec<usize> = ks.split(',').map(|x| x.parse().ok()).collect::<Option<Vec<_>>>()?;
            let p = make_patch(&tokb(st, c)?, &tokb(st, d)?, &tokb(st, e)?, out.parse().ok()?);
            apply_resp(apply_src_at(pos.parse().ok()?, &ks, true, Some(buf.parse().ok()?), &st.old, &p))
        }
        ["apply", "noseek", buf, c, d, e, out] => {
            let p = make_patch(&tokb(st, c)?, &tokb(st, d)?, &tokb(st, e)?, out.parse().ok()?);
            apply_resp(apply_src(&[1], false, Some(buf.parse().ok()?), &st.old, &p))
        }
        ["buildp", "simple", ..] => do_build(st, "simple", 1 << 20, true),
        ["buildp", "chunked", blk, ..] => do_build(st, "chunked", blk.parse().ok()?, true),
        ["buildp", "suffix", _sa, ..] => do_build(st, "suffix", 1 << 20, true),
        ["buildp", "suffixb", blk, _sa, ..] => do_build(st, "suffixb", blk.parse().ok()?, true),
        ["applyp", "mem", p, ..] => apply_resp(apply_p(Mode::Mem, &st.old, &tokb(st, p)?)),
        ["applyp", "stream", buf, p, ..] => apply_resp(apply_p(Mode::Stream(buf.parse().ok()?), &st.old, &tokb(st, p)?)),
        ["hdr", p] => {
            let p = tokb(st, p)?;
            match catch(AssertUnwindSafe(|| ZbsdiffHeader::parse_from_patch(&p))) {
                Err(_) => "panic".into(),
                Ok(Ok(h)) => format!("ok {} {} {}", h.control_size, h.diff_size, h.output_size),
                Ok(Err(e)) => err_class_p(&e),
            }
        }
        ["container", p] => {
            let p = tokb(st, p)?;
            match catch(AssertUnwindSafe(|| ZbsDiff::parse(&p))) {
                Err(_) => "panic".into(),
                Ok(Ok(z)) => {
                    let same = z.build().map(|b| b == p).unwrap_or(false);
                    format!("ok {} {} {} c={} d={} e={} rebuilt={}", z.header.control_size, z.header.diff_size, z.header.output_size,
                        hexd(&z.control_data), hexd(&z.diff_data), hexd(&z.extra_data), if same { "same" } else { "differs" })
                }
                Ok(Err(e)) => err_class_p(&e),
            }
        }
        ["codec", "enc", v] => {
            // the crate's private offtout, reached through ControlBlock::to_compressed
            let v: i64 = v.parse().ok()?;
            let r = catch(AssertUnwindSafe(|| {
                let cb = ControlBlock { entries: vec![ControlEntry::new(0, 0, v)] };
                cb.to_compressed().and_then(|z| decompress_zlib(&z))
            }));
            match r {
                Err(_) => "panic".into(),
                Ok(Ok(raw)) if raw.len() == 24 => hex(&raw[16..24]),
                Ok(Ok(_)) => "err:record-size".into(),
                Ok(Err(e)) => err_class_p(&e),
            }
        }
        ["codec", "dec", b] => {
            // the crate's private offtin, reached through ControlBlock::from_compressed
            let b = unhex(b)?;
            if b.len() != 8 { return None; }
            let mut raw = vec![0u8; 16];
            raw.extend_from_slice(&b);
            let r = catch(AssertUnwindSafe(|| ControlBlock::from_compressed(&compress_zlib(&raw)?)));
            match r {
                Err(_) => "panic".into(),
                Ok(Ok(cb)) if cb.entries.len() == 1 => cb.entries[0].seek_offset.to_string(),
                Ok(Ok(_)) => "err:record-count".into(),
                Ok(Err(e)) => err_class_p(&e),
            }
        }
        _ => return None,
    })
}

fn apply_stream_caller(caller: usize, buf: usize, old: &[u8], patch: &[u8]) -> Result<Vec<u8>, String> {
    let r = catch(AssertUnwindSafe(|| {
        ZbsdiffPatcher::new(Cursor::new(old.to_vec()), caller).with_buffer_size(buf).apply_patch_from_data(patch)
    }));
    match r {
        Err(_) => Err("panic".into()),
        Ok(Ok(v)) => Ok(v),
        Ok(Err(e)) => Err(err_class(&e).to_string()),
    }
}

fn apply_resp(r: Result<Vec<u8>, String>) -> String {
    match r {
        Ok(v) => hexd(&v),
        Err(e) => e,
    }
}

fn emit(s: &mut Session, st: &mut St, req: String) -> String {
    let toks: Vec<&str> = req.split(' ').collect();
    let r = run_line(st, &toks).unwrap_or_else(|| "bad-op".into());
    if !st.quiet { s.line(&req, &r); }
    r
}

// ---------------------------------------------------------------------------------------------
// oracle
// ---------------------------------------------------------------------------------------------

/// shape of a control list, used to keep oracle signatures narrow
fn shape(ctl: &[(i64, i64, i64)]) -> &'static str {
    // an extra-only entry carrying a non-zero seek, followed (later) by an entry with diff bytes
    let mut pending = false;
    for (d, _e, sk) in ctl {
        if *d > 0 && pending {
            return "diff-after-seeking-extra";
        }
        if *d == 0 && *sk != 0 {
            pending = true;
        }
    }
    if ctl.len() <= 1 { "single-entry" } else { "multi-entry" }
}

struct Ctx<'a> {
    s: &'a mut Session,
    st: St,
    bufs: Vec<usize>,
    mutate: bool,
    /// max_diff_block_size values given to the SUFFIX builder (`build suffixb <blk>`), besides the default
    sblks: Vec<usize>,
    /// full replays still written for failing LARGE pairs (their begin line is up to ~1 MB)
    big_replays: usize,
    /// fewer K lines per builder (the oracle still runs every patcher / buffer size on the real
    /// code): for pairs whose thousands of control entries make the list-based model slow
    klight: bool,
    /// how many of `bufs` (from the front) get `apply stream` K lines / `applyp stream` K lines on
    /// LARGE pairs; the oracle runs all of `bufs`
    kstream: usize,
    kpstream: usize,
    /// old contents from this length on are not read through schedules of only tiny reads (the
    /// list-based model re-walks old on every read call: quadratic)
    sread_coarse_from: usize,
}

/// oracle failure of a pair; large pairs stop recording after a few failures (each replay carries
/// the whole pair) — the suppressed ones are tallied
fn fail(cx_s: &mut Session, big: bool, budget: &mut usize, sig: &str, msg: &str, replay: &[String]) {
    if big {
        if *budget == 0 {
            cx_s.tally("oracle-fail-not-recorded.large-pair");
            return;
        }
        *budget -= 1;
    }
    cx_s.oracle_fail(sig, msg, replay);
}

/// One (old,new) pair through every builder and patcher. `blks`: chunked block sizes to try.
fn pair(cx: &mut Ctx, rng: &mut Rng, old: &[u8], new: &[u8], blks: &[usize], label: &str) {
    let s = &mut *cx.s;
    let big = old.len().max(new.len()) >= DIGEST_MIN;
    let budget = &mut cx.big_replays;
    let begin = format!("begin {} {}", hex(old), hex(new));
    emit(s, &mut cx.st, begin.clone());
    s.tally(&format!("pairs.{label}"));
    s.tally(&format!("size.new.{}", bucket(new.len())));
    s.tally(&format!("size.old.{}", bucket(old.len())));
    let sa = suffix_array(old);
    let sa_list = if sa.is_empty() { "-".to_string() } else { sa.iter().map(|x| x.to_string()).collect::<Vec<_>>().join(",") };
    // everything a replay of this case needs before the build line
    let mut pre = vec![begin.clone()];
    let sa_txt = if old.len() >= SA_REF_MIN {
        let l = format!("sa {sa_list}");
        emit(s, &mut cx.st, l.clone());
        pre.push(l);
        "@sa".to_string()
    } else { sa_list };
    let mut builds: Vec<(String, String)> = vec![("simple".into(), "build simple".into())];
    for b in blks {
        builds.push((format!("chunked:{b}"), format!("build chunked {b}")));
    }
    builds.push(("suffix".into(), format!("build suffix {sa_txt}")));
    for b in &cx.sblks {
        builds.push((format!("suffixb:{b}"), format!("build suffixb {b} {sa_txt}")));
    }
    let rp = |extra: &[&String]| -> Vec<String> { let mut v = pre.clone(); v.extend(extra.iter().map(|x| (*x).clone())); v };
    let (kold, knew) = (keyb(old), keyb(new));
    for (bname, breq) in builds {
        let kind = bname.split(':').next().unwrap().to_string();
        let blk: usize = bname.split(':').nth(1).map(|x| x.parse().unwrap()).unwrap_or(1 << 20);
        emit(s, &mut cx.st, breq.clone());
        s.tally(&format!("build.{kind}"));
        if kind == "suffixb" { s.tally(&format!("suffix-block-size.{}", if blk <= 32 { blk.to_string() } else { "33+".into() })); }
        let patch = match build(&kind, blk, old, new) {
            Ok(p) => p,
            Err(e) => {
                // the property: every builder produces a patch for every pair
                let shp = if new.is_empty() { "empty-new" } else if old.is_empty() { "empty-old" } else { "nonempty" };
                fail(s, big, budget, &format!("build-fails:{kind}:{shp}"), &format!("{bname} returned {e} for |old|={} |new|={}", old.len(), new.len()), &rp(&[&breq]));
                s.case(None);
                s.tally(&format!("build-error.{e}"));
                continue;
            }
        };
        let b = match split_patch(&patch) {
            Ok(b) => b,
            Err(e) => {
                fail(s, big, budget, &format!("unparsable-patch:{kind}"), &format!("{bname}: {e}"), &rp(&[&breq]));
                s.case(None);
                continue;
            }
        };
        if b.out != new.len() as i64 {
            fail(s, big, budget, &format!("header-size:{kind}"), &format!("{bname}: header.output_size {} != |new| {}", b.out, new.len()), &rp(&[&breq]));
        }
        // block sizes reached (inflated and as stored): readers that work through fixed buffers
        // behave differently from 16 / 32 / 64 KiB on
        if let Some((zc, zd, ze)) = raw_split(&patch) {
            for (nm, infl, z) in [("control", b.raw.len(), zc.len()), ("diff", b.diff.len(), zd.len()), ("extra", b.extra.len(), ze.len())] {
                if infl >= DIGEST_MIN { s.tally(&format!("block.{nm}.inflated.{}", kib_bucket(infl))); }
                if z >= DIGEST_MIN { s.tally(&format!("block.{nm}.compressed.{}", kib_bucket(z))); }
            }
        }
        if kind == "suffixb" && blk > 0 && b.ctl.iter().enumerate().any(|(i, c)| c.0 as usize >= 2 * blk && c.0 as usize % blk == 0 && (c.1 > 0 || (c.2 != 0 && i + 1 < b.ctl.len()))) {
            s.tally("suffix-diff-run-exact-multiple-of-block-size-then-extra-or-seek");
        }
        let shp = shape(&b.ctl);
        s.tally(&format!("shape.{kind}.{shp}"));
        s.tally_n(&format!("entries.{kind}"), b.ctl.len() as u64);
        if b.ctl.iter().any(|c| c.2 < 0) { s.tally(&format!("negative-seek.{kind}")); }
        if b.ctl.iter().any(|c| c.0 > 0) { s.tally(&format!("has-diff.{kind}")); }
        if b.ctl.iter().any(|c| c.0 > 0 && c.1 > 0) { s.tally(&format!("diff-and-extra-entry.{kind}")); }
        let craw = ctl_bytes(&b.ctl);
        let nontrivial = b.ctl.iter().any(|c| c.0 > 0) || b.ctl.len() >= 2;
        let mut modes = vec![Mode::Mem];
        for bf in &cx.bufs { modes.push(Mode::Stream(*bf)); }
        let mut mem_result: Option<Result<Vec<u8>, String>> = None;
        for m in modes {
            // K line: the Lean apply over the same blocks is the independent bspatch
            let areq = format!("apply {} {} {} {} {}", mode_txt(m), enc(&cx.st, &craw), enc(&cx.st, &b.diff), enc(&cx.st, &b.extra), b.out);
            let k_line = match m { Mode::Mem => true, Mode::Stream(bf) => cx.bufs.iter().position(|x| *x == bf).map_or(true, |i| i < if cx.klight { 1 } else if big { cx.kstream } else { usize::MAX }) };
            if k_line {
                emit(s, &mut cx.st, areq.clone());
            }
            // O: on the patch BYTES the builder returned
            let got = apply(m, old, &patch);
            let mname = match m { Mode::Mem => "mem", Mode::Stream(_) => "stream" };
            s.tally(&format!("apply.{mname}"));
            match &got {
                Ok(v) if v == new => {}
                Ok(v) => {
                    let what = if v.len() != new.len() { "wrong-length" } else { "wrong-bytes" };
                    let pos = v.iter().zip(new.iter()).position(|(a, b)| a != b).unwrap_or(v.len().min(new.len()));
                    fail(s, big, budget, &format!("{what}:{kind}:{shp}"), &format!("{bname} patch applied by {} returns Ok with {} bytes differing from new at offset {pos} (|old|={} |new|={})", mode_txt(m), v.len(), old.len(), new.len()), &rp(&[&breq, &areq]));
                }
                Err(e) => {
                    fail(s, big, budget, &format!("apply-fails:{kind}:{shp}"), &format!("{bname} patch rejected by {}: {e} (|old|={} |new|={}, inflated blocks control {} / diff {} / extra {} bytes, patch {} bytes)", mode_txt(m), old.len(), new.len(), b.raw.len(), b.diff.len(), b.extra.len(), patch.len()), &rp(&[&breq, &areq]));
                }
            }
            if let Ok(v) = &got {
                if v.len() as i64 != b.out {
                    fail(s, big, budget, &format!("ok-length:{mname}"), &format!("Ok output of {} bytes, header says {}", v.len(), b.out), &rp(&[&breq, &areq]));
                }
            }
            match (&mem_result, m) {
                (None, Mode::Mem) => mem_result = Some(got.clone()),
                (Some(mr), Mode::Stream(_)) => {
                    if *mr != got {
                        fail(s, big, budget, "patchers-disagree", &format!("{bname}: memory patcher {:?} vs {} {:?}", mr.as_ref().map(|v| v.len()), mode_txt(m), got.as_ref().map(|v| v.len())), &rp(&[&breq, &areq]));
                    }
                }
                _ => {}
            }
            let key = format!("{bname}|{}|{kold}|{knew}", mode_txt(m));
            s.case(if nontrivial { Some(&key) } else { None });
        }
        // --- whole patch BYTES (K): the model assembles header + zlib framing from its own blocks and
        //     must return the very bytes the builder returned; then both entry points on those bytes
        let bpreq = format!("buildp {}{}", &breq["build ".len()..], z_pairs(&cx.st, &b));
        emit(s, &mut cx.st, bpreq.clone());
        s.tally("bytes.buildp");
        let zt = unz_pairs(&cx.st, &patch);
        let ptxt = enc(&cx.st, &patch);
        emit(s, &mut cx.st, format!("applyp mem {ptxt}{zt}"));
        s.tally("bytes.applyp");
        let pbufs: Vec<usize> = if cx.klight { vec![] } else if big { cx.bufs.iter().copied().take(cx.kpstream).collect() } else { vec![cx.bufs[0]] };
        for pb in pbufs {
            emit(s, &mut cx.st, format!("applyp stream {pb} {ptxt}{zt}"));
            s.tally("bytes.applyp");
        }
        if !cx.klight && rng.chance(1, if big && cx.kpstream > 1 { 1 } else if big { 4 } else { 8 }) {
            emit(s, &mut cx.st, format!("hdr {ptxt}"));
            emit(s, &mut cx.st, format!("container {ptxt}"));
            s.tally("bytes.container-intact");
        }
        // --- short-reading old source: K on the blocks, O on the patch bytes
        {
            // (large old: no schedule of only tiny reads — the list model re-walks old on every read call)
            let ks: Vec<usize> = match (rng.below(5), old.len() >= cx.sread_coarse_from) {
                (0, false) => vec![1],
                (1, false) => vec![1, 2, 3],
                (2, false) => vec![7, 1],
                (0, true) => vec![4097, 1],
                (1, true) => vec![1000, 2, 30000],
                (2, true) => vec![rng.range(500, 5000) as usize],
                (3, _) => { let (a, b2, c) = (rng.range(1, 2000) as usize, rng.range(1, 9) as usize, rng.range(1, 300) as usize); vec![a, b2, c] }
                _ => vec![usize::MAX >> 1],
            };
            let bf = *rng.pick(&cx.bufs);
            let kst = ks.iter().map(|k| k.to_string()).collect::<Vec<_>>().join(",");
            let areq = format!("apply sread {kst} {bf} {} {} {} {}", enc(&cx.st, &craw), enc(&cx.st, &b.diff), enc(&cx.st, &b.extra), b.out);
            if !cx.klight { emit(s, &mut cx.st, areq.clone()); }
            s.tally("apply.short-read");
            let got = apply_src(&ks, true, Some(bf), old, &patch);
            match &got {
                Ok(v) if v == new => {}
                Ok(v) => fail(s, big, budget, &format!("short-read-wrong-output:{kind}"), &format!("{bname} patch applied through a source returning <= {kst} bytes per read: Ok with {} bytes differing from new", v.len()), &rp(&[&breq, &areq])),
                Err(e) => fail(s, big, budget, &format!("short-read-fails:{kind}"), &format!("{bname} patch rejected ({e}) when the old file is read through a source returning <= {kst} bytes per read"), &rp(&[&breq, &areq])),
            }
            if let Some(mr) = &mem_result {
                if mr.as_ref().ok() != got.as_ref().ok() {
                    fail(s, big, budget, "short-read-disagrees", &format!("{bname}: memory patcher {:?} vs short-reading source {:?}", mr.as_ref().map(|v| v.len()), got.as_ref().map(|v| v.len())), &rp(&[&breq, &areq]));
                }
            }
            let key = format!("sread|{bname}|{kst}|{bf}|{kold}|{knew}");
            s.case(if nontrivial && !old.is_empty() { Some(&key) } else { None });
        }
        // --- reader state: the streaming patcher's result must not depend on the stream position at
        //     which the old-file reader is handed over (the caller read / hashed part of the file, or
        //     reuses an open handle). K: one `apply spos` line per build (short-reading source at a
        //     position of the family); O: the patch BYTES through std readers at EVERY position of
        //     the family 1 / 2 / 16 / middle / last byte / end / beyond the end (large old: 1 / middle
        //     / end), reached by set_position, by reading, through a BufReader.
        //     (seeded change C16-2d — get_old_file_size returning end - stream_position while
        //     read_old_chunk seeks absolutely: the last p bytes of old read as zeros — slipped through
        //     while every reader was handed over at position 0)
        if !old.is_empty() {
            let small = old.len() < REF_MIN;
            let poss = start_positions(old.len(), small);
            {
                let pos = *rng.pick(&poss);
                let ks: Vec<usize> = if old.len() >= cx.sread_coarse_from { vec![usize::MAX >> 1] } else {
                    match rng.below(4) { 0 => vec![1], 1 => vec![7, 1], 2 => vec![rng.range(1, 300) as usize, rng.range(1, 9) as usize], _ => vec![usize::MAX >> 1] }
                };
                let bf = *rng.pick(&cx.bufs);
                let kst = ks.iter().map(|k| k.to_string()).collect::<Vec<_>>().join(",");
                let areq = format!("apply spos {pos} {kst} {bf} {} {} {} {}", enc(&cx.st, &craw), enc(&cx.st, &b.diff), enc(&cx.st, &b.extra), b.out);
                // (K line: every build of a pair below 2 KiB, one in three above — the list-based model
                //  walks old once per read; the oracle below runs on every build)
                let k_line = !cx.klight && (old.len() < 2048 || rng.chance(1, 3));
                if k_line { emit(s, &mut cx.st, areq.clone()); }
                s.tally("apply.start-position.short-reading-source");
                let got = apply_src_at(pos, &ks, true, Some(bf), old, &patch);
                if got.as_ref().ok() != Some(&new.to_vec()) {
                    fail(s, big, budget, &format!("start-position-wrong-output:{kind}"), &format!("{bname} patch applied by the streaming patcher (buffer {bf}) to a source handed over at stream position {pos} of {} (<= {kst} bytes per read): {} instead of new", old.len(), match &got { Ok(v) => format!("Ok with {} bytes differing from new at offset {}", v.len(), v.iter().zip(new.iter()).position(|(a, b)| a != b).unwrap_or(v.len().min(new.len()))), Err(e) => e.clone() }), &rp(&[&breq, &areq]));
                }
                let key = format!("spos|{bname}|{pos}|{kst}|{bf}|{kold}|{knew}");
                s.case(if nontrivial { Some(&key) } else { None });
            }
            for (pi, pos) in poss.iter().enumerate() {
                // small old: every way of getting there at positions 1 and end, one (rotating) way at the
                // others; large: one way per position
                let pres: Vec<Pre> = if small && (*pos == 1 || *pos as usize == old.len()) { PRES.to_vec() } else { vec![PRES[(pi + new.len()) % PRES.len()]] };
                for pre in pres {
                    let bf = cx.bufs[(pi + pre as usize) % cx.bufs.len()];
                    let got = apply_std_at(pre, *pos, bf, old, &patch);
                    s.tally(&format!("apply.start-position.{}", match *pos as usize { 1 => "1", 2 => "2", 16 => "16", x if x > old.len() => "beyond-end", x if x == old.len() => "end", x if x + 1 == old.len() => "last-byte", _ => "middle" }));
                    if got.as_ref().ok() != Some(&new.to_vec()) {
                        // replay line: the same position through the short-reading source (unbounded reads)
                        let areq = format!("apply spos {pos} {} {bf} {} {} {} {}", usize::MAX >> 1, enc(&cx.st, &craw), enc(&cx.st, &b.diff), enc(&cx.st, &b.extra), b.out);
                        fail(s, big, budget, &format!("start-position-wrong-output:{kind}"), &format!("{bname} patch applied by the streaming patcher (buffer {bf}) to a {pre:?} reader handed over at stream position {pos} of {}: {} instead of new", old.len(), match &got { Ok(v) => format!("Ok with {} bytes differing from new at offset {}", v.len(), v.iter().zip(new.iter()).position(|(a, b)| a != b).unwrap_or(v.len().min(new.len()))), Err(e) => e.clone() }), &rp(&[&breq, &areq]));
                        break;
                    }
                }
            }
        }
        // mutated patches: Ok => exactly header.output_size bytes; memory == streaming
        // (references in their request lines resolve against the buildp line above)
        if cx.mutate && rng.chance(1, 3) {
            mutated(s, &mut cx.st, rng, old, &b, &rp(&[&bpreq]));
        }
        if cx.mutate && rng.chance(1, 3) {
            mutated_bytes(s, &mut cx.st, rng, old, &patch, &rp(&[&bpreq]));
        }
    }
}

/// byte-level damage to a real patch: header fields, signature, truncation, garbage — the length
/// clause and memory == streaming on the WHOLE bytes, plus K on the header / container readers
fn mutated_bytes(s: &mut Session, st: &mut St, rng: &mut Rng, old: &[u8], patch: &[u8], ctx: &[String]) {
    let with = |l: &String| -> Vec<String> { let mut v = ctx.to_vec(); v.push(l.clone()); v };
    let mut p = patch.to_vec();
    let put = |p: &mut Vec<u8>, off: usize, v: i64| { if p.len() >= off + 8 { p[off..off + 8].copy_from_slice(&v.to_le_bytes()); } };
    let get = |p: &[u8], off: usize| i64::from_le_bytes(p[off..off + 8].try_into().unwrap());
    let kind = rng.below(10);
    let name = match kind {
        0 => { let n = *rng.pick(&[0usize, 1, 7, 8, 9, 15, 16, 24, 31]); p.truncate(n); "trunc-header" }
        1 => { let n = match rng.below(4) { 0 => 32, 1 => 33, 2 => p.len() - 1, _ => rng.range(32, p.len() as u64) as usize }; p.truncate(n); "trunc-body" }
        2 => { let i = rng.below(8) as usize; p[i] ^= 1 << rng.below(8); if rng.chance(1, 2) { p.truncate(*rng.pick(&[8usize, 20, 31, 40])); } "signature" }
        3 => { let c = get(&p, 8); let l = p.len() as i64; let v = *rng.pick(&[-1, 0, c + 1, c - 1, 1_000_000_001, 1_000_000_000, i64::MIN, i64::MAX, l - 32, l - 31]); put(&mut p, 8, v); "control-size" }
        4 => { let d = get(&p, 16); let l = p.len() as i64; let v = *rng.pick(&[-1, 0, d + 1, d - 1, 1_000_000_001, 999_999_999, i64::MIN, i64::MAX, l - 32]); put(&mut p, 16, v); "diff-size" }
        5 => { let o = get(&p, 24); let v = *rng.pick(&[-1, o + 1, (o - 1).max(0), 1_000_000_000, 1_000_000_001, i64::MIN, i64::MAX, o + (1 << 32), o | (1 << 63)]); put(&mut p, 24, v); "output-size" }
        6 => { let n = rng.range(1, 9) as usize; p.extend(rng.bytes(n)); "trailing-garbage" }
        7 => { let i = rng.range(32, p.len() as u64 - 1) as usize; p[i] ^= 1 << rng.below(8); "body-bit" }
        8 => { let (c, d) = (get(&p, 8), get(&p, 16)); put(&mut p, 8, d); put(&mut p, 16, c); "sizes-swapped" }
        _ => { let (c, d) = (get(&p, 8), get(&p, 16)); let rest = p.len() as i64 - 32 - c - d; let v = d + rest + *rng.pick(&[0i64, 1]); put(&mut p, 16, v); "diff-takes-extra" }
    };
    s.tally(&format!("byte-mutation.{name}"));
    let zt = unz_pairs(st, &p);
    let hx = enc(st, &p);
    emit(s, st, format!("hdr {hx}"));
    emit(s, st, format!("container {hx}"));
    let stated: Option<i64> = if p.len() >= 32 { Some(get(&p, 24)) } else { None };
    let mut mem: Option<Result<Vec<u8>, String>> = None;
    for m in [Mode::Mem, Mode::Stream(1024)] {
        let areq = format!("applyp {} {hx}{zt}", mode_txt(m));
        let r = emit(s, st, areq.clone());
        let got = apply_p(m, old, &p);
        let mname = match m { Mode::Mem => "mem", Mode::Stream(_) => "stream" };
        s.tally(&format!("byte-mutated-result.{}", if got.is_ok() { "ok" } else { r.as_str() }));
        if let Ok(v) = &got {
            if stated != Some(v.len() as i64) {
                s.oracle_fail(&format!("ok-length-bytes:{mname}"), &format!("byte mutation {name}: Ok output of {} bytes, header says {:?}", v.len(), stated), &with(&areq));
            }
        }
        if got.as_ref().err().map(|e| e == "panic").unwrap_or(false) {
            s.oracle_fail(&format!("apply-panics-bytes:{mname}"), &format!("byte mutation {name}: panic"), &with(&areq));
        }
        match &mem {
            None => mem = Some(got.clone()),
            Some(mr) => {
                if mr.as_ref().ok() != got.as_ref().ok() {
                    s.oracle_fail("patchers-disagree-bytes", &format!("byte mutation {name}: memory {:?} vs streaming {:?}", mr.as_ref().map(|v| v.len()), got.as_ref().map(|v| v.len())), &with(&areq));
                }
            }
        }
        s.case(Some(&format!("bmut|{areq}|{}", keyb(old))));
    }
}

fn kib_bucket(n: usize) -> &'static str {
    match n {
        0..=16383 => "<16K",
        16384..=32767 => "16K-32K",
        32768..=65535 => "32K-64K",
        65536..=131071 => "64K-128K",
        _ => "128K+",
    }
}

fn bucket(n: usize) -> &'static str {
    match n {
        0 => "0",
        1..=7 => "1-7",
        8..=63 => "8-63",
        64..=263 => "64-263",
        264..=1023 => "264-1023",
        1024..=16383 => "1024+",
        _ => "16K+",
    }
}

/// arbitrary patches derived from a real one: the length clause of the property
fn mutated(s: &mut Session, st: &mut St, rng: &mut Rng, old: &[u8], b: &Blocks, ctx: &[String]) {
    let with = |l: &String| -> Vec<String> { let mut v = ctx.to_vec(); v.push(l.clone()); v };
    let mut ctl = b.ctl.clone();
    let mut diff = b.diff.clone();
    let mut extra = b.extra.clone();
    let mut out = b.out;
    let mut craw_override: Option<Vec<u8>> = None;
    let kind = rng.below(12);
    let i = if ctl.is_empty() { 0 } else { rng.below(ctl.len() as u64) as usize };
    let name = match kind {
        0 => { out += 1; "out+1" }
        1 => { if out > 0 { out -= 1; } else { out = 3; } "out-1" }
        2 => { if !diff.is_empty() { diff.pop(); } else { diff.push(1); } "diff-trunc" }
        3 => { if !extra.is_empty() { extra.pop(); } else { extra.push(1); } "extra-trunc" }
        4 => { if !ctl.is_empty() { ctl[i].0 += 1 + rng.below(3) as i64; } "ctl-diff+" }
        5 => { if !ctl.is_empty() { ctl[i].1 += 1 + rng.below(3) as i64; } "ctl-extra+" }
        6 => {
            // seeks: backwards past 0, beyond EOF, huge (saturation)
            if !ctl.is_empty() {
                ctl[i].2 = *rng.pick(&[-1i64, -5, -(old.len() as i64) - 3, old.len() as i64, old.len() as i64 + 7, 1, 3, i64::MAX, -i64::MAX, 1 << 62]);
            }
            // keep lengths consistent so that the patch is accepted and the seek is observable
            "ctl-seek"
        }
        7 => { if ctl.len() > 1 { ctl.remove(i); } else { ctl.clear(); } "ctl-drop" }
        8 => { ctl.push((rng.below(4) as i64, rng.below(4) as i64, rng.below(9) as i64 - 4)); diff.extend(rng.bytes(3)); extra.extend(rng.bytes(3)); out += 0; "ctl-append" }
        9 => { let mut c = ctl_bytes(&ctl); let cut = 1 + rng.below(23) as usize; c.truncate(c.len().saturating_sub(cut)); craw_override = Some(c); "ctl-partial-record" }
        10 => { if !ctl.is_empty() { ctl[i].0 = *rng.pick(&[-1i64, -7, 10_000_001, 10_000_000]); } "ctl-diff-invalid" }
        _ => {
            // a self-consistent random patch: sizes add up, seeks anywhere
            ctl.clear(); diff.clear(); extra.clear();
            let n = rng.range(1, 5);
            let mut total = 0i64;
            for _ in 0..n {
                let d = rng.below(9) as i64; let e = rng.below(5) as i64;
                let sk = rng.below(2 * old.len() as u64 + 9) as i64 - old.len() as i64 - 4;
                ctl.push((d, e, sk)); total += d + e;
                diff.extend(rng.bytes(d as usize)); extra.extend(rng.bytes(e as usize));
            }
            out = total;
            "random-consistent"
        }
    };
    s.tally(&format!("mutation.{name}"));
    let craw = craw_override.unwrap_or_else(|| ctl_bytes(&ctl));
    let p = make_patch(&craw, &diff, &extra, out);
    let mut mem: Option<Result<Vec<u8>, String>> = None;
    for m in [Mode::Mem, Mode::Stream(1024)] {
        let areq = format!("apply {} {} {} {} {}", mode_txt(m), enc(st, &craw), enc(st, &diff), enc(st, &extra), out);
        let r = emit(s, st, areq.clone());
        let got = apply(m, old, &p);
        let mname = match m { Mode::Mem => "mem", Mode::Stream(_) => "stream" };
        s.tally(&format!("mutated-result.{}", if got.is_ok() { "ok" } else { r.as_str() }));
        if let Ok(v) = &got {
            if v.len() as i64 != out {
                s.oracle_fail(&format!("ok-length:{mname}"), &format!("mutation {name}: Ok output of {} bytes, header says {out}", v.len()), &with(&areq));
            }
        }
        if got.as_ref().err().map(|e| e == "panic").unwrap_or(false) {
            s.oracle_fail(&format!("apply-panics:{mname}"), &format!("mutation {name}: panic"), &with(&areq));
        }
        match (&mem, m) {
            (None, _) => mem = Some(got.clone()),
            (Some(mr), _) => {
                if *mr != got {
                    s.oracle_fail("patchers-disagree", &format!("mutation {name}: memory {:?} vs streaming {:?}", mr.as_ref().map(|v| v.len()), got.as_ref().map(|v| v.len())), &with(&areq));
                }
            }
        }
        s.case(Some(&format!("mut|{areq}|{}", keyb(old))));
    }
    // reader state on ARBITRARY patches (seeks before 0 / beyond EOF …): streaming at a start
    // position == memory
    if !old.is_empty() {
        let pos = *rng.pick(&start_positions(old.len(), true));
        let areq = format!("apply spos {pos} {} 1024 {} {} {} {out}", usize::MAX >> 1, enc(st, &craw), enc(st, &diff), enc(st, &extra));
        emit(s, st, areq.clone());
        s.tally("mutated.start-position");
        let got = apply_src_at(pos, &[usize::MAX >> 1], true, Some(1024), old, &p);
        let pre = PRES[(pos as usize + out as usize) % PRES.len()];
        let got2 = apply_std_at(pre, pos, 1024, old, &p);
        if let Some(mr) = &mem {
            for (g, how) in [(&got, "short-reading source".to_string()), (&got2, format!("{pre:?} reader"))] {
                if mr.as_ref().ok() != g.as_ref().ok() || mr.is_ok() != g.is_ok() {
                    s.oracle_fail("start-position-disagrees", &format!("mutation {name}: memory {:?} vs streaming over a {how} handed over at stream position {pos} of {} {:?}", mr.as_ref().map(|v| v.len()), old.len(), g.as_ref().map(|v| v.len())), &with(&areq));
                    break;
                }
            }
        }
        s.case(Some(&format!("mut|{areq}|{}", keyb(old))));
    }
}

// ---------------------------------------------------------------------------------------------
// generators
// ---------------------------------------------------------------------------------------------

fn rand_bytes(rng: &mut Rng, n: usize, alpha: u64) -> Vec<u8> {
    match alpha {
        0 => rng.bytes(n),
        a => (0..n).map(|_| b'a' + rng.below(a) as u8).collect(),
    }
}

/// random edit script applied to `old`
fn edit(rng: &mut Rng, old: &[u8], alpha: u64, edits: usize) -> Vec<u8> {
    let mut v = old.to_vec();
    for _ in 0..edits {
        let len = v.len();
        let at = rng.below(len as u64 + 1) as usize;
        let span = match rng.below(5) { 0 => 1, 1 => rng.range(1, 8) as usize, 2 => rng.range(1, 40) as usize, 3 => 256, _ => rng.range(1, 300) as usize };
        match rng.below(6) {
            0 => { let ins = rand_bytes(rng, span, alpha); v.splice(at..at, ins); }                      // insert
            1 => { let e = (at + span).min(len); v.drain(at..e); }                                      // delete
            2 => { let e = (at + span).min(len); let blk: Vec<u8> = v.drain(at..e).collect();            // move
                   let to = rng.below(v.len() as u64 + 1) as usize; v.splice(to..to, blk); }
            3 => { let e = (at + span).min(len); let blk = v[at..e].to_vec(); v.splice(at..at, blk); }   // repeat
            4 => { let e = (at + span).min(len); for x in &mut v[at..e] { *x = x.wrapping_add(1 + rng.below(3) as u8); } } // replace
            _ => { if len > 0 { let p = rng.below(len as u64) as usize; v[p] = v[p].wrapping_add(1); } }  // point change
        }
    }
    v
}

/// max_diff_block_size values given to the suffix builder
const SBLKS: [usize; 8] = [1, 2, 3, 4, 7, 8, 16, 32];

fn cycle(unit: &[u8], n: usize) -> Vec<u8> {
    (0..n).map(|j| unit[j % unit.len()]).collect()
}

/// compressible but not periodic: words of a small dictionary (zlib ratio ~3-4, short repeats only)
fn wordy(rng: &mut Rng, n: usize) -> Vec<u8> {
    let dict: Vec<Vec<u8>> = (0..48).map(|_| { let l = rng.range(2, 9) as usize; rand_bytes(rng, l, 16) }).collect();
    let mut v = Vec::with_capacity(n + 16);
    while v.len() < n {
        let w = rng.pick(&dict).clone();
        v.extend(w);
        v.push(b' ');
    }
    v.truncate(n);
    v
}

fn splice(old: &[u8], at: usize, del: usize, ins: &[u8]) -> Vec<u8> {
    let at = at.min(old.len());
    let e = (at + del).min(old.len());
    [&old[..at], ins, &old[e..]].concat()
}

/// stream 4a (see main)
fn large_blocks(cx: &mut Ctx, rng: &mut Rng, thorough: bool) {
    let saved = (cx.bufs.clone(), cx.mutate);
    cx.mutate = false;
    cx.bufs = if thorough { vec![1024, 65536, 4096, 1, 16384, 1 << 20] } else { vec![1024, 65536, 4096] };
    if !thorough { cx.kstream = 2; cx.kpstream = 1; }

    // boundary sweep: an incompressible extra block of n bytes around 16 / 32 / 64 KiB, small old
    let all = [16383usize, 16384, 16385, 32740, 32757, 32767, 32768, 32769, 32800, 49152, 65535, 65536, 65537];
    let sweep: Vec<usize> = if thorough { all.to_vec() } else {
        vec![16384 + *rng.pick(&[0usize, 1]) - *rng.pick(&[0usize, 1]), *rng.pick(&[32740usize, 32757, 32767, 32768, 32769, 32800]), *rng.pick(&[65535usize, 65536, 65537])]
    };
    for (i, n) in sweep.iter().enumerate() {
        let ol = *rng.pick(&[0usize, 64, 300]);
        let old = rng.bytes(ol);
        let x = rng.bytes(*n);
        let new = match i % 3 { 0 => [old.clone(), x].concat(), 1 => [x, old.clone()].concat(), _ => splice(&old, old.len() / 2, 0, &x) };
        cx.sblks = vec![*rng.pick(&SBLKS)];
        pair(cx, rng, &old, &new, &[64], "large.boundary-sweep");
    }

    let sizes: Vec<usize> = if thorough { vec![40_000, 70_000, 200_000] } else { vec![40_000] };
    // incompressible insert / append / prepend (extra block; inserted length a multiple of 256 lets
    // the chunked builder re-synchronise behind it)
    for (i, n) in sizes.iter().enumerate() {
        let old = rng.bytes(4096);
        let x = rng.bytes(*n);
        let new = match i % 3 { 0 => [old.clone(), x].concat(), 1 => [x, old.clone()].concat(), _ => splice(&old, 1000, 0, &x) };
        cx.sblks = vec![16];
        pair(cx, rng, &old, &new, &[64, 1 << 20], "large.append-incompressible");
    }
    {
        let n = if thorough { 256 * 782 } else { 256 * 274 }; // 200 192 / 70 144 bytes
        let old = rng.bytes(8192);
        let x = rng.bytes(n);
        let new = splice(&old, 4096, if thorough { 100 } else { 0 }, &x);
        cx.sblks = vec![*rng.pick(&SBLKS)];
        let cb = *rng.pick(&[64usize, 256, 1 << 20]);
        pair(cx, rng, &old, &new, &[cb], "large.insert-incompressible");
    }
    // incompressible DIFF block: every k-th byte of noise changed by a random amount (the suffix
    // builder emits one diff run over the whole file; 1/k of its bytes are noise)
    for (n, k) in if thorough { vec![(96_000usize, 3usize), (160_000, 4), (200_000, 8)] } else { vec![(96_000, 3)] } {
        let old = rng.bytes(n);
        let mut new = old.clone();
        for j in (0..n).step_by(k) { new[j] = new[j].wrapping_add(1 + rng.below(255) as u8); }
        cx.sblks = vec![*rng.pick(&[1usize, 2, 4, 8, 16, 32])];
        pair(cx, rng, &old, &new, &[1 << 20], "large.diff-incompressible");
    }
    // compressible DIFF block: large noise file with a few point edits near the end
    for n in if thorough { vec![70_000usize, 200_000] } else { vec![70_000] } {
        let old = rng.bytes(n);
        let mut new = old.clone();
        for _ in 0..3 { let at = n - 1 - rng.below(n as u64 / 10) as usize; new[at] = new[at].wrapping_add(1 + rng.below(200) as u8); }
        let new = if rng.chance(1, 2) { splice(&new, n - 40, 7, b"") } else { new };
        cx.sblks = vec![*rng.pick(&[1usize, 2, 4, 8, 16, 32])];
        let cb = *rng.pick(&[4096usize, 1 << 20]);
        pair(cx, rng, &old, &new, &[cb], "large.diff-compressible");
    }
    // compressible EXTRA block: a 200 KB run / periodic / dictionary-word insertion
    for style in if thorough { vec![0u64, 1, 2, 3] } else { vec![rng.below(2), 2] } {
        let n = 256 * 800; // 204 800
        let x = match style { 0 => vec![rng.byte(); n], 1 => { let ul = *rng.pick(&[2usize, 3, 8, 100]); let u = rng.bytes(ul); cycle(&u, n) } 2 => wordy(rng, n), _ => rand_bytes(rng, n, 4) };
        let old = rng.bytes(6000);
        let new = splice(&old, 3000, 0, &x);
        cx.sblks = vec![*rng.pick(&SBLKS)];
        let cb = *rng.pick(&[64usize, 1 << 20]);
        pair(cx, rng, &old, &new, &[cb], "large.insert-compressible");
    }
    // 200 KB of unrelated noise (every byte of new in the extra block; stored block > 128 KiB)
    {
        let old = rng.bytes(1000);
        let new = rng.bytes(200_000);
        cx.sblks = vec![];
        pair(cx, rng, &old, &new, &[1 << 20], "large.unrelated-incompressible");
    }
    // large CONTROL block: new = thousands of short slices of old in random order (one control
    // entry with a random seek each: the control block itself exceeds 32 KiB compressed)
    {
        let m = if thorough { 9_000 } else { 7_500 };
        let old = rng.bytes(66_000);
        let mut new = Vec::with_capacity(m * 16);
        for _ in 0..m {
            let l = rng.range(9, 16) as usize;
            let at = rng.below((old.len() - l) as u64) as usize;
            new.extend_from_slice(&old[at..at + l]);
            let x = rng.below(4) as usize;
            new.extend(rng.bytes(x));
        }
        // (quick tier: oracle only — the model needs minutes for 7000 entries over 66 KB lists; the
        //  thorough tier runs the K lines too)
        cx.sblks = vec![*rng.pick(&SBLKS)];
        cx.klight = true;
        cx.st.quiet = !thorough;
        pair(cx, rng, &old, &new, &[1 << 20], "large.many-entries");
        cx.st.quiet = false;
        cx.klight = false;
    }
    // large control block, K: a hand-made consistent patch of thousands of tiny entries with seeks
    // of up to 48 random bits (the stored control block exceeds 32 KiB) on a
    // small old — cheap for the model, same path through from_compressed / decompress_zlib
    {
        let m = if thorough { 9000 } else { 4500 };
        let old = rng.bytes(300);
        let (mut ctl, mut diff, mut extra, mut total) = (vec![], vec![], vec![], 0i64);
        for _ in 0..m {
            let d = rng.below(4) as i64;
            let e = rng.below(3) as i64;
            // below 2^48 each: the position cannot reach usize::MAX (cfg assumption: no position overflow)
            let sh = if rng.chance(1, 4) { rng.below(48) } else { 0 };
            let mag = (rng.next() >> 16 >> sh) as i64;
            let sk = if rng.chance(1, 2) { -mag } else { mag };
            ctl.push((d, e, sk));
            total += d + e;
            diff.extend(rng.bytes(d as usize));
            extra.extend(rng.bytes(e as usize));
        }
        let craw = ctl_bytes(&ctl);
        let begin = format!("begin {} -", hex(&old));
        emit(cx.s, &mut cx.st, begin.clone());
        let zc = compress_zlib(&craw).expect("zlib").len();
        cx.s.tally(&format!("block.control.compressed.{}", kib_bucket(zc)));
        cx.s.tally(&format!("block.control.inflated.{}", kib_bucket(craw.len())));
        cx.s.tally("pairs.large.hand-made-control-block");
        let p = make_patch(&craw, &diff, &extra, total);
        let mut mem: Option<Result<Vec<u8>, String>> = None;
        for md in [Mode::Mem, Mode::Stream(1024), Mode::Stream(65536)] {
            let areq = format!("apply {} {} {} {} {total}", mode_txt(md), hex(&craw), hex(&diff), hex(&extra));
            emit(cx.s, &mut cx.st, areq.clone());
            let got = apply(md, &old, &p);
            if let Ok(v) = &got {
                if v.len() as i64 != total {
                    cx.s.oracle_fail("ok-length:large-control", &format!("Ok output of {} bytes, header says {total}", v.len()), &[begin.clone(), areq.clone()]);
                }
            }
            match &mem {
                None => mem = Some(got.clone()),
                Some(mr) => if *mr != got {
                    cx.s.oracle_fail("patchers-disagree", &format!("hand-made patch with {m} control entries: memory {:?} vs {} {:?}", mr.as_ref().map(|v| v.len()), mode_txt(md), got.as_ref().map(|v| v.len())), &[begin.clone(), areq.clone()]);
                }
            }
            cx.s.case(Some(&format!("bigctl|{}|{}", mode_txt(md), fnv1a(&craw))));
        }
    }
    cx.sblks = vec![];
    cx.bufs = saved.0;
    cx.mutate = saved.1;
    cx.kstream = usize::MAX;
    cx.kpstream = usize::MAX;
}

// ---------------------------------------------------------------------------------------------
// stream 6: old and new share a LONG prefix and / or suffix (see main)
// ---------------------------------------------------------------------------------------------

#[derive(Clone)]
enum Kind {
    Noise,
    Alpha(u64),
    /// repeats of the unit; `true`: the unshared parts continue the same period (old = u^n, new = u^m:
    /// the shared prefix and the shared suffix overlap)
    Periodic(Vec<u8>, bool),
    Wordy,
}

fn kind_name(k: &Kind) -> String {
    match k {
        Kind::Noise => "noise".into(),
        Kind::Alpha(a) => format!("alphabet-{a}"),
        Kind::Periodic(u, c) => format!("period-{}{}", u.len(), if *c { "-continued" } else { "" }),
        Kind::Wordy => "dictionary-words".into(),
    }
}

/// the shared run
fn shared_content(rng: &mut Rng, k: &Kind, n: usize) -> Vec<u8> {
    match k {
        Kind::Noise => rng.bytes(n),
        Kind::Alpha(a) => rand_bytes(rng, n, *a),
        Kind::Periodic(u, _) => cycle(u, n),
        Kind::Wordy => wordy(rng, n),
    }
}

/// a part that is NOT shared
fn unshared_content(rng: &mut Rng, k: &Kind, n: usize) -> Vec<u8> {
    match k {
        Kind::Periodic(u, true) => cycle(u, n),
        Kind::Periodic(_, false) => rng.bytes(n),
        _ => shared_content(rng, k, n),
    }
}

/// make v[i] differ from the bytes of `avoid`: the shared run ends EXACTLY where the shape says
fn differ(rng: &mut Rng, k: &Kind, v: &mut [u8], i: usize, avoid: &[Option<u8>]) {
    if v.is_empty() || matches!(k, Kind::Periodic(_, true)) { return; }
    let bad = |b: u8| avoid.iter().any(|a| *a == Some(b));
    if !bad(v[i]) { return; }
    if let Kind::Alpha(a) = k {
        if let Some(b) = (0..*a as u8).map(|j| b'a' + j).find(|b| !bad(*b)) { v[i] = b; return; }
    }
    loop { let b = rng.byte(); if !bad(b) { v[i] = b; return; } }
}

/// first byte of v avoids `af`, last byte avoids `al`
fn fix_ends(rng: &mut Rng, k: &Kind, v: &mut [u8], af: Option<u8>, al: Option<u8>) {
    match v.len() {
        0 => {}
        1 => differ(rng, k, v, 0, &[af, al]),
        n => { differ(rng, k, v, 0, &[af]); differ(rng, k, v, n - 1, &[al]); }
    }
}

const SHARED_SHAPES: [&str; 17] = [
    "equal", "lead-del", "trail-del", "lead-ins", "trail-ins", "mid-del", "mid-ins", "mid-replace", "mid-replace-same-length",
    "infix-of-old", "infix-of-new", "shift-left", "shift-right", "lead-replace", "trail-replace", "two-edits", "two-deletions",
];

/// (old, new) of the given shape whose shared prefix + shared suffix is exactly `l` bytes
/// (`hs`: lengths of the unshared parts to choose from)
fn shared_pair(rng: &mut Rng, shape: &str, l: usize, k: &Kind, hs: &[usize]) -> (Vec<u8>, Vec<u8>) {
    let h = *rng.pick(hs);
    let g = if shape == "mid-replace-same-length" || rng.chance(1, 4) { h } else { *rng.pick(hs) };
    let f = |v: &[u8]| v.first().copied();
    let e = |v: &[u8]| v.last().copied();
    // where a prefix AND a suffix are shared: |P| + |S| = l
    let p = match rng.below(6) { 0 => l / 2, 1 => 1, 2 => l - 1, 3 => l.min(256) / 2, 4 => l - l.min(256) / 2, _ => rng.range(1, l as u64 - 1) as usize };
    let x = shared_content(rng, k, l);
    let (pp, ss) = x.split_at(p);
    let mut hh = unshared_content(rng, k, h);
    let mut gg = unshared_content(rng, k, g);
    match shape {
        "equal" => (x.clone(), x),
        // H‖X vs X: no shared prefix, the whole of new is the shared suffix
        "lead-del" | "lead-ins" => {
            differ(rng, k, &mut hh, 0, &[f(&x)]);
            let a = [&hh[..], &x].concat();
            if shape == "lead-del" { (a, x) } else { (x, a) }
        }
        // X‖H vs X
        "trail-del" | "trail-ins" => {
            differ(rng, k, &mut hh, h - 1, &[e(&x)]);
            let a = [&x[..], &hh].concat();
            if shape == "trail-del" { (a, x) } else { (x, a) }
        }
        // P‖H‖S vs P‖S
        "mid-del" | "mid-ins" => {
            fix_ends(rng, k, &mut hh, f(ss), e(pp));
            let a = [pp, &hh, ss].concat();
            if shape == "mid-del" { (a, x) } else { (x, a) }
        }
        // P‖H‖S vs P‖G‖S
        "mid-replace" | "mid-replace-same-length" => {
            fix_ends(rng, k, &mut gg, f(&hh), e(&hh));
            ([pp, &hh, ss].concat(), [pp, &gg, ss].concat())
        }
        // A‖X‖B vs X: nothing shared at either end, new (old) lies inside old (new)
        "infix-of-old" | "infix-of-new" => {
            differ(rng, k, &mut hh, 0, &[f(&x)]);
            differ(rng, k, &mut gg, g - 1, &[e(&x)]);
            let a = [&hh[..], &x, &gg].concat();
            if shape == "infix-of-old" { (a, x) } else { (x, a) }
        }
        // H‖X vs X‖G  /  X‖H vs G‖X: the run is a suffix of one side and a prefix of the other
        "shift-left" => {
            differ(rng, k, &mut hh, 0, &[f(&x)]);
            differ(rng, k, &mut gg, g - 1, &[e(&x)]);
            ([&hh[..], &x].concat(), [&x[..], &gg].concat())
        }
        "shift-right" => {
            differ(rng, k, &mut gg, 0, &[f(&x)]);
            differ(rng, k, &mut hh, h - 1, &[e(&x)]);
            ([&x[..], &hh].concat(), [&gg[..], &x].concat())
        }
        // H‖X vs G‖X  /  X‖H vs X‖G
        "lead-replace" => {
            fix_ends(rng, k, &mut gg, f(&hh), e(&hh));
            ([&hh[..], &x].concat(), [&gg[..], &x].concat())
        }
        "trail-replace" => {
            fix_ends(rng, k, &mut gg, f(&hh), e(&hh));
            ([&x[..], &hh].concat(), [&x[..], &gg].concat())
        }
        // P‖H‖M‖S vs P‖M‖G‖S: the part between the shared ends has a match behind a seek
        "two-edits" => {
            let ml = *rng.pick(&[40usize, 300, 2000]);
            let m = shared_content(rng, k, ml);
            differ(rng, k, &mut hh, 0, &[f(&m)]);
            differ(rng, k, &mut gg, g - 1, &[e(&m)]);
            ([pp, &hh, &m, ss].concat(), [pp, &m, &gg, ss].concat())
        }
        // P‖H‖M‖G‖S vs P‖M‖S
        _ => {
            let ml = *rng.pick(&[40usize, 300, 2000]);
            let m = shared_content(rng, k, ml);
            differ(rng, k, &mut hh, 0, &[f(&m)]);
            differ(rng, k, &mut gg, g - 1, &[e(&m)]);
            ([pp, &hh, &m, &gg, ss].concat(), [pp, &m, ss].concat())
        }
    }
}

/// stream 6 (see main)
fn shared_runs(cx: &mut Ctx, rng: &mut Rng, thorough: bool) {
    let saved = (cx.bufs.clone(), cx.mutate, cx.sblks.clone());
    cx.mutate = false;
    cx.bufs = if thorough { vec![1024, 65536, 4096, 1, 16384] } else { vec![1024, 65536, 4096] };
    if !thorough { cx.kstream = 2; cx.kpstream = 1; }
    cx.sread_coarse_from = 2048;
    let ths: Vec<usize> = if thorough { vec![256, 512, 1024, 2048, 4096, 8192, 16384, 32768, 65536] } else { vec![256, 1024, 4096, 8192, 65536] };
    for t in ths {
        let large = t >= DIGEST_MIN;
        // large rows: K lines for a few shapes at the exact threshold, the oracle alone on the others
        // (thorough: every shape in the 64 KiB row, 6 shapes in the 16 / 32 KiB rows)
        let kshapes: Vec<usize> = if thorough && t >= 65536 { (0..SHARED_SHAPES.len()).collect() } else { (0..(if thorough { 6 } else { 3 })).map(|_| rng.below(SHARED_SHAPES.len() as u64) as usize).collect() };
        for (si, shape) in SHARED_SHAPES.iter().enumerate() {
            // shared length at and around the threshold
            let ds: Vec<i64> = if thorough || t < REF_MIN { vec![0, 1, -1] } else { vec![0, *rng.pick(&[1i64, -1])] };
            for d in ds {
                for rep in 0..(if thorough && !large { 2 } else { 1 }) {
                    let l = (t as i64 + d) as usize;
                    let mut k_lines = !large || (d == 0 && rep == 0 && kshapes.contains(&si));
                    let kind = loop {
                        let k = match rng.below(10) {
                            0..=3 => Kind::Noise,
                            4 | 5 => Kind::Alpha(2),
                            6 => Kind::Alpha(4),
                            7 | 8 => { let per = *rng.pick(&[1usize, 2, 7, 256]); Kind::Periodic(rng.bytes(per), rng.chance(1, 2)) }
                            _ => Kind::Wordy,
                        };
                        // (bsdiff's scan re-compares a long periodic match at every position: seconds per
                        //  pair from 64 KiB on in the real builder, and far longer in the list-based model)
                        if large && (k_lines || t > DIGEST_MIN) && matches!(k, Kind::Periodic(..)) { continue; }
                        break k;
                    };
                    // bsdiff's scan is quadratic on long periodic contents (`search` ends on a 2-byte match
                    // when new is larger than every suffix of old; the scan then advances 2 bytes per
                    // search): above 4 KiB the model, ~20x slower than the real builder there, is left out
                    if t > REF_MIN && matches!(kind, Kind::Periodic(..)) { k_lines = false; }
                    // unshared parts: tiny / medium / large (thorough: also as long as the shared run)
                    let mut hs = vec![1usize, rng.range(2, 8) as usize, 40, 300, 5000];
                    if thorough { hs.push(l); }
                    let (old, new) = shared_pair(rng, shape, l, &kind, &hs);
                    cx.s.tally(&format!("shared.length.{t}{}", match d { 0 => "", 1 => "+1", _ => "-1" }));
                    cx.s.tally(&format!("shared.content.{}", kind_name(&kind)));
                    if !k_lines { cx.s.tally("shared.oracle-only"); }
                    cx.sblks = vec![*rng.pick(&SBLKS)];
                    // (a 64 KiB pair in 64-byte chunks is 1024 control entries, and the list-based patcher
                    //  models walk old from its start for each)
                    let cb = if large && k_lines { *rng.pick(&[1024usize, 4096, 1 << 20]) } else { *rng.pick(&[64usize, 256, 4096, 1 << 20]) };
                    cx.st.quiet = !k_lines;
                    pair(cx, rng, &old, &new, &[cb], &format!("shared.{shape}"));
                    cx.st.quiet = false;
                }
            }
        }
        // the same period on both sides, old = u^n and new = u^m: the longest shared prefix and the
        // longest shared suffix overlap (each is the whole shorter side when the phases agree)
        if t <= DIGEST_MIN {
            let pers: Vec<usize> = if thorough { vec![1, 2, 7, 256] } else { vec![1, *rng.pick(&[2usize, 7, 256])] };
            for per in pers {
                let u = rng.bytes(per);
                let l = (t as i64 + *rng.pick(&[0i64, 0, 1, -1])) as usize;
                let h = *rng.pick(&[1usize, 7, 40, 256, 300, 5000]);
                for (n, m) in [(l, l + h), (l + h, l)] {
                    cx.s.tally(&format!("shared.length.{t}.same-period-{per}"));
                    cx.sblks = vec![*rng.pick(&SBLKS)];
                    let cb = *rng.pick(&[64usize, 256, 4096, 1 << 20]);
                    cx.st.quiet = t > REF_MIN;
                    if cx.st.quiet { cx.s.tally("shared.oracle-only"); }
                    pair(cx, rng, &cycle(&u, n), &cycle(&u, m), &[cb], "shared.same-period");
                    cx.st.quiet = false;
                }
            }
        }
    }
    cx.bufs = saved.0;
    cx.mutate = saved.1;
    cx.sblks = saved.2;
    cx.sread_coarse_from = DIGEST_MIN;
    cx.kstream = usize::MAX;
    cx.kpstream = usize::MAX;
}

fn main() {
    let args = Args::parse();
    quiet_panics();
    let mut s = Session::new(&args.out);
    s.rule = "every (old,new) over {a,b} with both lengths <= L (L=4 quick, 6 thorough) x {simple, chunked blk in {0,1,4,64}, suffix, suffix under max_diff_block_size 1 / 2 [/ 3]} x {memory, streaming buf 1024[,4096]}; the SUFFIX builder under a configured max_diff_block_size on every generated pair (1-2 sizes from {1,2,3,4,7,8,16,32} / {0,1,2,5,64,256,2^20,usize::MAX}) and a dedicated stream of equal runs of 21/24/28/32/48/64/96 bytes (exact multiples >= 2x of the block sizes, and not) followed by a deletion / insertion / replacement / move / repeat / two deletions / changed run, each under ALL of {1,2,3,4,7,8,16,32} (+ 0 / usize::MAX); LARGE BLOCKS (quick: one pair per family; thorough: 40 KB / 70 KB / 200 KB each): incompressible extra block of 16383..65537 bytes around the 16 / 32 / 64 KiB boundaries (3 sizes quick, 13 thorough), 40 000 noise bytes appended / prepended / inserted, 70 144 (thorough 200 192 = 256k) noise bytes inserted, incompressible diff block (every 3rd byte of 96 000 noise bytes changed; thorough also 160 000 / 4th, 200 000 / 8th), compressible diff block (70 000 [200 000] noise bytes with 3 point edits), compressible extra block (204 800 bytes: one byte / periodic / dictionary words [/ 4-letter noise]), 200 000 unrelated noise bytes, 7 500 [9 000] control entries (control block > 32 KiB as stored; quick: oracle only, thorough: also K) and a hand-made consistent patch of 4 500 [9 000] entries with 48-bit seeks (K + length clause) — through every builder, the memory patcher and streaming buffers 1024 / 65536 / 4096 [/ 1 / 16384 / 2^20] (quick: K lines for memory + 1024 + 65536, oracle on all), with blocks of >= 4096 bytes written as references (@c @d @e @p @zc @zd @ze, @sa) on request lines and byte strings of >= 16384 bytes answered as length + FNV-1a 64; LONG SHARED RUNS: old and new sharing a prefix and / or suffix of exactly T-1 / T / T+1 bytes for T in {256, 1 KiB, 4 KiB, 8 KiB, 64 KiB} [thorough: + 512, 2 KiB, 16 KiB, 32 KiB] (the bytes next to the run differ) with unshared parts of 1 / 2-8 / 40 / 300 / 5000 bytes [/ the run length] in 17 shapes — new = old, pure leading / trailing deletion / insertion (one side a proper suffix / prefix of the other), deletion / insertion / replacement (same and other length) in the middle with |prefix| + |suffix| = the length, one side an infix of the other, the run a suffix of one side and a prefix of the other, replacement before / behind the run, two edits / two deletions between the shared ends — over noise, 2- and 4-letter alphabets, periodic contents (period 1 / 2 / 7 / 256; also old = u^n, new = u^m where shared prefix and suffix overlap) and dictionary words, every builder incl. the suffix builder under a block size, memory patcher + streaming buffers 1024 / 65536 / 4096 + short-reading source (quick: all three lengths below 4 KiB, T and one neighbour from 4 KiB on; 64 KiB row: K lines for 3 shapes, oracle only on the others; periodic contents above 4 KiB oracle only, none above 16 KiB — bsdiff's scan is quadratic there); seeded random pairs to 4 KiB (edits: insert/delete/move/repeat/replace/point, empty old, empty new, equal, unrelated; alphabets 2, 4, 256) incl. a dedicated stream whose change is followed by >= 264 unchanged bytes with the inserted length a multiple of 256 or a periodic tail (the only way the chunked builder re-synchronises after an extra run), match runs of length 3/4/5 around the >=4 threshold, block sizes around the match length; mutated patches (sizes +-1, truncated blocks, seeks before 0 / beyond EOF / saturating, dropped / appended / invalid / partial control records) for the length clause. every built patch also as WHOLE BYTES (buildp: model-assembled header + framing vs the builder's bytes; applyp through apply_patch_memory and parse_from_patch + apply_patch_from_data) and through a short-reading old source (read() returns <= 1 / 1,2,3 / 7,1 / three random sizes / unbounded bytes per call); byte-level damage of real patches (header truncated at 0..31, body truncated, signature bit, each size field set to -1 / 0 / +-1 / 1e9 / 1e9+1 / i64::MIN / i64::MAX / the bytes available, sizes swapped, diff swallowing the extra block, trailing garbage, body bit flip) for the length clause on bytes and memory == streaming; hand-made headers around every validate comparison; the private offtout / offtin at i64::MIN, MIN+1, MAX, +-0, +-2^56, +-2^62 and random magnitudes of every bit length; unseekable source; default buffer; READER STATE: every built patch (non-empty old) through the streaming patcher over a reader handed to ZbsdiffPatcher::new at a NON-ZERO stream position — 1 / 2 / 16 / middle / last byte / end / end+1 / end+7 (old >= 4 KiB: 1 / middle / end) — reached by Cursor::set_position, by reading that many bytes from a Cursor, by reading them through a 64-byte BufReader (inner cursor ahead of the logical position) and by BufReader::seek (all four ways at positions 1 and end, one rotating way at the others), result must be new; one `apply spos` K line per build (short-reading source at one position of the family; one build in three from 2 KiB of old on), and on mutated patches streaming at a start position == memory. non-trivial = built patch has a diff run or >= 2 control entries (or is a mutated patch / codec value / header probe; short-read cases need a non-empty old); distinct = (builder, patcher, old, new) text".into();
    let mut rng = Rng::new(args.seed);
    let mut st = St { old: vec![], new: vec![], last: None, patch: None, quiet: false };

    if let Some(p) = &args.replay {
        // a replay file holds request lines; re-evaluate the oracle on what they describe
        let lines = read_case(p);
        let mut cur_build: Option<String> = None;
        let mut cur_sa: Option<String> = None;
        for l in lines {
            let r = emit(&mut s, &mut st, l.clone());
            println!("impl  {l} -> {}", if r.len() > 200 { &r[..200] } else { &r });
            let toks: Vec<&str> = l.split(' ').collect();
            match toks.as_slice() {
                ["begin", ..] => cur_sa = None,
                ["sa", _] => cur_sa = Some(l.clone()),
                _ => {}
            }
            match toks.as_slice() {
                ["build", kind, rest @ ..] => {
                    cur_build = Some(l.clone());
                    let blk = if *kind == "chunked" || *kind == "suffixb" { rest.first().and_then(|x| x.parse().ok()).unwrap_or(1 << 20) } else { 1 << 20 };
                    // (a large case: the `sa` line its `@sa` refers to goes with the pair)
                    let mut ctx = vec![format!("begin {} {}", hex(&st.old), hex(&st.new))];
                    ctx.extend(cur_sa.iter().cloned());
                    ctx.push(l.clone());
                    match build(kind, blk, &st.old, &st.new) {
                        Err(e) => {
                            let shp = if st.new.is_empty() { "empty-new" } else if st.old.is_empty() { "empty-old" } else { "nonempty" };
                            s.oracle_fail(&format!("build-fails:{kind}:{shp}"), &format!("{kind} returned {e} (|old|={} |new|={})", st.old.len(), st.new.len()), &ctx);
                        }
                        Ok(p) => {
                            let shp = split_patch(&p).map(|b| shape(&b.ctl)).unwrap_or("unparsable");
                            for m in [Mode::Mem, Mode::Stream(1024), Mode::Stream(4096)] {
                                match apply(m, &st.old, &p) {
                                    Ok(v) if v == st.new => {}
                                    Ok(v) => {
                                        let what = if v.len() != st.new.len() { "wrong-length" } else { "wrong-bytes" };
                                        let pos = v.iter().zip(st.new.iter()).position(|(a, b)| a != b).unwrap_or(v.len().min(st.new.len()));
                                        s.oracle_fail(&format!("{what}:{kind}:{shp}"), &format!("{kind} patch applied by {} returns Ok with {} bytes differing from new at offset {pos} (|old|={} |new|={})", mode_txt(m), v.len(), st.old.len(), st.new.len()), &ctx);
                                    }
                                    Err(e) => s.oracle_fail(&format!("apply-fails:{kind}:{shp}"), &format!("{kind} patch rejected by {}: {e}", mode_txt(m)), &ctx),
                                }
                            }
                        }
                    }
                    s.case(Some(&l));
                }
                ["applyp", _, rest @ ..] => {
                    // length clause on explicit patch BYTES
                    let ph = if toks[1] == "stream" { rest.get(1) } else { rest.first() };
                    if let (Some(ph), false) = (ph.and_then(|x| tokb(&st, x)), r.starts_with("err") || r == "bad-op" || r == "panic") {
                        let n = resp_len(&r);
                        let stated = if ph.len() >= 32 { Some(i64::from_le_bytes(ph[24..32].try_into().unwrap())) } else { None };
                        if stated != Some(n) {
                            s.oracle_fail("ok-length-bytes:replay", &format!("Ok output of {n} bytes, header says {stated:?}"), &[format!("begin {} {}", hex(&st.old), hex(&st.new)), l.clone()]);
                        }
                    }
                    if r == "panic" {
                        s.oracle_fail("apply-panics-bytes:replay", "panic", &[l.clone()]);
                    }
                    s.case(Some(&l));
                }
                ["apply", ..] => {
                    // reader state: the streaming patcher at a start position == the memory patcher (and
                    // the std readers at that position) on the same blocks
                    if let ["apply", "spos", pos, _ks, buf, c, d, e, o] = toks.as_slice() {
                        if let (Some(c), Some(d), Some(e), Ok(o), Ok(pos), Ok(buf)) = (tokb(&st, c), tokb(&st, d), tokb(&st, e), o.parse::<i64>(), pos.parse::<u64>(), buf.parse::<usize>()) {
                            let p = make_patch(&c, &d, &e, o);
                            let mem = apply_resp(apply_p(Mode::Mem, &st.old, &p));
                            let mut all = vec![("short-reading source".to_string(), r.clone())];
                            for pre in PRES { all.push((format!("{pre:?} reader"), apply_resp(apply_std_at(pre, pos, buf, &st.old, &p)))); }
                            for (how, got) in all {
                                if got != mem && !(got.starts_with("err") && mem.starts_with("err")) {
                                    println!("oracle  memory patcher -> {}", if mem.len() > 200 { &mem[..200] } else { &mem });
                                    println!("oracle  streaming patcher over a {how} at stream position {pos} -> {}", if got.len() > 200 { &got[..200] } else { &got });
                                    s.oracle_fail("start-position-disagrees", &format!("streaming patcher over a {how} handed over at stream position {pos} of {} differs from the memory patcher on the same patch", st.old.len()), &[format!("begin {} {}", hex(&st.old), hex(&st.new)), l.clone()]);
                                    break;
                                }
                            }
                        }
                    }
                    // length clause on an explicit patch
                    let out: Option<i64> = toks.last().and_then(|x| x.parse().ok());
                    if let (Some(out), false) = (out, r.starts_with("err") || r == "bad-op" || r == "panic") {
                        let n = resp_len(&r);
                        if n != out {
                            let sig = if toks[1] == "streamc" { "stream-size-from-caller" } else { "ok-length:replay" };
                            s.oracle_fail(sig, &format!("Ok output of {n} bytes, header says {out}"), &[format!("begin {} {}", hex(&st.old), hex(&st.new)), l.clone()]);
                        }
                    }
                    if r == "panic" {
                        s.oracle_fail("apply-panics:replay", "panic", &[l.clone()]);
                    }
                    s.case(Some(&l));
                }
                _ => {}
            }
        }
        let _ = cur_build;
        s.finish();
        return;
    }

    let thorough = args.thorough();
    let bufs = if thorough { vec![1024, 4096, 1] } else { vec![1024] };
    let mut cx = Ctx { s: &mut s, st, bufs, mutate: true, sblks: vec![], big_replays: 6, klight: false, kstream: usize::MAX, kpstream: usize::MAX, sread_coarse_from: DIGEST_MIN };

    // 1. exhaustive over {a,b}
    let lmax = if thorough { 6 } else { 4 };
    let mut words: Vec<Vec<u8>> = vec![vec![]];
    let mut frontier: Vec<Vec<u8>> = vec![vec![]];
    for _ in 0..lmax {
        let mut next = vec![];
        for w in &frontier {
            for c in [b'a', b'b'] {
                let mut x = w.clone();
                x.push(c);
                next.push(x);
            }
        }
        words.extend(next.iter().cloned());
        frontier = next;
    }
    cx.mutate = false;
    // the suffix builder also under max_diff_block_size 1 / 2 (/ 3): every diff run of these pairs
    // that is an exact multiple >= 2x of a block size is covered
    cx.sblks = if thorough { vec![1, 2, 3] } else { vec![1, 2] };
    for o in &words {
        for n in &words {
            pair(&mut cx, &mut rng, o, n, &[0, 1, 4, 64], "exhaustive");
        }
    }
    cx.mutate = true;
    cx.sblks = vec![2, 4];

    // 2. threshold cases: common prefix of exactly k bytes (k around 4), then divergence, and
    //    block sizes around k
    for k in 0..=9usize {
        for tail in [0usize, 1, 5] {
            let p = rand_bytes(&mut rng, k, 0);
            let mut o = p.clone(); o.extend(vec![0x11; tail]);
            let mut n = p.clone(); n.extend(vec![0x22; tail]);
            pair(&mut cx, &mut rng, &o, &n, &[0, 3, 4, 5, 64], "threshold");
        }
    }

    // 3. dedicated stream: change followed by >= 264 unchanged bytes, chunked re-synchronises
    let n_resync = if thorough { 160 } else { 40 };
    for i in 0..n_resync {
        let alpha = *rng.pick(&[0u64, 2, 4]);
        let plen = if i % 5 == 0 { 0 } else { rng.range(4, 40) as usize };
        let p = rand_bytes(&mut rng, plen, alpha);
        let tlen = rng.range(264, 700) as usize;
        let (o, n) = match i % 4 {
            // insertion of exactly 256*k bytes
            0 | 1 => {
                let t = rand_bytes(&mut rng, tlen, alpha);
                let k = rng.range(1, 2) as usize;
                let x: Vec<u8> = if i % 4 == 0 { vec![b'#'; 256 * k] } else { rand_bytes(&mut rng, 256 * k, alpha) };
                ([p.clone(), t.clone()].concat(), [p.clone(), x, t].concat())
            }
            // periodic tail (period divides 256): any inserted length re-synchronises
            2 => {
                let per = *rng.pick(&[1usize, 2, 4, 8]);
                let unit = rand_bytes(&mut rng, per, alpha);
                let t: Vec<u8> = (0..tlen).map(|j| unit[j % per]).collect();
                let x = vec![b'#'; rng.range(1, 9) as usize];
                ([p.clone(), t.clone()].concat(), [p.clone(), x, t].concat())
            }
            // replacement: old has Y where new has X (|X| = 256)
            _ => {
                let t = rand_bytes(&mut rng, tlen, alpha);
                let y = vec![b'%'; 256];
                let x = vec![b'#'; 256];
                // old_pos must sit on t after the extra run: old = p ‖ t, new = p ‖ x ‖ t (y unused when empty)
                let _ = y;
                ([p.clone(), t.clone()].concat(), [p.clone(), x.clone(), t[..tlen / 2].to_vec(), x, t[tlen / 2..].to_vec()].concat())
            }
        };
        let blks: Vec<usize> = vec![*rng.pick(&[4usize, 64, 1 << 20]), *rng.pick(&[5usize, 100, 256])];
        cx.sblks = vec![*rng.pick(&SBLKS), *rng.pick(&SBLKS)];
        pair(&mut cx, &mut rng, &o, &n, &blks, "resync");
    }

    // 3a. the SUFFIX builder under a configured max_diff_block_size (with_max_diff_block_size(m).build()):
    //     equal runs whose length is an exact multiple (>= 2x) of m — and of none — followed by a
    //     deletion / insertion / replacement / move / repeat, so that the entry after the run carries
    //     extra bytes or a seek. Every m in {1,2,3,4,7,8,16,32} (+ 0 / usize::MAX) on every pair.
    //     (seeded change C16-3b — entries split by block size, extra/seek dropped on exact multiples —
    //     slipped through while only the chunked builder was given block sizes)
    let n_runs = if thorough { 160 } else { 32 };
    let run_lens = [21usize, 24, 28, 32, 48, 64, 96];
    for i in 0..n_runs {
        let noise = rng.chance(1, 2);
        let seg = |rng: &mut Rng, n: usize, base: u8| -> Vec<u8> {
            if noise { rng.bytes(n) } else { (0..n).map(|j| base.wrapping_add(j as u8)).collect() }
        };
        let (la, lc, ld) = (*rng.pick(&run_lens), *rng.pick(&run_lens), *rng.pick(&run_lens));
        let lb = *rng.pick(&[1usize, 5, 12, 32, 33, 64]);
        let lx = *rng.pick(&[1usize, 3, 12, 32, 100]);
        let a = seg(&mut rng, la, 0x10);
        let b = seg(&mut rng, lb, 0x40);
        let c = seg(&mut rng, lc, 0x80);
        let d = seg(&mut rng, ld, 0xb0);
        let x = seg(&mut rng, lx, 0xd8);
        let cat = |v: &[&Vec<u8>]| -> Vec<u8> { v.iter().flat_map(|p| p.iter().copied()).collect() };
        let (shape_name, o, n) = match i % 8 {
            0 => ("delete", cat(&[&a, &b, &c]), cat(&[&a, &c])),
            1 => ("insert", cat(&[&a, &c]), cat(&[&a, &x, &c])),
            2 => ("replace", cat(&[&a, &b, &c]), cat(&[&a, &x, &c])),
            3 => ("move", cat(&[&a, &c, &d]), cat(&[&a, &d, &c])),
            4 => ("repeat", cat(&[&a, &c]), cat(&[&a, &c, &c])),
            5 => ("two-deletions", cat(&[&a, &b, &c, &x, &d]), cat(&[&a, &c, &d])),
            6 => {
                // point changes inside the run (non-zero diff bytes), then a deletion
                let mut a2 = a.clone();
                let at = rng.below(la as u64) as usize;
                a2[at] = a2[at].wrapping_add(1 + rng.below(200) as u8);
                ("changed-run-delete", cat(&[&a, &b, &c]), cat(&[&a2, &c]))
            }
            _ => ("delete-insert", cat(&[&a, &b, &c, &d]), cat(&[&a, &c, &x, &d])),
        };
        cx.s.tally(&format!("runs.{shape_name}"));
        cx.sblks = SBLKS.to_vec();
        if i % 4 == 0 { cx.sblks.push(0); }
        if i % 4 == 2 { cx.sblks.push(usize::MAX); }
        let blks = [*rng.pick(&SBLKS)];
        pair(&mut cx, &mut rng, &o, &n, &blks, "suffix-block-size");
    }

    // 3b. multi-chunk extra blocks: an inserted run longer than (and not a multiple of) the
    //     streaming buffer, followed by further entries that carry extra bytes of their own — the
    //     shape in which a streaming patcher that mis-sizes one buffer refill steals bytes from a
    //     later extra block (seeded change C16-3 slipped through before this stream existed)
    let n_multi = if thorough { 24 } else { 8 };
    for i in 0..n_multi {
        let bf = cx.bufs[i % cx.bufs.len()].max(64);
        let seg = |rng: &mut Rng, n: usize| rand_bytes(rng, n, 0);
        let (la, lb, lc) = (rng.range(200, 500) as usize, rng.range(200, 500) as usize, rng.range(200, 500) as usize);
        let a = seg(&mut rng, la);
        let b = seg(&mut rng, lb);
        let c = seg(&mut rng, lc);
        let l1 = match i % 4 { 0 => bf + 1, 1 => bf + bf / 2 + 7, 2 => 2 * bf + 300, _ => 3 * bf - 1 };
        let l2 = *rng.pick(&[1usize, 17, 100, 255]);
        let x = seg(&mut rng, l1);
        let y = seg(&mut rng, l2);
        let o = [a.clone(), b.clone(), c.clone()].concat();
        let n = [a, x, b, y, c].concat();
        cx.sblks = vec![*rng.pick(&SBLKS)];
        pair(&mut cx, &mut rng, &o, &n, &[64, 1 << 20], "multi-chunk-extra");
    }

    // 4. random edit pairs
    let n_rand = if thorough { 1500 } else { 260 };
    for i in 0..n_rand {
        let alpha = *rng.pick(&[0u64, 0, 2, 4]);
        let max = match rng.below(10) { 0 => if thorough { 4096 } else { 2048 }, 1 | 2 => 700, 3 | 4 | 5 => 120, _ => 24 };
        let olen = rng.below(max as u64 + 1) as usize;
        let old = match rng.below(6) { 0 => vec![rng.byte(); olen], _ => rand_bytes(&mut rng, olen, alpha) };
        let new = match i % 9 {
            0 => vec![],                                            // empty new
            1 => old.clone(),                                       // equal
            2 => { let n = rng.below(max as u64 + 1) as usize; rand_bytes(&mut rng, n, alpha) } // unrelated
            _ => { let e = rng.range(1, 6) as usize; edit(&mut rng, &old, alpha, e) }
        };
        let old = if i % 11 == 3 { vec![] } else { old };             // empty old
        let blks: Vec<usize> = vec![*rng.pick(&[0usize, 1, 4, 64]), *rng.pick(&[4usize, 7, 64, 1 << 20])];
        cx.sblks = vec![*rng.pick(&SBLKS), *rng.pick(&[0usize, 1, 2, 5, 64, 256, 1 << 20, usize::MAX])];
        pair(&mut cx, &mut rng, &old, &new, &blks, "random");
    }
    cx.sblks = vec![];

    // 4a. LARGE BLOCKS: control / diff / extra blocks of 16 KiB .. 200 KB, incompressible (the stored
    //     block is as long as the inflated one) and compressible, through every builder, the memory
    //     patcher and the streaming patcher with buffers below / around / above the block sizes.
    //     (seeded change C16-1b — decompress_zlib through a fixed scratch buffer, stopping at the first
    //     short read: any block whose COMPRESSED size exceeds 32 KiB truncated — slipped through while
    //     no generated pair exceeded 4 KiB)
    large_blocks(&mut cx, &mut rng, thorough);
    // 4b. API probe: streaming patcher built with an expected size other than the header's
    for _ in 0..(if thorough { 40 } else { 8 }) {
        let nlen = rng.range(1, 40) as usize;
        let new = rng.bytes(nlen);
        let olen = rng.below(20) as usize;
        let old = rng.bytes(olen);
        let begin = format!("begin {} {}", hex(&old), hex(&new));
        emit(cx.s, &mut cx.st, begin.clone());
        let c = ctl_bytes(&[(0, nlen as i64, 0)]);
        for (caller, hdr) in [(nlen, nlen as i64), (nlen, nlen as i64 + 2), (nlen, nlen as i64 - 1), (nlen + 2, nlen as i64 + 2), (nlen + 1, nlen as i64)] {
            let areq = format!("apply streamc {caller} 1024 {} - {} {hdr}", hex(&c), hex(&new));
            let r = emit(cx.s, &mut cx.st, areq.clone());
            cx.s.tally("probe.stream-caller-size");
            cx.s.case(Some(&areq));
            if !(r.starts_with("err") || r == "panic" || r == "bad-op") {
                let n = if r == "-" { 0 } else { r.len() as i64 / 2 };
                if n != hdr {
                    cx.s.oracle_fail("stream-size-from-caller", &format!("ZbsdiffPatcher::new(old, {caller}).apply_patch_from_data returns Ok with {n} bytes for a patch whose header says {hdr}: the header's output_size is never compared"), &[begin.clone(), areq.clone()]);
                }
            }
        }
    }

    // 4c. control-entry codec at the i64 limits (K on the crate's private offtout / offtin through
    //     ControlBlock::{to_compressed, from_compressed}); O: every value but i64::MIN survives
    {
        emit(cx.s, &mut cx.st, "begin - -".to_string());
        let mut vals: Vec<i64> = vec![i64::MIN, i64::MIN + 1, i64::MAX, i64::MAX - 1, 0, 1, -1, 127, 128, -128, 255, 256, -256,
            1 << 56, -(1 << 56), (1 << 56) - 1, 1 << 62, -(1 << 62), (1i64 << 62) + 12345, 10_000_000, 10_000_001, -10_000_001];
        for _ in 0..(if thorough { 400 } else { 60 }) {
            let sh = rng.below(64);
            vals.push((rng.next() >> sh) as i64);
            vals.push(((rng.next() >> sh) as i64).wrapping_neg());
        }
        for v in vals {
            let enc = emit(cx.s, &mut cx.st, format!("codec enc {v}"));
            cx.s.tally("codec.enc");
            if enc.len() == 16 {
                let dec = emit(cx.s, &mut cx.st, format!("codec dec {enc}"));
                cx.s.tally("codec.dec");
                if v != i64::MIN && dec != v.to_string() {
                    cx.s.oracle_fail("codec-roundtrip", &format!("seek {v} is written as {enc} and read back as {dec}"), &[format!("codec enc {v}"), format!("codec dec {enc}")]);
                }
            }
            cx.s.case(Some(&format!("codec|{v}")));
        }
        let mut raws: Vec<[u8; 8]> = vec![[0, 0, 0, 0, 0, 0, 0, 0x80], [0xff; 8], [0xff, 0xff, 0xff, 0xff, 0xff, 0xff, 0xff, 0x7f], [0, 0, 0, 0, 0, 0, 0, 0x7f], [1, 0, 0, 0, 0, 0, 0, 0x80]];
        for _ in 0..(if thorough { 200 } else { 30 }) {
            let mut b = [0u8; 8];
            b.copy_from_slice(&rng.bytes(8));
            raws.push(b);
        }
        for b in raws {
            emit(cx.s, &mut cx.st, format!("codec dec {}", hex(&b)));
            cx.s.tally("codec.dec");
            cx.s.case(Some(&format!("codec-raw|{}", hex(&b))));
        }
    }
    // 4d. old source that cannot seek, default buffer size, header reader on hand-made prefixes
    {
        let new = rng.bytes(40);
        let old = rng.bytes(30);
        emit(cx.s, &mut cx.st, format!("begin {} {}", hex(&old), hex(&new)));
        let c = ctl_bytes(&[(20, 20, -5)]);
        let d = rng.bytes(20);
        emit(cx.s, &mut cx.st, format!("apply noseek 1024 {} {} {} 40", hex(&c), hex(&d), hex(&new[..20])));
        emit(cx.s, &mut cx.st, format!("apply streamd {} {} {} 40", hex(&c), hex(&d), hex(&new[..20])));
        emit(cx.s, &mut cx.st, format!("apply sread 1 1024 {} {} {} 40", hex(&c), hex(&d), hex(&new[..20])));
        emit(cx.s, &mut cx.st, format!("apply sread 3,1 1024 {} {} {} 41", hex(&c), hex(&d), hex(&new[..20])));
        for pos in [1u64, 16, 29, 30, 31, 1 << 40] {
            emit(cx.s, &mut cx.st, format!("apply spos {pos} 3,1 1024 {} {} {} 40", hex(&c), hex(&d), hex(&new[..20])));
        }
        cx.s.case(None);
        for (cs, ds, os) in [(0i64, 0i64, 0i64), (5, 5, 5), (-1, 0, 0), (0, -1, 0), (0, 0, -1), (1_000_000_000, 0, 0), (1_000_000_001, 0, 0),
            (0, 1_000_000_001, 0), (0, 0, 1_000_000_001), (600_000_000, 400_000_000, 1), (600_000_000, 400_000_001, 1), (i64::MAX, i64::MAX, 0), (i64::MIN, 0, 0), (0, 0, i64::MIN), (0, 0, 1_000_000_000)] {
            let mut p = vec![];
            p.extend_from_slice(&ZBSDIFF1_SIGNATURE.to_le_bytes());
            p.extend_from_slice(&cs.to_le_bytes());
            p.extend_from_slice(&ds.to_le_bytes());
            p.extend_from_slice(&os.to_le_bytes());
            p.extend(rng.bytes(10));
            let zt = unz_pairs(&cx.st, &p);
            emit(cx.s, &mut cx.st, format!("hdr {}", hex(&p)));
            emit(cx.s, &mut cx.st, format!("container {}", hex(&p)));
            emit(cx.s, &mut cx.st, format!("applyp mem {}{zt}", hex(&p)));
            emit(cx.s, &mut cx.st, format!("applyp stream 1024 {}{zt}", hex(&p)));
            cx.s.tally("probe.header-fields");
            cx.s.case(Some(&format!("hdr|{cs}|{ds}|{os}")));
        }
    }

    // 5. header guard: output size above the 1 GB limit is refused by both patchers
    {
        let begin = "begin 6162 6162".to_string();
        emit(cx.s, &mut cx.st, begin);
        let c = ctl_bytes(&[(0, 2, 0)]);
        for out in [1_000_000_000i64, 1_000_000_001] {
            for m in ["mem", "stream 1024"] {
                emit(cx.s, &mut cx.st, format!("apply {m} {} - 6162 {out}", hex(&c)));
                cx.s.case(None);
            }
        }
    }

    // 6. LONG SHARED RUNS: old and new share a prefix and / or suffix of exactly 256 / 1 KiB / 4 KiB /
    //    8 KiB / 64 KiB bytes (and one byte less / more), with an empty / tiny / large unshared part:
    //    new = old, pure leading / trailing deletion / insertion (one side a proper suffix / prefix of
    //    the other), deletion / insertion / replacement in the middle, one side an infix of the other,
    //    the run a suffix of one side and a prefix of the other, replacement before / behind the run,
    //    two edits between the shared ends — noise, small alphabets, periodic (shared prefix and suffix
    //    overlap) and dictionary-word contents, every builder, both patchers. The bytes next to a
    //    shared run differ, so the shared length is exact.
    //    (seeded change C16-2c — the suffix builder trimming >= 4 KiB of shared prefix + suffix into
    //    zero-diff entries and losing the seek onto the suffix when nothing precedes it: new a proper
    //    suffix of old with >= 4096 bytes — slipped through while random pairs ended at 2 KiB and the
    //    large pairs were insertions / in-place changes only. Last in the run so that the streams
    //    before it keep their random choices; ascending sizes, so the first failure is the smallest.)
    shared_runs(&mut cx, &mut rng, thorough);
    s.finish();
}
