//! C16 — ZBSDIFF: a patch built by any builder, applied to old by either patcher, yields new;
//! applying any patch yields exactly header.output_size bytes or fails.
//!
//! K: the real builders / patchers vs the Lean model (`drv_c16`) on the same request lines.
//!    Observables: control triples, inflated diff / extra blocks, applied output, error class.
//! O: apply(old, build(old,new)) == new for memory and streaming patchers (all buffer sizes),
//!    Ok-length == header.output_size for arbitrary (mutated) patches, memory == streaming.
//!
//! Protocol (stateful; a case starts with `begin`):
//!   begin <old> <new>                          -> ok
//!   build simple                               -> ctl=d,e,s;… raw=<inflated control bytes> diff=<hex> extra=<hex> out=<n> | err:<class>
//!   build chunked <max_diff_block_size>        -> same
//!   build suffix <sa: comma separated | ->     -> same   (sa = suffix array of old)
//!   apply mem <ctl-bytes> <diff> <extra> <out> -> <hex> | err:<class>
//!   apply stream <buf> <ctl-bytes> <diff> <extra> <out> -> same
//! `<ctl-bytes>` is the inflated control block (24-byte sign-magnitude records), the blocks are
//! the inflated diff / extra blocks, all recovered from the patch BYTES the builder returned.
use cascette_formats::zbsdiff::{
    ControlBlock, ZBSDIFF1_SIGNATURE, ZbsdiffBuilder, ZbsdiffError, ZbsdiffHeader,
    ZbsdiffPatcher, apply_patch_memory, compress_zlib, decompress_zlib,
};
use std::io::Cursor;
use std::panic::AssertUnwindSafe;
use verif_harness::*;

#[derive(Clone, Debug, PartialEq)]
struct Blocks {
    /// inflated control block exactly as the builder wrote it
    raw: Vec<u8>,
    ctl: Vec<(i64, i64, i64)>,
    diff: Vec<u8>,
    extra: Vec<u8>,
    out: i64,
}

fn err_class(e: &ZbsdiffError) -> &'static str {
    match e {
        ZbsdiffError::EmptyControlBlock => "err:empty-ctl",
        ZbsdiffError::InvalidControlEntry { .. } | ZbsdiffError::ApplicationFailed { .. } => "err:bad-entry",
        ZbsdiffError::InsufficientData { .. } => "err:short",
        ZbsdiffError::CompressionError(io) if io.kind() == std::io::ErrorKind::UnexpectedEof => "err:short",
        ZbsdiffError::SizeMismatch { .. } => "err:size",
        ZbsdiffError::CorruptPatch { .. } => "err:ctl-trunc",
        ZbsdiffError::InvalidSize { .. } | ZbsdiffError::SizeTooLarge(_) | ZbsdiffError::InvalidSignature { .. } => "err:header",
        _ => "err:other",
    }
}

/// sign-magnitude (bsdiff offtout), written here independently of the crate's private encoder
fn offtout(v: i64) -> [u8; 8] {
    let mut b = v.unsigned_abs().to_le_bytes();
    if v < 0 {
        b[7] |= 0x80;
    }
    b
}

fn ctl_bytes(ctl: &[(i64, i64, i64)]) -> Vec<u8> {
    let mut v = vec![];
    for (d, e, s) in ctl {
        v.extend_from_slice(&offtout(*d));
        v.extend_from_slice(&offtout(*e));
        v.extend_from_slice(&offtout(*s));
    }
    v
}

/// recover the three blocks from the patch bytes (only pub API: header, from_compressed, zlib)
fn split_patch(patch: &[u8]) -> Result<Blocks, String> {
    let h = ZbsdiffHeader::parse_from_patch(patch).map_err(|e| format!("header: {e}"))?;
    let c0 = 32usize;
    let c1 = c0 + h.control_size as usize;
    let d1 = c1 + h.diff_size as usize;
    if d1 > patch.len() {
        return Err("patch shorter than header sizes".into());
    }
    let cb = ControlBlock::from_compressed(&patch[c0..c1]).map_err(|e| format!("control: {e}"))?;
    // the raw inflated control bytes must be exactly the records (checked against our encoder)
    let raw = decompress_zlib(&patch[c0..c1]).map_err(|e| format!("control zlib: {e}"))?;
    let ctl: Vec<(i64, i64, i64)> = cb.entries.iter().map(|e| (e.diff_size, e.extra_size, e.seek_offset)).collect();
    if raw != ctl_bytes(&ctl) {
        return Err("control block bytes are not the sign-magnitude records of its entries".into());
    }
    let diff = decompress_zlib(&patch[c1..d1]).map_err(|e| format!("diff zlib: {e}"))?;
    let extra = decompress_zlib(&patch[d1..]).map_err(|e| format!("extra zlib: {e}"))?;
    Ok(Blocks { raw, ctl, diff, extra, out: h.output_size })
}

fn fmt_blocks(b: &Blocks) -> String {
    let c: Vec<String> = b.ctl.iter().map(|(d, e, s)| format!("{d},{e},{s}")).collect();
    format!("ctl={} raw={} diff={} extra={} out={}", if c.is_empty() { "-".to_string() } else { c.join(";") }, hex(&b.raw), hex(&b.diff), hex(&b.extra), b.out)
}

/// assemble patch bytes from raw blocks (header written by hand, little-endian)
fn make_patch(ctl_raw: &[u8], diff: &[u8], extra: &[u8], out: i64) -> Vec<u8> {
    let c = compress_zlib(ctl_raw).expect("zlib");
    let d = compress_zlib(diff).expect("zlib");
    let e = compress_zlib(extra).expect("zlib");
    let mut p = vec![];
    p.extend_from_slice(&ZBSDIFF1_SIGNATURE.to_le_bytes());
    p.extend_from_slice(&(c.len() as i64).to_le_bytes());
    p.extend_from_slice(&(d.len() as i64).to_le_bytes());
    p.extend_from_slice(&out.to_le_bytes());
    p.extend_from_slice(&c);
    p.extend_from_slice(&d);
    p.extend_from_slice(&e);
    p
}

#[derive(Clone, Copy, Debug, PartialEq)]
enum Mode {
    Mem,
    Stream(usize),
}

fn mode_txt(m: Mode) -> String {
    match m {
        Mode::Mem => "mem".into(),
        Mode::Stream(b) => format!("stream {b}"),
    }
}

fn apply(mode: Mode, old: &[u8], patch: &[u8]) -> Result<Vec<u8>, String> {
    let r = catch(AssertUnwindSafe(|| match mode {
        Mode::Mem => apply_patch_memory(old, patch),
        Mode::Stream(buf) => {
            // documented use: output size taken from the patch header
            let h = ZbsdiffHeader::parse_from_patch(patch)?;
            ZbsdiffPatcher::new(Cursor::new(old.to_vec()), h.output_size as usize)
                .with_buffer_size(buf)
                .apply_patch_from_data(patch)
        }
    }));
    match r {
        Err(_) => Err("panic".into()),
        Ok(Ok(v)) => Ok(v),
        Ok(Err(e)) => Err(err_class(&e).to_string()),
    }
}

fn build(kind: &str, blk: usize, old: &[u8], new: &[u8]) -> Result<Vec<u8>, String> {
    let r = catch(AssertUnwindSafe(|| {
        let b = ZbsdiffBuilder::new(old.to_vec(), new.to_vec()).with_max_diff_block_size(blk);
        match kind {
            "simple" => b.build_simple_patch(),
            "chunked" => b.build_chunked_patch(),
            _ => b.build(),
        }
    }));
    match r {
        Err(_) => Err("panic".into()),
        Ok(Ok(v)) => Ok(v),
        Ok(Err(e)) => Err(err_class(&e).to_string()),
    }
}

fn suffix_array(old: &[u8]) -> Vec<usize> {
    let mut idx: Vec<usize> = (0..old.len()).collect();
    idx.sort_by(|&a, &b| old[a..].cmp(&old[b..]));
    idx
}

struct St {
    old: Vec<u8>,
    new: Vec<u8>,
}

fn run_line(st: &mut St, toks: &[&str]) -> Option<String> {
    Some(match toks {
        ["begin", o, n] => {
            st.old = unhex(o)?;
            st.new = unhex(n)?;
            "ok".into()
        }
        ["build", "simple"] => build_resp(build("simple", 1 << 20, &st.old, &st.new)),
        ["build", "chunked", blk] => build_resp(build("chunked", blk.parse().ok()?, &st.old, &st.new)),
        ["build", "suffix", _sa] => build_resp(build("suffix", 1 << 20, &st.old, &st.new)),
        ["apply", "mem", c, d, e, out] => {
            let p = make_patch(&unhex(c)?, &unhex(d)?, &unhex(e)?, out.parse().ok()?);
            apply_resp(apply(Mode::Mem, &st.old, &p))
        }
        ["apply", "stream", buf, c, d, e, out] => {
            let p = make_patch(&unhex(c)?, &unhex(d)?, &unhex(e)?, out.parse().ok()?);
            apply_resp(apply(Mode::Stream(buf.parse().ok()?), &st.old, &p))
        }
        ["apply", "streamc", caller, buf, c, d, e, out] => {
            // the caller-supplied expected size differs from the header's (API probe)
            let p = make_patch(&unhex(c)?, &unhex(d)?, &unhex(e)?, out.parse().ok()?);
            apply_resp(apply_stream_caller(caller.parse().ok()?, buf.parse().ok()?, &st.old, &p))
        }
        _ => return None,
    })
}

fn apply_stream_caller(caller: usize, buf: usize, old: &[u8], patch: &[u8]) -> Result<Vec<u8>, String> {
    let r = catch(AssertUnwindSafe(|| {
        ZbsdiffPatcher::new(Cursor::new(old.to_vec()), caller).with_buffer_size(buf).apply_patch_from_data(patch)
    }));
    match r {
        Err(_) => Err("panic".into()),
        Ok(Ok(v)) => Ok(v),
        Ok(Err(e)) => Err(err_class(&e).to_string()),
    }
}

fn build_resp(r: Result<Vec<u8>, String>) -> String {
    match r {
        Ok(p) => match split_patch(&p) {
            Ok(b) => fmt_blocks(&b),
            Err(e) => format!("unparsable-patch:{}", e.split(':').next().unwrap_or("")),
        },
        Err(e) => e,
    }
}

fn apply_resp(r: Result<Vec<u8>, String>) -> String {
    match r {
        Ok(v) => hex(&v),
        Err(e) => e,
    }
}

fn emit(s: &mut Session, st: &mut St, req: String) -> String {
    let toks: Vec<&str> = req.split(' ').collect();
    let r = run_line(st, &toks).unwrap_or_else(|| "bad-op".into());
    s.line(&req, &r);
    r
}

// ---------------------------------------------------------------------------------------------
// oracle
// ---------------------------------------------------------------------------------------------

/// shape of a control list, used to keep oracle signatures narrow
fn shape(ctl: &[(i64, i64, i64)]) -> &'static str {
    // an extra-only entry carrying a non-zero seek, followed (later) by an entry with diff bytes
    let mut pending = false;
    for (d, _e, sk) in ctl {
        if *d > 0 && pending {
            return "diff-after-seeking-extra";
        }
        if *d == 0 && *sk != 0 {
            pending = true;
        }
    }
    if ctl.len() <= 1 { "single-entry" } else { "multi-entry" }
}

struct Ctx<'a> {
    s: &'a mut Session,
    st: St,
    bufs: Vec<usize>,
    mutate: bool,
}

/// One (old,new) pair through every builder and patcher. `blks`: chunked block sizes to try.
fn pair(cx: &mut Ctx, rng: &mut Rng, old: &[u8], new: &[u8], blks: &[usize], label: &str) {
    let s = &mut *cx.s;
    let begin = format!("begin {} {}", hex(old), hex(new));
    emit(s, &mut cx.st, begin.clone());
    s.tally(&format!("pairs.{label}"));
    s.tally(&format!("size.new.{}", bucket(new.len())));
    s.tally(&format!("size.old.{}", bucket(old.len())));
    let sa = suffix_array(old);
    let sa_txt = if sa.is_empty() { "-".to_string() } else { sa.iter().map(|x| x.to_string()).collect::<Vec<_>>().join(",") };
    let mut builds: Vec<(String, String)> = vec![("simple".into(), "build simple".into())];
    for b in blks {
        builds.push((format!("chunked:{b}"), format!("build chunked {b}")));
    }
    builds.push(("suffix".into(), format!("build suffix {sa_txt}")));
    for (bname, breq) in builds {
        let kind = bname.split(':').next().unwrap().to_string();
        let blk: usize = bname.split(':').nth(1).map(|x| x.parse().unwrap()).unwrap_or(1 << 20);
        emit(s, &mut cx.st, breq.clone());
        s.tally(&format!("build.{kind}"));
        let patch = match build(&kind, blk, old, new) {
            Ok(p) => p,
            Err(e) => {
                // the property: every builder produces a patch for every pair
                let shp = if new.is_empty() { "empty-new" } else if old.is_empty() { "empty-old" } else { "nonempty" };
                s.oracle_fail(&format!("build-fails:{kind}:{shp}"), &format!("{bname} returned {e} for |old|={} |new|={}", old.len(), new.len()), &[begin.clone(), breq.clone()]);
                s.case(None);
                s.tally(&format!("build-error.{e}"));
                continue;
            }
        };
        let b = match split_patch(&patch) {
            Ok(b) => b,
            Err(e) => {
                s.oracle_fail(&format!("unparsable-patch:{kind}"), &format!("{bname}: {e}"), &[begin.clone(), breq.clone()]);
                s.case(None);
                continue;
            }
        };
        if b.out != new.len() as i64 {
            s.oracle_fail(&format!("header-size:{kind}"), &format!("{bname}: header.output_size {} != |new| {}", b.out, new.len()), &[begin.clone(), breq.clone()]);
        }
        let shp = shape(&b.ctl);
        s.tally(&format!("shape.{kind}.{shp}"));
        s.tally_n(&format!("entries.{kind}"), b.ctl.len() as u64);
        if b.ctl.iter().any(|c| c.2 < 0) { s.tally(&format!("negative-seek.{kind}")); }
        if b.ctl.iter().any(|c| c.0 > 0) { s.tally(&format!("has-diff.{kind}")); }
        if b.ctl.iter().any(|c| c.0 > 0 && c.1 > 0) { s.tally(&format!("diff-and-extra-entry.{kind}")); }
        let craw = ctl_bytes(&b.ctl);
        let nontrivial = b.ctl.iter().any(|c| c.0 > 0) || b.ctl.len() >= 2;
        let mut modes = vec![Mode::Mem];
        for bf in &cx.bufs { modes.push(Mode::Stream(*bf)); }
        let mut mem_result: Option<Result<Vec<u8>, String>> = None;
        for m in modes {
            // K line: the Lean apply over the same blocks is the independent bspatch
            let areq = format!("apply {} {} {} {} {}", mode_txt(m), hex(&craw), hex(&b.diff), hex(&b.extra), b.out);
            emit(s, &mut cx.st, areq.clone());
            // O: on the patch BYTES the builder returned
            let got = apply(m, old, &patch);
            let mname = match m { Mode::Mem => "mem", Mode::Stream(_) => "stream" };
            s.tally(&format!("apply.{mname}"));
            match &got {
                Ok(v) if v == new => {}
                Ok(v) => {
                    let what = if v.len() != new.len() { "wrong-length" } else { "wrong-bytes" };
                    let pos = v.iter().zip(new.iter()).position(|(a, b)| a != b).unwrap_or(v.len().min(new.len()));
                    s.oracle_fail(&format!("{what}:{kind}:{shp}"), &format!("{bname} patch applied by {} returns Ok with {} bytes differing from new at offset {pos} (|old|={} |new|={})", mode_txt(m), v.len(), old.len(), new.len()), &[begin.clone(), breq.clone(), areq.clone()]);
                }
                Err(e) => {
                    s.oracle_fail(&format!("apply-fails:{kind}:{shp}"), &format!("{bname} patch rejected by {}: {e}", mode_txt(m)), &[begin.clone(), breq.clone(), areq.clone()]);
                }
            }
            if let Ok(v) = &got {
                if v.len() as i64 != b.out {
                    s.oracle_fail(&format!("ok-length:{mname}"), &format!("Ok output of {} bytes, header says {}", v.len(), b.out), &[begin.clone(), breq.clone(), areq.clone()]);
                }
            }
            match (&mem_result, m) {
                (None, Mode::Mem) => mem_result = Some(got.clone()),
                (Some(mr), Mode::Stream(_)) => {
                    if *mr != got {
                        s.oracle_fail("patchers-disagree", &format!("{bname}: memory patcher {:?} vs {} {:?}", mr.as_ref().map(|v| v.len()), mode_txt(m), got.as_ref().map(|v| v.len())), &[begin.clone(), breq.clone(), areq.clone()]);
                    }
                }
                _ => {}
            }
            let key = format!("{bname}|{}|{}|{}", mode_txt(m), hex(old), hex(new));
            s.case(if nontrivial { Some(&key) } else { None });
        }
        // mutated patches: Ok => exactly header.output_size bytes; memory == streaming
        if cx.mutate && rng.chance(1, 3) {
            mutated(s, &mut cx.st, rng, old, &b, &begin);
        }
    }
}

fn bucket(n: usize) -> &'static str {
    match n {
        0 => "0",
        1..=7 => "1-7",
        8..=63 => "8-63",
        64..=263 => "64-263",
        264..=1023 => "264-1023",
        _ => "1024+",
    }
}

/// arbitrary patches derived from a real one: the length clause of the property
fn mutated(s: &mut Session, st: &mut St, rng: &mut Rng, old: &[u8], b: &Blocks, begin: &str) {
    let mut ctl = b.ctl.clone();
    let mut diff = b.diff.clone();
    let mut extra = b.extra.clone();
    let mut out = b.out;
    let mut craw_override: Option<Vec<u8>> = None;
    let kind = rng.below(12);
    let i = if ctl.is_empty() { 0 } else { rng.below(ctl.len() as u64) as usize };
    let name = match kind {
        0 => { out += 1; "out+1" }
        1 => { if out > 0 { out -= 1; } else { out = 3; } "out-1" }
        2 => { if !diff.is_empty() { diff.pop(); } else { diff.push(1); } "diff-trunc" }
        3 => { if !extra.is_empty() { extra.pop(); } else { extra.push(1); } "extra-trunc" }
        4 => { if !ctl.is_empty() { ctl[i].0 += 1 + rng.below(3) as i64; } "ctl-diff+" }
        5 => { if !ctl.is_empty() { ctl[i].1 += 1 + rng.below(3) as i64; } "ctl-extra+" }
        6 => {
            // seeks: backwards past 0, beyond EOF, huge (saturation)
            if !ctl.is_empty() {
                ctl[i].2 = *rng.pick(&[-1i64, -5, -(old.len() as i64) - 3, old.len() as i64, old.len() as i64 + 7, 1, 3, i64::MAX, -i64::MAX, 1 << 62]);
            }
            // keep lengths consistent so that the patch is accepted and the seek is observable
            "ctl-seek"
        }
        7 => { if ctl.len() > 1 { ctl.remove(i); } else { ctl.clear(); } "ctl-drop" }
        8 => { ctl.push((rng.below(4) as i64, rng.below(4) as i64, rng.below(9) as i64 - 4)); diff.extend(rng.bytes(3)); extra.extend(rng.bytes(3)); out += 0; "ctl-append" }
        9 => { let mut c = ctl_bytes(&ctl); let cut = 1 + rng.below(23) as usize; c.truncate(c.len().saturating_sub(cut)); craw_override = Some(c); "ctl-partial-record" }
        10 => { if !ctl.is_empty() { ctl[i].0 = *rng.pick(&[-1i64, -7, 10_000_001, 10_000_000]); } "ctl-diff-invalid" }
        _ => {
            // a self-consistent random patch: sizes add up, seeks anywhere
            ctl.clear(); diff.clear(); extra.clear();
            let n = rng.range(1, 5);
            let mut total = 0i64;
            for _ in 0..n {
                let d = rng.below(9) as i64; let e = rng.below(5) as i64;
                let sk = rng.below(2 * old.len() as u64 + 9) as i64 - old.len() as i64 - 4;
                ctl.push((d, e, sk)); total += d + e;
                diff.extend(rng.bytes(d as usize)); extra.extend(rng.bytes(e as usize));
            }
            out = total;
            "random-consistent"
        }
    };
    s.tally(&format!("mutation.{name}"));
    let craw = craw_override.unwrap_or_else(|| ctl_bytes(&ctl));
    let p = make_patch(&craw, &diff, &extra, out);
    let mut mem: Option<Result<Vec<u8>, String>> = None;
    for m in [Mode::Mem, Mode::Stream(1024)] {
        let areq = format!("apply {} {} {} {} {}", mode_txt(m), hex(&craw), hex(&diff), hex(&extra), out);
        let r = emit(s, st, areq.clone());
        let got = apply(m, old, &p);
        let mname = match m { Mode::Mem => "mem", Mode::Stream(_) => "stream" };
        s.tally(&format!("mutated-result.{}", if got.is_ok() { "ok" } else { r.as_str() }));
        if let Ok(v) = &got {
            if v.len() as i64 != out {
                s.oracle_fail(&format!("ok-length:{mname}"), &format!("mutation {name}: Ok output of {} bytes, header says {out}", v.len()), &[begin.to_string(), areq.clone()]);
            }
        }
        if got.as_ref().err().map(|e| e == "panic").unwrap_or(false) {
            s.oracle_fail(&format!("apply-panics:{mname}"), &format!("mutation {name}: panic"), &[begin.to_string(), areq.clone()]);
        }
        match (&mem, m) {
            (None, _) => mem = Some(got.clone()),
            (Some(mr), _) => {
                if *mr != got {
                    s.oracle_fail("patchers-disagree", &format!("mutation {name}: memory {:?} vs streaming {:?}", mr.as_ref().map(|v| v.len()), got.as_ref().map(|v| v.len())), &[begin.to_string(), areq.clone()]);
                }
            }
        }
        s.case(Some(&format!("mut|{areq}|{}", hex(old))));
    }
}

// ---------------------------------------------------------------------------------------------
// generators
// ---------------------------------------------------------------------------------------------

fn rand_bytes(rng: &mut Rng, n: usize, alpha: u64) -> Vec<u8> {
    match alpha {
        0 => rng.bytes(n),
        a => (0..n).map(|_| b'a' + rng.below(a) as u8).collect(),
    }
}

/// random edit script applied to `old`
fn edit(rng: &mut Rng, old: &[u8], alpha: u64, edits: usize) -> Vec<u8> {
    let mut v = old.to_vec();
    for _ in 0..edits {
        let len = v.len();
        let at = rng.below(len as u64 + 1) as usize;
        let span = match rng.below(5) { 0 => 1, 1 => rng.range(1, 8) as usize, 2 => rng.range(1, 40) as usize, 3 => 256, _ => rng.range(1, 300) as usize };
        match rng.below(6) {
            0 => { let ins = rand_bytes(rng, span, alpha); v.splice(at..at, ins); }                      // insert
            1 => { let e = (at + span).min(len); v.drain(at..e); }                                      // delete
            2 => { let e = (at + span).min(len); let blk: Vec<u8> = v.drain(at..e).collect();            // move
                   let to = rng.below(v.len() as u64 + 1) as usize; v.splice(to..to, blk); }
            3 => { let e = (at + span).min(len); let blk = v[at..e].to_vec(); v.splice(at..at, blk); }   // repeat
            4 => { let e = (at + span).min(len); for x in &mut v[at..e] { *x = x.wrapping_add(1 + rng.below(3) as u8); } } // replace
            _ => { if len > 0 { let p = rng.below(len as u64) as usize; v[p] = v[p].wrapping_add(1); } }  // point change
        }
    }
    v
}

fn main() {
    let args = Args::parse();
    quiet_panics();
    let mut s = Session::new(&args.out);
    s.rule = "every (old,new) over {a,b} with both lengths <= L (L=4 quick, 6 thorough) x {simple, chunked blk in {0,1,4,64}, suffix} x {memory, streaming buf 1024[,4096]}; seeded random pairs to 4 KiB (edits: insert/delete/move/repeat/replace/point, empty old, empty new, equal, unrelated; alphabets 2, 4, 256) incl. a dedicated stream whose change is followed by >= 264 unchanged bytes with the inserted length a multiple of 256 or a periodic tail (the only way the chunked builder re-synchronises after an extra run), match runs of length 3/4/5 around the >=4 threshold, block sizes around the match length; mutated patches (sizes +-1, truncated blocks, seeks before 0 / beyond EOF / saturating, dropped / appended / invalid / partial control records) for the length clause. non-trivial = built patch has a diff run or >= 2 control entries (or is a mutated patch); distinct = (builder, patcher, old, new) text".into();
    let mut rng = Rng::new(args.seed);
    let mut st = St { old: vec![], new: vec![] };

    if let Some(p) = &args.replay {
        // a replay file holds request lines; re-evaluate the oracle on what they describe
        let lines = read_case(p);
        let mut cur_build: Option<String> = None;
        for l in lines {
            let r = emit(&mut s, &mut st, l.clone());
            println!("impl  {l} -> {}", if r.len() > 200 { &r[..200] } else { &r });
            let toks: Vec<&str> = l.split(' ').collect();
            match toks.as_slice() {
                ["build", kind, rest @ ..] => {
                    cur_build = Some(l.clone());
                    let blk = if *kind == "chunked" { rest.first().and_then(|x| x.parse().ok()).unwrap_or(1 << 20) } else { 1 << 20 };
                    let begin = format!("begin {} {}", hex(&st.old), hex(&st.new));
                    match build(kind, blk, &st.old, &st.new) {
                        Err(e) => {
                            let shp = if st.new.is_empty() { "empty-new" } else if st.old.is_empty() { "empty-old" } else { "nonempty" };
                            s.oracle_fail(&format!("build-fails:{kind}:{shp}"), &format!("{kind} returned {e}"), &[begin, l.clone()]);
                        }
                        Ok(p) => {
                            let shp = split_patch(&p).map(|b| shape(&b.ctl)).unwrap_or("unparsable");
                            for m in [Mode::Mem, Mode::Stream(1024), Mode::Stream(4096)] {
                                match apply(m, &st.old, &p) {
                                    Ok(v) if v == st.new => {}
                                    Ok(v) => {
                                        let what = if v.len() != st.new.len() { "wrong-length" } else { "wrong-bytes" };
                                        s.oracle_fail(&format!("{what}:{kind}:{shp}"), &format!("{kind} patch applied by {} returns Ok with other bytes", mode_txt(m)), &[begin.clone(), l.clone()]);
                                    }
                                    Err(e) => s.oracle_fail(&format!("apply-fails:{kind}:{shp}"), &format!("{kind} patch rejected by {}: {e}", mode_txt(m)), &[begin.clone(), l.clone()]),
                                }
                            }
                        }
                    }
                    s.case(Some(&l));
                }
                ["apply", ..] => {
                    // length clause on an explicit patch
                    let out: Option<i64> = toks.last().and_then(|x| x.parse().ok());
                    if let (Some(out), false) = (out, r.starts_with("err") || r == "bad-op" || r == "panic") {
                        let n = if r == "-" { 0 } else { r.len() as i64 / 2 };
                        if n != out {
                            let sig = if toks[1] == "streamc" { "stream-size-from-caller" } else { "ok-length:replay" };
                            s.oracle_fail(sig, &format!("Ok output of {n} bytes, header says {out}"), &[format!("begin {} {}", hex(&st.old), hex(&st.new)), l.clone()]);
                        }
                    }
                    if r == "panic" {
                        s.oracle_fail("apply-panics:replay", "panic", &[l.clone()]);
                    }
                    s.case(Some(&l));
                }
                _ => {}
            }
        }
        let _ = cur_build;
        s.finish();
        return;
    }

    let thorough = args.thorough();
    let bufs = if thorough { vec![1024, 4096, 1] } else { vec![1024] };
    let mut cx = Ctx { s: &mut s, st, bufs, mutate: true };

    // 1. exhaustive over {a,b}
    let lmax = if thorough { 6 } else { 4 };
    let mut words: Vec<Vec<u8>> = vec![vec![]];
    let mut frontier: Vec<Vec<u8>> = vec![vec![]];
    for _ in 0..lmax {
        let mut next = vec![];
        for w in &frontier {
            for c in [b'a', b'b'] {
                let mut x = w.clone();
                x.push(c);
                next.push(x);
            }
        }
        words.extend(next.iter().cloned());
        frontier = next;
    }
    cx.mutate = false;
    for o in &words {
        for n in &words {
            pair(&mut cx, &mut rng, o, n, &[0, 1, 4, 64], "exhaustive");
        }
    }
    cx.mutate = true;

    // 2. threshold cases: common prefix of exactly k bytes (k around 4), then divergence, and
    //    block sizes around k
    for k in 0..=9usize {
        for tail in [0usize, 1, 5] {
            let p = rand_bytes(&mut rng, k, 0);
            let mut o = p.clone(); o.extend(vec![0x11; tail]);
            let mut n = p.clone(); n.extend(vec![0x22; tail]);
            pair(&mut cx, &mut rng, &o, &n, &[0, 3, 4, 5, 64], "threshold");
        }
    }

    // 3. dedicated stream: change followed by >= 264 unchanged bytes, chunked re-synchronises
    let n_resync = if thorough { 160 } else { 40 };
    for i in 0..n_resync {
        let alpha = *rng.pick(&[0u64, 2, 4]);
        let plen = if i % 5 == 0 { 0 } else { rng.range(4, 40) as usize };
        let p = rand_bytes(&mut rng, plen, alpha);
        let tlen = rng.range(264, 700) as usize;
        let (o, n) = match i % 4 {
            // insertion of exactly 256*k bytes
            0 | 1 => {
                let t = rand_bytes(&mut rng, tlen, alpha);
                let k = rng.range(1, 2) as usize;
                let x: Vec<u8> = if i % 4 == 0 { vec![b'#'; 256 * k] } else { rand_bytes(&mut rng, 256 * k, alpha) };
                ([p.clone(), t.clone()].concat(), [p.clone(), x, t].concat())
            }
            // periodic tail (period divides 256): any inserted length re-synchronises
            2 => {
                let per = *rng.pick(&[1usize, 2, 4, 8]);
                let unit = rand_bytes(&mut rng, per, alpha);
                let t: Vec<u8> = (0..tlen).map(|j| unit[j % per]).collect();
                let x = vec![b'#'; rng.range(1, 9) as usize];
                ([p.clone(), t.clone()].concat(), [p.clone(), x, t].concat())
            }
            // replacement: old has Y where new has X (|X| = 256)
            _ => {
                let t = rand_bytes(&mut rng, tlen, alpha);
                let y = vec![b'%'; 256];
                let x = vec![b'#'; 256];
                // old_pos must sit on t after the extra run: old = p ‖ t, new = p ‖ x ‖ t (y unused when empty)
                let _ = y;
                ([p.clone(), t.clone()].concat(), [p.clone(), x.clone(), t[..tlen / 2].to_vec(), x, t[tlen / 2..].to_vec()].concat())
            }
        };
        let blks: Vec<usize> = vec![*rng.pick(&[4usize, 64, 1 << 20]), *rng.pick(&[5usize, 100, 256])];
        pair(&mut cx, &mut rng, &o, &n, &blks, "resync");
    }

    // 3b. multi-chunk extra blocks: an inserted run longer than (and not a multiple of) the
    //     streaming buffer, followed by further entries that carry extra bytes of their own — the
    //     shape in which a streaming patcher that mis-sizes one buffer refill steals bytes from a
    //     later extra block (seeded change C16-3 slipped through before this stream existed)
    let n_multi = if thorough { 24 } else { 8 };
    for i in 0..n_multi {
        let bf = cx.bufs[i % cx.bufs.len()].max(64);
        let seg = |rng: &mut Rng, n: usize| rand_bytes(rng, n, 0);
        let (la, lb, lc) = (rng.range(200, 500) as usize, rng.range(200, 500) as usize, rng.range(200, 500) as usize);
        let a = seg(&mut rng, la);
        let b = seg(&mut rng, lb);
        let c = seg(&mut rng, lc);
        let l1 = match i % 4 { 0 => bf + 1, 1 => bf + bf / 2 + 7, 2 => 2 * bf + 300, _ => 3 * bf - 1 };
        let l2 = *rng.pick(&[1usize, 17, 100, 255]);
        let x = seg(&mut rng, l1);
        let y = seg(&mut rng, l2);
        let o = [a.clone(), b.clone(), c.clone()].concat();
        let n = [a, x, b, y, c].concat();
        pair(&mut cx, &mut rng, &o, &n, &[64, 1 << 20], "multi-chunk-extra");
    }

    // 4. random edit pairs
    let n_rand = if thorough { 1500 } else { 260 };
    for i in 0..n_rand {
        let alpha = *rng.pick(&[0u64, 0, 2, 4]);
        let max = match rng.below(10) { 0 => if thorough { 4096 } else { 2048 }, 1 | 2 => 700, 3 | 4 | 5 => 120, _ => 24 };
        let olen = rng.below(max as u64 + 1) as usize;
        let old = match rng.below(6) { 0 => vec![rng.byte(); olen], _ => rand_bytes(&mut rng, olen, alpha) };
        let new = match i % 9 {
            0 => vec![],                                            // empty new
            1 => old.clone(),                                       // equal
            2 => { let n = rng.below(max as u64 + 1) as usize; rand_bytes(&mut rng, n, alpha) } // unrelated
            _ => { let e = rng.range(1, 6) as usize; edit(&mut rng, &old, alpha, e) }
        };
        let old = if i % 11 == 3 { vec![] } else { old };             // empty old
        let blks: Vec<usize> = vec![*rng.pick(&[0usize, 1, 4, 64]), *rng.pick(&[4usize, 7, 64, 1 << 20])];
        pair(&mut cx, &mut rng, &old, &new, &blks, "random");
    }
    // 4b. API probe: streaming patcher built with an expected size other than the header's
    for _ in 0..(if thorough { 40 } else { 8 }) {
        let nlen = rng.range(1, 40) as usize;
        let new = rng.bytes(nlen);
        let olen = rng.below(20) as usize;
        let old = rng.bytes(olen);
        let begin = format!("begin {} {}", hex(&old), hex(&new));
        emit(cx.s, &mut cx.st, begin.clone());
        let c = ctl_bytes(&[(0, nlen as i64, 0)]);
        for (caller, hdr) in [(nlen, nlen as i64), (nlen, nlen as i64 + 2), (nlen, nlen as i64 - 1), (nlen + 2, nlen as i64 + 2), (nlen + 1, nlen as i64)] {
            let areq = format!("apply streamc {caller} 1024 {} - {} {hdr}", hex(&c), hex(&new));
            let r = emit(cx.s, &mut cx.st, areq.clone());
            cx.s.tally("probe.stream-caller-size");
            cx.s.case(Some(&areq));
            if !(r.starts_with("err") || r == "panic" || r == "bad-op") {
                let n = if r == "-" { 0 } else { r.len() as i64 / 2 };
                if n != hdr {
                    cx.s.oracle_fail("stream-size-from-caller", &format!("ZbsdiffPatcher::new(old, {caller}).apply_patch_from_data returns Ok with {n} bytes for a patch whose header says {hdr}: the header's output_size is never compared"), &[begin.clone(), areq.clone()]);
                }
            }
        }
    }

    // 5. header guard: output size above the 1 GB limit is refused by both patchers
    {
        let begin = "begin 6162 6162".to_string();
        emit(cx.s, &mut cx.st, begin);
        let c = ctl_bytes(&[(0, 2, 0)]);
        for out in [1_000_000_000i64, 1_000_000_001] {
            for m in ["mem", "stream 1024"] {
                emit(cx.s, &mut cx.st, format!("apply {m} {} - 6162 {out}", hex(&c)));
                cx.s.case(None);
            }
        }
    }
    s.finish();
}
