//! C18 — compaction never loses or overwrites live data.
//!
//! K: the REAL `validate_spans`, `extract_compact_segment`, `CompactionFileMover::{new,
//! compact_in_place}`, `plan_archive_merge` and `ArchiveManager::compact` are run on request
//! lines; `drv_c18` runs the Lean model on the same lines.
//! O: the property restated directly on the implementation's outputs (file bytes / plan).
//!
//! Request lines (every line is self-contained, no state):
//!   val <spans>                         -> ok <spans after call> | err <spans after call>
//!   mover <budget>                      -> <buf_size> <buf_count>
//!   xc <budget> <file> <spans>          -> ok saved=N len=N fp=H [data=HEX] | err len=N fp=H [data=HEX]
//!   cip <budget> <file> <src> <dst> <n> -> ok moved=N len=N fp=H [data=HEX] | err moved=N len=N fp=H [data=HEX]
//!   mv <budget> <srcfile> <so> <dstfile> <do> <n> -> ok moved=N len=N fp=H [data=HEX] | err … (dest file)
//!   plan <thr-f64-bits-hex> <segsize> <segs>  -> <moves> total=N srcs=.. tgts=..
//!   exec <budget> <thr-f64-bits-hex> <segsize> <segs> -> ok moves=N moved=N <len:fp,...> | err
//!                                        (the plan's moves performed in plan order with move_data)
//!   arch <presize> <w1,w2,..>           -> compacted=N reclaimed=N len=N
//! <spans> = `-` | off:len,off:len,…     <segs> = `-` | F:used,T:used,…
//! <file>  = hex:<hex or -> | gen:<len>:<seed>   (byte i = (i + seed + (i/256)*37 + (i/65536)*101) mod 256)
use cascette_client_storage::storage::ArchiveManager;
use cascette_client_storage::storage::compaction::{
    CompactionFileMover, DataSpan, extract_compact_segment, plan_archive_merge, validate_spans,
};
use cascette_client_storage::storage::{SegmentHeader, SegmentInfo, SegmentState};
use std::fs::OpenOptions;
use std::panic::AssertUnwindSafe;
use verif_harness::*;

/// local header (30) + single-chunk BLTE frame of mode 'N' (8-byte header + mode byte)
const ARCH_OVERHEAD: u64 = 39;

// ---------------------------------------------------------------- encoding helpers

fn gen_byte(i: u64, seed: u64) -> u8 {
    ((i + seed + (i / 256) * 37 + (i / 65536) * 101) % 256) as u8
}

fn parse_file(t: &str) -> Option<Vec<u8>> {
    if let Some(h) = t.strip_prefix("hex:") {
        unhex(h)
    } else if let Some(g) = t.strip_prefix("gen:") {
        let mut it = g.split(':');
        let len: u64 = it.next()?.parse().ok()?;
        let seed: u64 = it.next()?.parse().ok()?;
        if it.next().is_some() || len > (1 << 26) {
            return None;
        }
        Some((0..len).map(|i| gen_byte(i, seed)).collect())
    } else {
        None
    }
}

fn parse_spans(t: &str) -> Option<Vec<DataSpan>> {
    if t == "-" {
        return Some(vec![]);
    }
    let mut v = vec![];
    for p in t.split(',') {
        let (a, b) = p.split_once(':')?;
        v.push(DataSpan { offset: a.parse().ok()?, length: b.parse().ok()? });
    }
    Some(v)
}

fn fmt_spans(v: &[DataSpan]) -> String {
    if v.is_empty() {
        return "-".into();
    }
    v.iter().map(|s| format!("{}:{}", s.offset, s.length)).collect::<Vec<_>>().join(",")
}

fn parse_segs(t: &str) -> Option<Vec<(bool, u64)>> {
    if t == "-" {
        return Some(vec![]);
    }
    let mut v = vec![];
    for p in t.split(',') {
        let (a, b) = p.split_once(':')?;
        let frozen = match a {
            "F" => true,
            "T" => false,
            _ => return None,
        };
        v.push((frozen, b.parse().ok()?));
    }
    Some(v)
}

fn fnv64(b: &[u8]) -> u64 {
    let mut h = 0xcbf2_9ce4_8422_2325u64;
    for x in b {
        h ^= *x as u64;
        h = h.wrapping_mul(0x0000_0100_0000_01b3);
    }
    h
}

fn file_obs(b: &[u8]) -> String {
    let mut s = format!("len={} fp={:016x}", b.len(), fnv64(b));
    if b.len() <= 32 {
        s.push_str(&format!(" data={}", hex(b)));
    }
    s
}

// ---------------------------------------------------------------- the property's oracle

fn overlaps(a: &DataSpan, b: &DataSpan) -> bool {
    // the crate's own public definition (`DataSpan::overlaps`), in u128 so it cannot wrap
    let (ao, al, bo, bl) = (a.offset as u128, a.length as u128, b.offset as u128, b.length as u128);
    ao < bo + bl && bo < ao + al
}

fn any_overlap(v: &[DataSpan]) -> bool {
    for i in 0..v.len() {
        for j in i + 1..v.len() {
            if overlaps(&v[i], &v[j]) {
                return true;
            }
        }
    }
    false
}

/// live bytes in offset order (ties: shorter first — zero-length spans contribute nothing, and
/// two non-empty spans with one offset overlap, so the tie order cannot change the bytes)
fn expected_concat(orig: &[u8], spans: &[DataSpan]) -> Vec<u8> {
    let mut v: Vec<DataSpan> = spans.to_vec();
    v.sort_by_key(|s| (s.offset, s.length));
    let mut out = vec![];
    for s in &v {
        out.extend_from_slice(&orig[s.offset as usize..(s.offset + s.length) as usize]);
    }
    out
}

fn oracle_spans(s: &mut Session, req: &str, orig: Option<&[u8]>, input: &[DataSpan], ok: bool, after: Option<&[u8]>, saved: u64) {
    let ov = any_overlap(input);
    let zero = input.iter().any(|x| x.length == 0);
    // a span whose end leaves u64 lies in no file: it must be refused like an overlap, with the
    // file untouched (sigs carry `-u64-wrap` so that this shape stays apart from plain overlaps)
    let wraps = input.iter().any(|x| x.offset.checked_add(x.length).is_none());
    if wraps {
        s.tally("spans-with-u64-overflow");
    }
    if ov || wraps {
        if ok {
            let sig = if wraps { if ov { "overlap-accepted-u64-wrap" } else { "overflow-accepted-u64-wrap" } } else { "overlap-accepted" };
            s.oracle_fail(sig, &format!("overlapping / overflowing span set accepted: {}", fmt_spans(input)), &[req.to_string()]);
        } else if let (Some(o), Some(a)) = (orig, after) {
            if o != a {
                let sig = if wraps { "refuse-modified-file-u64-wrap" } else { "refuse-modified-file" };
                s.oracle_fail(sig, "overlapping / overflowing span set refused but the file changed", &[req.to_string()]);
            }
        }
        return;
    }
    if !ok {
        // non-overlapping set refused
        let inb = orig.map(|o| input.iter().all(|x| x.offset as u128 + x.length as u128 <= o.len() as u128)).unwrap_or(true);
        if inb {
            let sig = if zero { "disjoint-refused-zero-length-tie" } else { "disjoint-refused" };
            s.oracle_fail(sig, &format!("non-overlapping (DataSpan::overlaps) span set refused: {}", fmt_spans(input)), &[req.to_string()]);
        }
        return;
    }
    let (Some(o), Some(a)) = (orig, after) else { return };
    let inb = input.iter().all(|x| x.offset as u128 + x.length as u128 <= o.len() as u128);
    if !inb {
        s.tally("xc-out-of-bounds-accepted");
        return;
    }
    if input.is_empty() {
        // (sig renamed after fix 79c672c: the old `empty-span-set-noop` is a listed finding and
        // must not absorb a regression)
        if !a.is_empty() || saved != o.len() as u64 {
            s.oracle_fail(
                "empty-span-set-kept",
                &format!("empty live set: file keeps {} of {} bytes, reports saved={}", a.len(), o.len(), saved),
                &[req.to_string()],
            );
        }
        return;
    }
    let want = expected_concat(o, input);
    if a != want.as_slice() {
        let big = input.iter().any(|x| x.length > 131072);
        let sig = if big { "concat-live-span-gt-buffer" } else { "concat-live" };
        let at = a.iter().zip(want.iter()).position(|(x, y)| x != y).unwrap_or(a.len().min(want.len()));
        s.oracle_fail(sig, &format!("file after compaction != live spans concatenated in offset order (len {} want {}, first difference at {})", a.len(), want.len(), at), &[req.to_string()]);
    }
    if saved != (o.len() - a.len().min(o.len())) as u64 || a.len() > o.len() {
        s.oracle_fail("saved-untruthful", &format!("reported saved={} but file went {} -> {}", saved, o.len(), a.len()), &[req.to_string()]);
    }
}

fn oracle_plan(s: &mut Session, req: &str, segs: &[(bool, u64)], size: u64, moves: &[(u16, u64, u16, u64, u64)], total: u64) {
    let r = [req.to_string()];
    let mut seen_src = std::collections::BTreeSet::new();
    let mut sum: u128 = 0;
    for (k, &(src, soff, dst, doff, len)) in moves.iter().enumerate() {
        sum += len as u128;
        let (Some(&(sf, su)), Some(&(df, du))) = (segs.get(src as usize), segs.get(dst as usize)) else {
            s.oracle_fail("plan-unknown-segment", &format!("move {k} names a segment outside the population"), &r);
            continue;
        };
        if !sf || !df || su == 0 || du == 0 {
            s.oracle_fail("plan-nonsource", &format!("move {k} {src}->{dst} involves a thawed or empty segment"), &r);
        }
        if src == dst {
            s.oracle_fail("plan-src-eq-dst", &format!("move {k} moves segment {src} onto itself"), &r);
        }
        if soff != 0 || len != su {
            s.oracle_fail("plan-partial-source", &format!("move {k} takes [{soff},{}) of segment {src} which uses {su}", soff as u128 + len as u128), &r);
        }
        if !seen_src.insert(src) {
            s.oracle_fail("plan-source-twice", &format!("segment {src} is moved twice"), &r);
        }
        if doff < du {
            // shape: is the clobbered destination the very first destination (smallest source)?
            let min_used = segs.iter().filter(|x| x.0 && x.1 > 0).map(|x| x.1).min().unwrap_or(0);
            let first = du == min_used && moves.iter().take(k).all(|m| m.2 == dst);
            let sig = if first { "plan-clobber-first-dest" } else { "plan-clobber" };
            s.oracle_fail(sig, &format!("move {k} writes segment {src} ({len} bytes) at offset {doff} of segment {dst}, which uses [0,{du})"), &r);
        }
        if doff as u128 + len as u128 > size as u128 {
            s.oracle_fail("plan-overfill", &format!("move {k} ends at {} > segment size {size}", doff as u128 + len as u128), &r);
        }
        for (j, &(_, _, d2, o2, l2)) in moves.iter().enumerate().take(k) {
            if d2 == dst && len > 0 && l2 > 0 && (doff as u128) < o2 as u128 + l2 as u128 && (o2 as u128) < doff as u128 + len as u128 {
                s.oracle_fail("plan-moves-overlap", &format!("moves {j} and {k} overlap in segment {dst}"), &r);
            }
        }
    }
    if sum != total as u128 {
        s.oracle_fail("plan-total", &format!("total_bytes {total} != sum of move lengths {sum}"), &r);
    }
}

// ---------------------------------------------------------------- running the real code

fn with_file<T>(content: &[u8], f: impl FnOnce(&mut std::fs::File) -> T) -> (T, Vec<u8>) {
    let dir = tempfile::tempdir().expect("tempdir");
    let p = dir.path().join("data");
    std::fs::write(&p, content).expect("write");
    let mut file = OpenOptions::new().read(true).write(true).open(&p).expect("open");
    let r = f(&mut file);
    drop(file);
    let after = std::fs::read(&p).expect("read back");
    (r, after)
}

fn run_line(s: &mut Session, req: &str, toks: &[&str]) -> Option<String> {
    match toks {
        ["val", sp] => {
            let input = parse_spans(sp)?;
            let mut v = input.clone();
            let r = catch(AssertUnwindSafe(|| validate_spans(&mut v).is_ok()));
            match r {
                Ok(ok) => {
                    oracle_spans(s, req, None, &input, ok, None, 0);
                    if input.len() >= 2 {
                        s.case(Some(req));
                    } else {
                        s.case(None);
                    }
                    s.tally(if ok { "val-ok" } else { "val-err" });
                    Some(format!("{} {}", if ok { "ok" } else { "err" }, fmt_spans(&v)))
                }
                Err(_) => Some("panic".into()),
            }
        }
        ["mover", b] => {
            let budget: usize = b.parse().ok()?;
            if budget > (1 << 28) {
                return None;
            }
            let m = CompactionFileMover::new(budget);
            if m.buffer_size() == 0 {
                s.oracle_fail("mover-zero-buffer", "buffer size 0: the chunk loop cannot make progress", &[req.to_string()]);
            }
            s.case(Some(req));
            Some(format!("{} {}", m.buffer_size(), m.buffer_count()))
        }
        ["xc", b, f, sp] => {
            let budget: usize = b.parse().ok()?;
            if budget > (1 << 28) {
                return None;
            }
            let orig = parse_file(f)?;
            let input = parse_spans(sp)?;
            let mut v = input.clone();
            let (r, after) = with_file(&orig, |file| {
                catch(AssertUnwindSafe(|| {
                    let mut mover = CompactionFileMover::new(budget);
                    extract_compact_segment(file, &mut v, &mut mover)
                }))
            });
            match r {
                Ok(Ok(saved)) => {
                    oracle_spans(s, req, Some(&orig), &input, true, Some(&after), saved);
                    let moved = after.len() != orig.len() || after != orig;
                    s.tally(if moved { "xc-ok-changed" } else { "xc-ok-unchanged" });
                    if input.iter().any(|x| x.length > 131072) {
                        s.tally("xc-span-gt-128KiB");
                    }
                    s.case(if moved { Some(req) } else { None });
                    Some(format!("ok saved={} {}", saved, file_obs(&after)))
                }
                Ok(Err(_)) => {
                    oracle_spans(s, req, Some(&orig), &input, false, Some(&after), 0);
                    s.tally(if any_overlap(&input) { "xc-err-overlap" } else { "xc-err-other" });
                    s.case(Some(req));
                    Some(format!("err {}", file_obs(&after)))
                }
                Err(_) => {
                    s.oracle_fail("xc-panic", "extract_compact_segment panicked", &[req.to_string()]);
                    Some("panic".into())
                }
            }
        }
        ["cip", b, f, src, dst, n] => {
            let budget: usize = b.parse().ok()?;
            if budget > (1 << 28) {
                return None;
            }
            let orig = parse_file(f)?;
            let (src, dst, n): (u64, u64, u64) = (src.parse().ok()?, dst.parse().ok()?, n.parse().ok()?);
            if dst > (1 << 26) || n > (1 << 26) || src > (1 << 40) {
                return None;
            }
            let ((r, moved), after) = with_file(&orig, |file| {
                let mut mover = CompactionFileMover::new(budget);
                let r = catch(AssertUnwindSafe(|| mover.compact_in_place(file, src, dst, n).is_ok()));
                (r, mover.bytes_moved())
            });
            match r {
                Ok(ok) => {
                    // O (chunked_forward_copy_safe): dst <= src, source range inside the file
                    if dst <= src && src as u128 + n as u128 <= orig.len() as u128 {
                        let (src, dst, n) = (src as usize, dst as usize, n as usize);
                        let mut want = orig.clone();
                        want.copy_within(src..src + n, dst);
                        if !ok || after != want {
                            let sig = if n > 131072 { "forward-copy-gt-buffer" } else { "forward-copy" };
                            s.oracle_fail(sig, "compact_in_place(dst<=src) is not the memmove of the original bytes", &[req.to_string()]);
                        }
                        s.case(if src != dst && n > 0 { Some(req) } else { None });
                    } else {
                        s.case(None);
                    }
                    s.tally(if ok { "cip-ok" } else { "cip-err" });
                    Some(format!("{} moved={} {}", if ok { "ok" } else { "err" }, moved, file_obs(&after)))
                }
                Err(_) => Some("panic".into()),
            }
        }
        ["mv", b, sf, so, df, dof, n] => {
            let budget: usize = b.parse().ok()?;
            if budget > (1 << 28) {
                return None;
            }
            let src_bytes = parse_file(sf)?;
            let dst_bytes = parse_file(df)?;
            let (so, dof, n): (u64, u64, u64) = (so.parse().ok()?, dof.parse().ok()?, n.parse().ok()?);
            if dof > (1 << 22) || n > (1 << 26) || so > (1 << 40) {
                return None;
            }
            let dir = tempfile::tempdir().expect("tempdir");
            let (sp, dp) = (dir.path().join("src"), dir.path().join("dst"));
            std::fs::write(&sp, &src_bytes).expect("write src");
            std::fs::write(&dp, &dst_bytes).expect("write dst");
            let mut sfile = std::fs::File::open(&sp).expect("open src");
            let mut dfile = OpenOptions::new().write(true).open(&dp).expect("open dst");
            let mut mover = CompactionFileMover::new(budget);
            let r = catch(AssertUnwindSafe(|| mover.move_data(&mut sfile, so, &mut dfile, dof, n).is_ok()));
            drop(sfile);
            drop(dfile);
            let after = std::fs::read(&dp).expect("read dst");
            let src_after = std::fs::read(&sp).expect("read src");
            match r {
                Ok(ok) => {
                    if so as u128 + n as u128 <= src_bytes.len() as u128 {
                        // O (chunked_move_data_safe): one write of the whole range
                        let (so, dof, n) = (so as usize, dof as usize, n as usize);
                        let mut want = dst_bytes.clone();
                        if n > 0 {
                            if want.len() < dof + n {
                                want.resize(dof + n, 0);
                            }
                            want[dof..dof + n].copy_from_slice(&src_bytes[so..so + n]);
                        }
                        if !ok || after != want || src_after != src_bytes || mover.bytes_moved() != n as u64 {
                            let sig = if n > 131072 { "move-data-gt-buffer" } else { "move-data" };
                            s.oracle_fail(sig, "move_data did not place the source range at dest_offset (or touched the source / miscounted)", &[req.to_string()]);
                        }
                        s.case(if n > 0 { Some(req) } else { None });
                    } else {
                        s.case(None);
                    }
                    s.tally(if ok { "mv-ok" } else { "mv-err" });
                    Some(format!("{} moved={} {}", if ok { "ok" } else { "err" }, mover.bytes_moved(), file_obs(&after)))
                }
                Err(_) => Some("panic".into()),
            }
        }
        ["plan", thr, size, sg] => {
            let bits = u64::from_str_radix(thr, 16).ok()?;
            let thr = f64::from_bits(bits);
            let size: u64 = size.parse().ok()?;
            let segs = parse_segs(sg)?;
            let infos: Vec<SegmentInfo> = segs
                .iter()
                .enumerate()
                .map(|(i, &(fz, used))| {
                    let mut si = SegmentInfo::new(i as u16, SegmentHeader::zeroed());
                    si.state = if fz { SegmentState::Frozen } else { SegmentState::Thawed };
                    si.write_position = used;
                    si
                })
                .collect();
            let r = catch(AssertUnwindSafe(|| plan_archive_merge(&infos, thr, size)));
            match r {
                Ok(p) => {
                    let moves: Vec<(u16, u64, u16, u64, u64)> =
                        p.moves.iter().map(|m| (m.source_segment, m.source_offset, m.dest_segment, m.dest_offset, m.length)).collect();
                    oracle_plan(s, req, &segs, size, &moves, p.total_bytes);
                    s.tally(match moves.len() {
                        0 => "plan-empty",
                        1 => "plan-1-move",
                        _ => "plan-multi-move",
                    });
                    let dests: std::collections::BTreeSet<u16> = moves.iter().map(|m| m.2).collect();
                    if dests.len() > 1 {
                        s.tally("plan-multi-dest");
                    }
                    // not claimed by C18, reported only: a segment that is emptied by one move
                    // and filled by a later one
                    if moves.iter().any(|m| dests.contains(&m.0)) {
                        s.tally("plan-segment-both-source-and-target");
                    }
                    s.case(if moves.is_empty() { None } else { Some(req) });
                    let ms = if moves.is_empty() {
                        "-".to_string()
                    } else {
                        moves.iter().map(|m| format!("{}+{}>{}@{}+{}", m.0, m.1, m.2, m.3, m.4)).collect::<Vec<_>>().join(",")
                    };
                    let l = |v: &Vec<u16>| if v.is_empty() { "-".to_string() } else { v.iter().map(|x| x.to_string()).collect::<Vec<_>>().join(".") };
                    Some(format!("{} total={} srcs={} tgts={}", ms, p.total_bytes, l(&p.source_segments), l(&p.target_segments)))
                }
                Err(_) => {
                    s.oracle_fail("plan-panic", "plan_archive_merge panicked", &[req.to_string()]);
                    Some("panic".into())
                }
            }
        }
        ["exec", b, thr, size, sg] => {
            // plan_archive_merge, then the moves performed IN PLAN ORDER with the real move_data on
            // real segment files (segment i = used_i generated bytes, seed 17 i + 3). The crate has
            // no executor; this loop is the one Model.execPlan describes. O: theorem
            // plan_execution_in_order_safe restated on the files.
            let budget: usize = b.parse().ok()?;
            let bits = u64::from_str_radix(thr, 16).ok()?;
            let thr = f64::from_bits(bits);
            let size: u64 = size.parse().ok()?;
            let segs = parse_segs(sg)?;
            if budget > (1 << 28) || segs.len() > 64 || segs.iter().any(|x| x.1 > (1 << 20)) {
                return None;
            }
            let infos: Vec<SegmentInfo> = segs
                .iter()
                .enumerate()
                .map(|(i, &(fz, used))| {
                    let mut si = SegmentInfo::new(i as u16, SegmentHeader::zeroed());
                    si.state = if fz { SegmentState::Frozen } else { SegmentState::Thawed };
                    si.write_position = used;
                    si
                })
                .collect();
            let Ok(plan) = catch(AssertUnwindSafe(|| plan_archive_merge(&infos, thr, size))) else {
                s.oracle_fail("plan-panic", "plan_archive_merge panicked", &[req.to_string()]);
                return Some("panic".into());
            };
            let dir = tempfile::tempdir().expect("tempdir");
            let path = |i: usize| dir.path().join(format!("seg.{i}"));
            let orig: Vec<Vec<u8>> = segs.iter().enumerate().map(|(i, x)| (0..x.1).map(|j| gen_byte(j, i as u64 * 17 + 3)).collect()).collect();
            for (i, o) in orig.iter().enumerate() {
                std::fs::write(path(i), o).expect("write segment");
            }
            let mut mover = CompactionFileMover::new(budget);
            let mut failed = false;
            for m in &plan.moves {
                let (si, di) = (m.source_segment as usize, m.dest_segment as usize);
                if si >= segs.len() || di >= segs.len() {
                    failed = true;
                    break;
                }
                let mut sf = std::fs::File::open(path(si)).expect("open src");
                let mut df = OpenOptions::new().write(true).open(path(di)).expect("open dst");
                let r = catch(AssertUnwindSafe(|| mover.move_data(&mut sf, m.source_offset, &mut df, m.dest_offset, m.length).is_ok()));
                if !matches!(r, Ok(true)) {
                    failed = true;
                    break;
                }
            }
            let after: Vec<Vec<u8>> = (0..segs.len()).map(|i| std::fs::read(path(i)).expect("read segment")).collect();
            let r = [req.to_string()];
            if failed {
                s.oracle_fail("exec-failed", "a move of the plan could not be performed (unknown segment or I/O error)", &r);
                s.case(Some(req));
                return Some("err".into());
            }
            for (i, o) in orig.iter().enumerate() {
                if after[i].len() < o.len() || after[i][..o.len()] != o[..] {
                    s.oracle_fail("exec-live-overwritten", &format!("segment {i}: bytes below its write position {} changed during the run", o.len()), &r);
                }
            }
            for (k, m) in plan.moves.iter().enumerate() {
                let (si, di) = (m.source_segment as usize, m.dest_segment as usize);
                let (a, b) = (m.dest_offset as usize, (m.dest_offset + m.length) as usize);
                if m.source_offset != 0 || m.length as usize != orig[si].len() || after[di].len() < b || after[di][a..b] != orig[si][..] {
                    s.oracle_fail("exec-move-not-original", &format!("move {k}: segment {di} [{a},{b}) is not the original content of segment {si}"), &r);
                }
            }
            let dests: std::collections::BTreeSet<u16> = plan.moves.iter().map(|m| m.dest_segment).collect();
            if plan.moves.iter().any(|m| dests.contains(&m.source_segment)) {
                s.tally("exec-segment-both-source-and-target");
            }
            if plan.moves.iter().any(|m| m.length > 131072) {
                s.tally("exec-move-gt-128KiB");
            }
            s.tally(if plan.moves.is_empty() { "exec-empty-plan" } else { "exec-with-moves" });
            s.case(if plan.moves.is_empty() { None } else { Some(req) });
            let fs = if after.is_empty() { "-".to_string() } else { after.iter().map(|f| format!("{}:{:016x}", f.len(), fnv64(f))).collect::<Vec<_>>().join(",") };
            Some(format!("ok moves={} moved={} {}", plan.moves.len(), mover.bytes_moved(), fs))
        }
        ["arch", pre, ws] => {
            // ArchiveManager: data.000 pre-sized to `pre` bytes, then one write_content per listed
            // record size (record = 30-byte local header + BLTE('N') frame = payload + 39), then
            // compact(). Observables: compaction stats and the file length. O: the bytes below the
            // write position are the same before and after compact().
            let pre: u64 = pre.parse().ok()?;
            if pre > (1 << 23) {
                return None;
            }
            let totals: Vec<u64> = if *ws == "-" { vec![] } else { ws.split(',').map(|x| x.parse().ok()).collect::<Option<Vec<_>>>()? };
            if totals.iter().any(|&x| x < ARCH_OVERHEAD || x > (1 << 22)) || totals.len() > 64 {
                return None;
            }
            let dir = tempfile::tempdir().expect("tempdir");
            let p = dir.path().join("data.000");
            let prefill: Vec<u8> = (0..pre).map(|i| gen_byte(i, 7)).collect();
            std::fs::write(&p, &prefill).expect("prefill");
            let r = catch(AssertUnwindSafe(|| {
                let mut am = ArchiveManager::new(dir.path());
                am.open_archive(0, &p).map_err(|_| "open")?;
                let mut used = pre;
                for (k, &t) in totals.iter().enumerate() {
                    let data: Vec<u8> = (0..t - ARCH_OVERHEAD).map(|i| gen_byte(i, 11 + k as u64)).collect();
                    let (id, off, tot, _) = am.write_content(&data, false).map_err(|_| "write")?;
                    if id != 0 || u64::from(off) != used || u64::from(tot) != t {
                        return Err("record-size-model");
                    }
                    used += t;
                }
                let before = std::fs::read(&p).map_err(|_| "read")?;
                let st = am.compact().map_err(|_| "compact")?;
                Ok::<_, &'static str>((st.archives_compacted, st.bytes_reclaimed, used, before))
            }));
            match r {
                Ok(Ok((n, recl, used, before))) => {
                    let after = std::fs::read(&p).expect("read back");
                    let u = used as usize;
                    if before.len() < u || after.len() < u || after[..u] != before[..u] {
                        s.oracle_fail("arch-compact-lost-bytes", &format!("bytes below the write position {used} changed or were cut: file {} -> {}", before.len(), after.len()), &[req.to_string()]);
                    }
                    if recl != (before.len() as u64).saturating_sub(after.len() as u64) && n > 0 {
                        s.oracle_fail("arch-reclaimed-untruthful", &format!("reports {recl} reclaimed, file {} -> {}", before.len(), after.len()), &[req.to_string()]);
                    }
                    s.tally(if n > 0 { "arch-compacted" } else { "arch-noop" });
                    s.case(if totals.is_empty() { None } else { Some(req) });
                    Some(format!("compacted={} reclaimed={} len={}", n, recl, after.len()))
                }
                Ok(Err(e)) => Some(format!("err:{e}")),
                Err(_) => Some("panic".into()),
            }
        }
        _ => None,
    }
}

fn emit(s: &mut Session, req: String) -> String {
    let toks: Vec<&str> = req.split(' ').collect();
    let r = run_line(s, &req, &toks).unwrap_or_else(|| "bad-op".into());
    s.line(&req, &r);
    s.tally(&format!("op-{}", toks[0]));
    r
}

// ---------------------------------------------------------------- generators

const BUDGETS: &[usize] = &[0, 1, 131072, 131073, 200000, 262143, 262144, 262146, 393216, 524288, 1 << 20, 2 << 20, (2 << 20) + 16, 4 << 20];

fn spans_str(v: &[(u64, u64)]) -> String {
    if v.is_empty() {
        "-".into()
    } else {
        v.iter().map(|(o, l)| format!("{o}:{l}")).collect::<Vec<_>>().join(",")
    }
}

fn shuffle<T>(rng: &mut Rng, v: &mut [T]) {
    for i in (1..v.len()).rev() {
        let j = rng.below(i as u64 + 1) as usize;
        v.swap(i, j);
    }
}

/// all span sets of 0..=2 spans (every input order) over a 12-byte file, offsets 0..=12,
/// lengths 0..=4 (so some reach past the end), plus sampled triples/quads.
fn gen_small(s: &mut Session, rng: &mut Rng, samples: usize) {
    let file: Vec<u8> = (0..12u8).map(|i| 0xa0 + i).collect();
    let fh = format!("hex:{}", hex(&file));
    let mut all = vec![];
    for o in 0..=12u64 {
        for l in 0..=4u64 {
            all.push((o, l));
        }
    }
    emit(s, format!("xc 0 {fh} -"));
    emit(s, "xc 0 hex:- -".to_string());
    emit(s, "xc 0 hex:- 0:0".to_string());
    for a in &all {
        emit(s, format!("xc 0 {fh} {}", spans_str(&[*a])));
    }
    for a in &all {
        for b in &all {
            emit(s, format!("xc 0 {fh} {}", spans_str(&[*a, *b])));
            emit(s, format!("val {}", spans_str(&[*a, *b])));
        }
    }
    // a 5-byte file, so that the exhaustive part also covers "exactly 0 / 1 / 2 bytes saved"
    let f5 = "hex:e0e1e2e3e4";
    let mut all5 = vec![];
    for o in 0..=5u64 {
        for l in 0..=3u64 {
            all5.push((o, l));
        }
    }
    for a in &all5 {
        emit(s, format!("xc 0 {f5} {}", spans_str(&[*a])));
        for b in &all5 {
            emit(s, format!("xc 0 {f5} {}", spans_str(&[*a, *b])));
        }
    }
    for _ in 0..samples {
        // mostly disjoint sets built left to right, then shuffled; sometimes perturbed
        let n = rng.range(3, 5) as usize;
        let mut v = vec![];
        let mut pos = 0u64;
        for _ in 0..n {
            let gap = *rng.pick(&[0u64, 0, 1, 2, 3]);
            let len = *rng.pick(&[0u64, 0, 1, 2, 3, 4]);
            v.push((pos + gap, len));
            pos += gap + len;
        }
        if rng.chance(1, 4) {
            let k = rng.below(n as u64) as usize;
            v[k].0 = v[k].0.saturating_sub(rng.range(1, 2));
        }
        if rng.chance(1, 6) {
            let k = rng.below(n as u64) as usize;
            v[k].1 += rng.range(1, 3);
        }
        shuffle(rng, &mut v);
        let flen = rng.range(0, 16);
        let f: Vec<u8> = (0..flen).map(|i| 0x10 + i as u8).collect();
        emit(s, format!("xc {} hex:{} {}", rng.pick(BUDGETS), hex(&f), spans_str(&v)));
        if rng.chance(1, 3) {
            emit(s, format!("val {}", spans_str(&v)));
        }
    }
}

/// spans around the u64 boundary (offset + length >= 2^64, ends exactly at 2^64 - 1, offsets
/// beyond i64::MAX where seek fails): all pairs over a 5 x 6 pool, then random triples that start
/// with a small in-bounds span behind a gap (so that a set accepted by mistake moves bytes).
fn gen_u64(s: &mut Session, rng: &mut Rng, samples: usize) {
    let fh = "hex:a0a1a2a3a4a5a6a7a8a9aaab";
    const H: u64 = 1 << 63;
    let offs: &[u64] = &[0, 5, H, H + 5, u64::MAX];
    let lens: &[u64] = &[0, 1, H, H + 10, u64::MAX - 5, u64::MAX];
    let mut pool = vec![];
    for &o in offs {
        for &l in lens {
            pool.push((o, l));
        }
    }
    for a in &pool {
        emit(s, format!("xc 0 {fh} {}", spans_str(&[*a])));
        for b in &pool {
            emit(s, format!("val {}", spans_str(&[*a, *b])));
            emit(s, format!("xc 0 {fh} {}", spans_str(&[*a, *b])));
        }
    }
    let offs2: &[u64] = &[0, 1, 7, 12, 13, H - 1, H, H + 1, H + 5, u64::MAX - 1, u64::MAX];
    for _ in 0..samples {
        let mut v = vec![];
        if rng.chance(3, 4) {
            v.push((rng.range(1, 4), rng.range(1, 3)));
        }
        let n = rng.range(1, 3);
        for _ in 0..n {
            let o = *rng.pick(offs2);
            let l = match rng.below(8) {
                0 => 0,
                1 => rng.range(1, 4),
                2 => u64::MAX - o,           // ends exactly at u64::MAX: no overflow
                3 => (u64::MAX - o).wrapping_add(1), // ends exactly at 2^64 (0 when o = 0)
                4 => H,
                5 => H + rng.range(0, 12),
                6 => u64::MAX,
                _ => u64::MAX - rng.range(0, 12),
            };
            v.push((o, l));
        }
        shuffle(rng, &mut v);
        emit(s, format!("xc {} {fh} {}", rng.pick(BUDGETS), spans_str(&v)));
        if rng.chance(1, 2) {
            emit(s, format!("val {}", spans_str(&v)));
        }
    }
}

/// files of 150 KiB..1 MiB with spans around the 128 KiB I/O buffer (and around the other
/// buffer sizes the budget rule produces)
fn gen_big(s: &mut Session, rng: &mut Rng, cases: usize, max_file: u64) {
    let lens: &[u64] = &[1, 4096, 131071, 131072, 131073, 131080, 196608, 262144, 262145, 300001];
    let gaps: &[u64] = &[0, 0, 1, 7, 4096, 131071, 131072, 131073, 200000];
    for c in 0..cases {
        let budget = *rng.pick(BUDGETS);
        let n = rng.range(1, 4) as usize;
        let mut v = vec![];
        let mut pos = 0u64;
        for k in 0..n {
            let mut gap = *rng.pick(gaps);
            if k == 0 && c % 5 == 0 {
                gap = 0;
            }
            let len = if rng.chance(1, 8) { rng.range(0, 400000) } else { *rng.pick(lens) };
            if pos + gap + len > max_file {
                break;
            }
            v.push((pos + gap, len));
            pos += gap + len;
        }
        if v.is_empty() {
            v.push((1, 131073));
            pos = 131074;
        }
        let tail = *rng.pick(&[0u64, 0, 1, 5000]);
        let flen = (pos + tail).min(max_file.max(pos));
        if rng.chance(1, 10) && v.len() >= 2 {
            // make two neighbours overlap by one byte
            let k = rng.range(1, v.len() as u64 - 1) as usize;
            if v[k].0 > 0 && v[k - 1].1 > 0 {
                v[k].0 -= 1;
            }
        }
        shuffle(rng, &mut v);
        emit(s, format!("xc {budget} gen:{flen}:{} {}", rng.below(256), spans_str(&v)));
    }
}

fn gen_cip(s: &mut Session, rng: &mut Rng, small: usize, big: usize) {
    for _ in 0..small {
        let flen = rng.range(0, 24);
        let f: Vec<u8> = (0..flen).map(|i| 0x40 + i as u8).collect();
        let src = rng.range(0, flen + 2);
        let dst = if rng.chance(3, 4) { rng.range(0, src) } else { rng.range(0, flen + 4) };
        let n = rng.range(0, flen + 2);
        emit(s, format!("cip {} hex:{} {src} {dst} {n}", rng.pick(BUDGETS), hex(&f)));
    }
    let ns: &[u64] = &[131071, 131072, 131073, 262144, 262145, 393217, 500000];
    for _ in 0..big {
        let n = *rng.pick(ns);
        let delta = *rng.pick(&[1u64, 2, 100, 131071, 131072, 131073, 300000]);
        let dst = *rng.pick(&[0u64, 1, 4097]);
        let src = if rng.chance(5, 6) { dst + delta } else { dst.saturating_sub(1) };
        let short = if rng.chance(1, 6) { rng.range(1, 200000) } else { 0 };
        let flen = (src.max(dst) + n + *rng.pick(&[0u64, 3])).saturating_sub(short);
        emit(s, format!("cip {} gen:{flen}:{} {src} {dst} {n}", rng.pick(BUDGETS), rng.below(256)));
    }
}

fn gen_mv(s: &mut Session, rng: &mut Rng, small: usize, big: usize) {
    for _ in 0..small {
        let sl = rng.range(0, 24);
        let dl = rng.range(0, 24);
        let sf: Vec<u8> = (0..sl).map(|i| 0x40 + i as u8).collect();
        let df: Vec<u8> = (0..dl).map(|i| 0xc0 + i as u8).collect();
        let so = rng.range(0, sl + 1);
        let n = if rng.chance(4, 5) { rng.range(0, sl.saturating_sub(so)) } else { rng.range(0, sl + 2) };
        let dof = rng.range(0, dl + 3);
        emit(s, format!("mv {} hex:{} {so} hex:{} {dof} {n}", rng.pick(BUDGETS), hex(&sf), hex(&df)));
    }
    let ns: &[u64] = &[131071, 131072, 131073, 262144, 262145, 393217, 500000];
    for _ in 0..big {
        let n = *rng.pick(ns);
        let so = *rng.pick(&[0u64, 1, 4097]);
        let short = if rng.chance(1, 6) { rng.range(1, 200000) } else { 0 };
        let sl = (so + n + *rng.pick(&[0u64, 3])).saturating_sub(short);
        let dl = *rng.pick(&[0u64, 10, 131072, 600000]);
        let dof = *rng.pick(&[0u64, 5, 131071, 131080]);
        emit(s, format!("mv {} gen:{sl}:{} {so} gen:{dl}:{} {dof} {n}", rng.pick(BUDGETS), rng.below(256), rng.below(256)));
    }
}

fn segs_str(v: &[(bool, u64)]) -> String {
    if v.is_empty() {
        "-".into()
    } else {
        v.iter().map(|(f, u)| format!("{}:{u}", if *f { "F" } else { "T" })).collect::<Vec<_>>().join(",")
    }
}

fn gen_plan_exhaustive(s: &mut Session, max_n: usize) {
    // every population of up to max_n segments over used ∈ {0,2,3,5,9,10,12}, Frozen/Thawed for the
    // first two positions, segment size 10, three thresholds
    let used: &[u64] = &[0, 2, 3, 5, 9, 10, 12];
    for thr in [0.55f64, 1.0, 1.5] {
        for n in 0..=max_n {
            let total = used.len().pow(n as u32);
            for code in 0..total {
                let mut c = code;
                let mut v = vec![];
                for _ in 0..n {
                    v.push((true, used[c % used.len()]));
                    c /= used.len();
                }
                emit(s, format!("plan {:016x} 10 {}", thr.to_bits(), segs_str(&v)));
            }
        }
    }
}

fn gen_plan_random(s: &mut Session, rng: &mut Rng, cases: usize) {
    let thrs: &[f64] = &[0.0, 0.25, 0.3, 0.5, 0.75, 1.0, 1.0000000000000002, 1.5, 2.0, f64::INFINITY, f64::NAN, -1.0, 1e-300];
    for _ in 0..cases {
        let size = match rng.below(8) {
            0 => 0,
            1 => 1,
            2 => 100,
            3 => 1000,
            4 => 1 << 30,
            5 => (1u64 << 53) + 1,
            6 => rng.range(1, 5000),
            _ => 1 << 20,
        };
        let thr = if rng.chance(1, 5) { rng.below(2001) as f64 / 1000.0 } else { *rng.pick(thrs) };
        let n = match rng.below(10) {
            0 => rng.range(0, 2),
            1 => rng.range(13, 40),
            _ => rng.range(2, 12),
        } as usize;
        let mut v = vec![];
        for _ in 0..n {
            let frozen = rng.chance(5, 6);
            let cut = (thr * size as f64) as u64; // boundary of the utilisation test
            let u = match rng.below(10) {
                0 => 0,
                1 => cut,
                2 => cut.saturating_sub(1),
                3 => cut.saturating_add(1).min(1 << 62),
                4 => size.min(1 << 62),
                5 => (size / 2).min(1 << 62),
                6 => size.saturating_add(rng.range(1, 9)).min(1 << 62),
                7 => rng.range(1, 16),
                _ => rng.range(0, size.min(1 << 62).max(1)),
            };
            // write positions stay below 2^62: `dest_used + source_used` is unchecked u64
            // arithmetic in the planner (assumption listed in lib/cfg/C18.py)
            v.push((frozen, u.min(1 << 62)));
        }
        emit(s, format!("plan {:016x} {size} {}", thr.to_bits(), segs_str(&v)));
    }
}

/// plans executed on real segment files: small populations (exhaustive over 6 fill levels, 5
/// segments, size 100 — contains the "source that later becomes a destination" shape), random
/// ones, and a few with segments around the 128 KiB buffer.
fn gen_exec(s: &mut Session, rng: &mut Rng, max_n: usize, random: usize, big: usize) {
    let used: &[u64] = &[0, 10, 20, 60, 70, 80];
    for n in 2..=max_n {
        let total = used.len().pow(n as u32);
        for code in 0..total {
            let mut c = code;
            let mut v = vec![];
            for _ in 0..n {
                v.push((true, used[c % used.len()]));
                c /= used.len();
            }
            emit(s, format!("exec 0 {:016x} 100 {}", 1.0f64.to_bits(), segs_str(&v)));
        }
    }
    for _ in 0..random {
        let size = *rng.pick(&[64u64, 100, 255, 1000]);
        let thr = *rng.pick(&[0.5f64, 0.75, 1.0, 1.5]);
        let n = rng.range(2, 10) as usize;
        let v: Vec<(bool, u64)> = (0..n).map(|_| (rng.chance(7, 8), if rng.chance(1, 8) { 0 } else { rng.range(1, size + size / 4) })).collect();
        emit(s, format!("exec {} {:016x} {size} {}", rng.pick(BUDGETS), thr.to_bits(), segs_str(&v)));
    }
    for _ in 0..big {
        let size = 1u64 << 20;
        let n = rng.range(3, 6) as usize;
        let v: Vec<(bool, u64)> = (0..n).map(|_| (true, *rng.pick(&[1u64, 4096, 131071, 131072, 131073, 262145, 300001, 500000]))).collect();
        emit(s, format!("exec {} {:016x} {size} {}", rng.pick(BUDGETS), 1.0f64.to_bits(), segs_str(&v)));
    }
}

fn gen_arch(s: &mut Session, rng: &mut Rng, cases: usize) {
    for _ in 0..cases {
        let pre = *rng.pick(&[0u64, 0, 100, 4096, (1 << 20) + 1, 2 << 20]);
        let n = rng.range(0, 5) as usize;
        let ws: Vec<String> = (0..n)
            .map(|_| match rng.below(4) {
                0 => 0,
                1 => rng.range(1, 64),
                2 => rng.range(1000, 70000),
                _ => rng.range(1 << 20, 3 << 20),
            })
            .map(|x: u64| (x + ARCH_OVERHEAD).to_string())
            .collect();
        emit(s, format!("arch {pre} {}", if ws.is_empty() { "-".to_string() } else { ws.join(",") }));
    }
}

fn main() {
    quiet_panics();
    let args = Args::parse();
    let mut s = Session::new(&args.out);
    s.rule = "seeded + exhaustive request lines; non-trivial = xc that changed the file or was refused, val with >= 2 spans, \
              cip with dst<=src, src!=dst, n>0 inside the file, mv with n>0 inside the source, plan / exec with >= 1 move, arch with >= 1 write, mover sizing; \
              distinct = canonical request text"
        .into();
    if let Some(p) = &args.replay {
        for l in read_case(p) {
            emit(&mut s, l);
        }
        s.finish();
        return;
    }
    let mut rng = Rng::new(args.seed);
    let th = args.thorough();
    for b in [0usize, 1, 131071, 131072, 131073, 262143, 262144, 262145, 393215, 393216, 1 << 20, (1 << 21) - 1, 1 << 21, (1 << 21) + 1, (1 << 21) + 15, (1 << 21) + 16, 3 << 20, 1 << 24] {
        emit(&mut s, format!("mover {b}"));
    }
    for _ in 0..(if th { 2000 } else { 200 }) {
        let b = if rng.chance(1, 2) { rng.below(1 << 22) } else { (rng.below(40) << 17) + rng.below(3) - 1 + 1 };
        emit(&mut s, format!("mover {b}"));
    }
    gen_small(&mut s, &mut rng, if th { 60000 } else { 4000 });
    gen_u64(&mut s, &mut rng, if th { 20000 } else { 1500 });
    gen_big(&mut s, &mut rng, if th { 1500 } else { 70 }, if th { 1 << 20 } else { 900_000 });
    gen_cip(&mut s, &mut rng, if th { 20000 } else { 1500 }, if th { 600 } else { 40 });
    gen_mv(&mut s, &mut rng, if th { 10000 } else { 1000 }, if th { 400 } else { 30 });
    gen_plan_exhaustive(&mut s, if th { 5 } else { 4 });
    gen_plan_random(&mut s, &mut rng, if th { 200_000 } else { 8000 });
    gen_exec(&mut s, &mut rng, if th { 6 } else { 5 }, if th { 20000 } else { 1500 }, if th { 200 } else { 12 });
    gen_arch(&mut s, &mut rng, if th { 100 } else { 10 });
    s.finish();
}
