//! C15 — what the Ribbit server emits, this project's client reads back as the database says.
//!
//! K: the real `BuildRecord::validate`, `AppState::new` (= `BuildDatabase::from_file`),
//!    `latest_build`, `tcp::handlers::handle_command`, the real TCP/HTTP servers on loopback,
//!    `BpsvDocument::parse`, `RibbitClient::query`, `TactClient::query` against the Lean model
//!    (`drv_c15`) line by line; `client`/`clientsum` lines are the model's `query (respond …)`,
//!    `conn`/`storm`/`sched` lines its per-connection task (`connAnswer`, `srvRun`).
//! O: for every product of every accepted database and every endpoint × transport, the document
//!    the real client returns has exactly the rows the newest record dictates (computed here
//!    independently); malformed requests get an error/closed connection and the server keeps
//!    answering a probe client; every connection of an interleaved schedule (`sched`) is answered
//!    what its own bytes are answered alone (sig `conn-not-isolated`), with the schedule's
//!    unterminated connections still open; a connection that has sent a complete request line is
//!    answered or closed within 3 s whatever its neighbours do (sig `conn-unanswered`) — the
//!    neighbours include connections that were opened FIRST and have sent nothing at all (`o<i>`,
//!    `hold -`), on the TCP and on the HTTP listener (sig `http-server-wedged`); the library's
//!    accept loops `tcp::start_server` / `http::start_server` themselves never return while the
//!    database is being queried (sigs `server-stopped` / `http-server-stopped`: the task has
//!    finished, the listener is gone and new clients are refused) — looked at before and after
//!    every line that touches a socket, and whenever a probe client fails. The request lines
//!    include the family "valid UTF-8 with one multi-byte character (2, 3, 4 bytes) starting at
//!    every byte offset 0..=8" of the line, of the product and of the endpoint
//!    (`utf8_boundary_family`), each sent alone (`conn`, then a well-formed probe from another
//!    client), through `handle_command` (`cmd`), concurrently (`storm`) and inside schedules whose
//!    other connections are mid-request or connect afterwards.
//!    Product keys: the index is keyed by the exact product string. Databases in which a product
//!    stands beside members of its key family (`key_neighbours`: other letter case, blanks /
//!    control bytes at the ends, `-` for `_`, one character more or less, other Unicode forms)
//!    must read back, for each of them, ITS OWN newest record (`clean-<ep>-<tr>`), absent members
//!    of the family must get an error (`answered-unknown`, `latest-not-newest`), the loaded
//!    database lists exactly the records' product strings (`index-products-differ`) and so does
//!    `v1/summary` (`summary-not-db-products`).
//!
//! A case is one database: `begin`, `rec`…, `load`, then queries. Request lines are interpreted,
//! so a case file can be replayed verbatim (`--replay`).
use cascette_formats::CascFormat;
use cascette_formats::bpsv::{BpsvDocument, BpsvValue};
use cascette_protocol::{RibbitClient, TactClient};
use cascette_ribbit::{AppState, BuildRecord, DatabaseError, ServerConfig, ServerError};
use std::net::SocketAddr;
use std::sync::Arc;
use std::sync::atomic::{AtomicU32, Ordering};
use std::time::Duration;
use tokio::io::{AsyncReadExt, AsyncWriteExt};
use tokio::net::TcpStream;
use verif_harness::*;

const SEQN_S: u64 = 1_700_000_000;
/// oracle failures of the "server does not answer other clients" kind so far; every one costs
/// several 3 s waits, so the generated run stops after a few (they are all reported)
static WEDGES: AtomicU32 = AtomicU32::new(0);
fn wedge(s: &mut Session, sig: &str, msg: &str, replay: &[String]) {
    WEDGES.fetch_add(1, Ordering::Relaxed);
    s.oracle_fail(sig, msg, replay);
}
const VREG: [&str; 7] = ["us", "eu", "cn", "kr", "tw", "sg", "xx"];
const CREG: [&str; 5] = ["us", "eu", "kr", "tw", "cn"];

fn hx(s: &str) -> String {
    hex(s.as_bytes())
}
fn ohx(s: &Option<String>) -> String {
    match s {
        Some(x) => hx(x),
        None => "~".into(),
    }
}
fn unhx(s: &str) -> Option<String> {
    String::from_utf8(unhex(s)?).ok()
}
fn unohx(s: &str) -> Option<Option<String>> {
    if s == "~" { Some(None) } else { unhx(s).map(Some) }
}

fn rec_line(r: &BuildRecord) -> String {
    format!(
        "rec {} {} {} {} {} {} {} {} {} {} {} {} {} {}",
        r.id, hx(&r.product), hx(&r.version), hx(&r.build), hx(&r.build_config), hx(&r.cdn_config),
        ohx(&r.keyring), ohx(&r.product_config), hx(&r.build_time), hx(&r.encoding_ekey),
        hx(&r.root_ekey), hx(&r.install_ekey), hx(&r.download_ekey), ohx(&r.cdn_path)
    )
}

fn parse_rec(t: &[&str]) -> Option<BuildRecord> {
    if t.len() != 14 {
        return None;
    }
    Some(BuildRecord {
        id: t[0].parse().ok()?,
        product: unhx(t[1])?,
        version: unhx(t[2])?,
        build: unhx(t[3])?,
        build_config: unhx(t[4])?,
        cdn_config: unhx(t[5])?,
        keyring: unohx(t[6])?,
        product_config: unohx(t[7])?,
        build_time: unhx(t[8])?,
        encoding_ekey: unhx(t[9])?,
        root_ekey: unhx(t[10])?,
        install_ekey: unhx(t[11])?,
        download_ekey: unhx(t[12])?,
        cdn_path: unohx(t[13])?,
    })
}

/// what `start_server` returned, once it has returned (it never should while the case runs)
type ExitSlot = Arc<std::sync::Mutex<Option<String>>>;

struct Live {
    state: Arc<AppState>,
    tcp: SocketAddr,
    http: SocketAddr,
    /// [0] = the task running `tcp::start_server`, [1] = `http::start_server`
    tasks: Vec<tokio::task::JoinHandle<()>>,
    exits: Vec<ExitSlot>,
    ribbit: RibbitClient,
    tact: TactClient,
    _dir: tempfile::TempDir,
}

impl Drop for Live {
    fn drop(&mut self) {
        for t in &self.tasks {
            t.abort();
        }
    }
}

#[derive(Default)]
struct Ctx {
    hosts: String,
    path: String,
    recs: Vec<BuildRecord>,
    live: Option<Live>,
    prelude: Vec<String>,
    /// the last line that touched a socket (for the replay of a stop found before the next one)
    last_net: Option<String>,
}

/// the library's accept loop in a task of its own; the slot records what it returned
fn spawn_server(which: usize, addr: SocketAddr, state: Arc<AppState>) -> (tokio::task::JoinHandle<()>, ExitSlot) {
    let slot: ExitSlot = Arc::default();
    let sl = slot.clone();
    let h = tokio::spawn(async move {
        let r = if which == 0 {
            cascette_ribbit::tcp::start_server(addr, state).await
        } else {
            cascette_ribbit::http::start_server(addr, state).await
        };
        let text = match r {
            Ok(()) => "Ok(())".to_string(),
            Err(e) => format!("Err({e})"),
        };
        if let Ok(mut g) = sl.lock() {
            *g = Some(text);
        }
    });
    (h, slot)
}

/// Start the library's accept loop on `first` and wait until it listens. `free_port` hands out a
/// port that is free NOW; between that and the server's own bind somebody else on this machine
/// (other checks run here, and so do this run's own outgoing connections) can take it. Then
/// `start_server` returns its bind error at once, before any request exists — an accident of the
/// setup, not an answer of the server: tallied, and the start is tried again on another port.
/// Anything else a starting server does (also returning for another reason) is left to the oracle.
async fn start_listening(s: &mut Session, which: usize, first: SocketAddr, state: &Arc<AppState>) -> (SocketAddr, tokio::task::JoinHandle<()>, ExitSlot) {
    let mut addr = first;
    for attempt in 0..8 {
        let (h, e) = spawn_server(which, addr, state.clone());
        for _ in 0..400 {
            if h.is_finished() || TcpStream::connect(addr).await.is_ok() {
                break;
            }
            tokio::time::sleep(Duration::from_millis(5)).await;
        }
        // a failed bind is reported by the task within the same poll that started it
        tokio::time::sleep(Duration::from_millis(2)).await;
        let bind_failed = h.is_finished() && e.lock().ok().and_then(|g| g.clone()).is_some_and(|t| t.starts_with("Err(Failed to bind "));
        if !bind_failed || attempt == 7 {
            return (addr, h, e);
        }
        s.tally("setup:port-taken-before-bind-retried");
        addr = free_port();
    }
    unreachable!("the loop returns on its last round")
}

fn free_port() -> SocketAddr {
    let l = std::net::TcpListener::bind("127.0.0.1:0").expect("bind");
    l.local_addr().expect("addr")
}

async fn wait_port(a: SocketAddr) {
    for _ in 0..400 {
        if TcpStream::connect(a).await.is_ok() {
            return;
        }
        tokio::time::sleep(Duration::from_millis(5)).await;
    }
}

fn now_s() -> u64 {
    std::time::SystemTime::now().duration_since(std::time::UNIX_EPOCH).map(|d| d.as_secs()).unwrap_or(0)
}

/// the number after the last `## seqn = ` of a reply (the server writes the wall clock there)
fn seqn_of(reply: &[u8]) -> u64 {
    let pat = b"## seqn = ";
    let mut best = None;
    if reply.len() >= pat.len() {
        for i in 0..=reply.len() - pat.len() {
            if &reply[i..i + pat.len()] == pat {
                best = Some(i + pat.len());
            }
        }
    }
    match best {
        Some(p) => {
            let d: String = reply[p..].iter().take_while(|b| b.is_ascii_digit()).map(|b| *b as char).collect();
            d.parse().unwrap_or(0)
        }
        None => 0,
    }
}

fn bpsv_class(msg: &str) -> String {
    let m = msg.rsplit("BPSV parse error: ").next().unwrap_or(msg);
    let m = m.strip_prefix("Parse error: ").unwrap_or(m);
    let table = [
        ("Empty document", "empty-document"),
        ("Invalid header", "invalid-header"),
        ("Invalid field specification", "invalid-field-spec"),
        ("Invalid type specification", "invalid-type-spec"),
        ("Unknown type", "unknown-type"),
        ("Field count mismatch", "field-count"),
        ("Invalid hex length", "hex-length"),
        ("Invalid hex value", "hex-value"),
        ("Invalid decimal value", "dec-value"),
        ("Invalid sequence number", "seqn"),
        ("Checksum validation failed", "checksum"),
        ("Failed to parse MIME message", "mime"),
        ("No data content found", "mime"),
        ("HTTP status: 404", "http-404"),
    ];
    for (p, c) in table {
        if m.starts_with(p) {
            return format!("err:{c}");
        }
    }
    if m.contains("utf-8") || m.contains("UTF-8") {
        return "err:utf8".into();
    }
    format!("err:other:{}", m.chars().take(40).collect::<String>().replace(' ', "_"))
}

/// canonical text of a document; `window`: sequence numbers inside it print as `T`
fn show_doc(d: &BpsvDocument, window: Option<(u64, u64)>, sum_col: bool) -> String {
    let in_w = |n: u64| window.is_some_and(|(a, b)| a <= n && n <= b);
    let sq = match d.sequence_number() {
        None => "-".to_string(),
        Some(n) if in_w(n as u64) => "T".to_string(),
        Some(n) => n.to_string(),
    };
    let mut rows = vec![];
    for r in d.rows() {
        let mut cells = vec![];
        for (raw, v) in r.raw_values().iter().zip(r.values()) {
            let t = match v {
                BpsvValue::String(_) => "s".to_string(),
                BpsvValue::Empty => "e".to_string(),
                BpsvValue::Hex(b) => format!("h{}", hex(b)),
                BpsvValue::Dec(n) => format!("d{n}"),
            };
            cells.push(format!("{}:{t}", hx(raw)));
        }
        if sum_col && cells.len() == 2 && r.raw_values()[1].parse::<u64>().is_ok_and(in_w) {
            cells[1] = "T".into();
        }
        rows.push(cells.join(","));
    }
    format!("ok seqn={sq} fields={} rows={} {}", d.schema().field_count(), d.row_count(), rows.join(";"))
}

fn newest<'a>(recs: &'a [BuildRecord], p: &str) -> Option<&'a BuildRecord> {
    let mut best: Option<&BuildRecord> = None;
    for r in recs.iter().filter(|r| r.product == p) {
        match best {
            None => best = Some(r),
            Some(b) => {
                if r.build_time.as_bytes() > b.build_time.as_bytes() {
                    best = Some(r);
                }
            }
        }
    }
    best
}

/// the distinct product strings of the records (exact bytes), sorted
fn distinct_products(recs: &[BuildRecord]) -> Vec<String> {
    let mut v: Vec<String> = recs.iter().map(|r| r.product.clone()).collect();
    v.sort();
    v.dedup();
    v
}

fn default_servers(hosts: &str) -> String {
    format!("https://{}/?fallbackProtocol=http", hosts.split_whitespace().next().unwrap_or("cdn.arctium.tools"))
}

/// the rows the property demands for (record, endpoint)
fn expected_rows(ctx: &Ctx, r: &BuildRecord, ep: &str) -> Vec<Vec<String>> {
    if ep == "cdns" {
        let path = r.cdn_path.clone().unwrap_or_else(|| ctx.path.clone());
        CREG.iter()
            .map(|g| vec![g.to_string(), path.clone(), ctx.hosts.clone(), default_servers(&ctx.hosts), path.clone()])
            .collect()
    } else {
        VREG.iter()
            .map(|g| {
                vec![
                    g.to_string(), r.build_config.clone(), r.cdn_config.clone(), r.keyring.clone().unwrap_or_default(),
                    r.build.clone(), r.version.clone(), r.product_config.clone().unwrap_or_default(),
                ]
            })
            .collect()
    }
}

/// which excluded class (if any) the emitted fields fall into — the shape part of the oracle sig
fn dirty_class(fields: &[String], ep: &str, r: Option<&BuildRecord>) -> Option<&'static str> {
    if fields.iter().any(|f| f.contains('\n')) {
        return Some("linebreak");
    }
    if fields.iter().any(|f| f.contains('|')) {
        return Some("pipe");
    }
    if let Some(r) = r {
        if ep != "cdns" {
            if r.build.parse::<i64>().is_err() {
                return Some("build-not-i64");
            }
            let k = r.keyring.clone().unwrap_or_default();
            if !k.is_empty() && (k.len() % 2 != 0 || !k.bytes().all(|b| b.is_ascii_hexdigit())) {
                return Some("keyring-not-hex");
            }
        } else if let Some(last) = fields.last() {
            if last.trim_end() != last {
                return Some("edge-blank");
            }
        }
    }
    None
}

fn lookalike(fields: &[String]) -> bool {
    fields.iter().any(|f| {
        let l = f.to_lowercase();
        l.contains("content-type:") && (l.contains("multipart/alternative") || l.contains("multipart/mixed"))
    })
}

fn addressable_tcp(p: &str) -> bool {
    !p.is_empty() && p.trim() == p && !p.contains('/') && !p.contains('\n')
}
fn addressable_http(p: &str) -> bool {
    !p.is_empty() && p.bytes().all(|b| b.is_ascii_alphanumeric() || b == b'_' || b == b'-' || b == b'.') && p != "." && p != ".."
}

async fn raw_tcp(addr: SocketAddr, bytes: &[u8], half_close: bool) -> Result<Vec<u8>, String> {
    let mut s = TcpStream::connect(addr).await.map_err(|e| e.to_string())?;
    // the server may close while we are still writing an oversized line
    let _ = s.write_all(bytes).await;
    if half_close {
        let _ = s.shutdown().await;
    }
    let mut out = vec![];
    match tokio::time::timeout(Duration::from_secs(8), s.read_to_end(&mut out)).await {
        Ok(Ok(_)) => Ok(out),
        Ok(Err(_)) => Ok(out), // reset by peer after an error = closed
        Err(_) => Err("timeout".into()),
    }
}

async fn raw_http(addr: SocketAddr, path: &str) -> Result<(u16, Vec<u8>), String> {
    let req = format!("GET {path} HTTP/1.1\r\nHost: localhost\r\nConnection: close\r\n\r\n");
    let out = raw_tcp(addr, req.as_bytes(), false).await?;
    let pos = out.windows(4).position(|w| w == b"\r\n\r\n").ok_or("no header end")?;
    let head = String::from_utf8_lossy(&out[..pos]).to_string();
    let status: u16 = head.split(' ').nth(1).and_then(|x| x.parse().ok()).ok_or("no status")?;
    let mut body = out[pos + 4..].to_vec();
    if head.to_lowercase().contains("transfer-encoding: chunked") {
        // de-chunk
        let mut b = vec![];
        let mut i = 0;
        while i < body.len() {
            let e = body[i..].windows(2).position(|w| w == b"\r\n").map(|p| i + p).ok_or("chunk")?;
            let n = usize::from_str_radix(String::from_utf8_lossy(&body[i..e]).trim(), 16).map_err(|e| e.to_string())?;
            if n == 0 {
                break;
            }
            b.extend_from_slice(&body[e + 2..e + 2 + n]);
            i = e + 2 + n + 2;
        }
        body = b;
    }
    Ok((status, body))
}

async fn probe_ok(ctx: &Ctx) -> Result<(), String> {
    let live = ctx.live.as_ref().ok_or("no server")?;
    // a product the database has, else the summary (every loaded database answers that one)
    let (cmd, want): (String, &[u8]) = match ctx.recs.iter().map(|r| r.product.clone()).find(|p| addressable_tcp(p)) {
        Some(p) => (format!("v2/products/{p}/cdns\r\n"), b"Name!STRING:0"),
        None => ("v1/summary\r\n".to_string(), b"MIME-Version: 1.0"),
    };
    let fut = async {
        // a refused connection (nobody listens any more) is told apart from a silent server
        let mut k = TcpStream::connect(live.tcp).await.map_err(|e| format!("connect: {e}"))?;
        let _ = k.write_all(cmd.as_bytes()).await;
        let _ = k.shutdown().await;
        let mut out = vec![];
        let _ = k.read_to_end(&mut out).await;
        Ok::<Vec<u8>, String>(out)
    };
    match tokio::time::timeout(Duration::from_secs(3), fut).await {
        Ok(Ok(b)) if b.starts_with(want) => Ok(()),
        Ok(Ok(b)) => Err(format!("probe got {} bytes", b.len())),
        Ok(Err(e)) => Err(e),
        Err(_) => Err("probe timed out".into()),
    }
}

/// reported `server-stopped` failures of this run (each names its own input; the first few are
/// enough, the others are tallied)
static STOPS: AtomicU32 = AtomicU32::new(0);

/// O (`server-stopped` / `http-server-stopped`): the accept loops are still running. `wait`: a
/// client has just failed — give a returning accept loop up to 300 ms to be seen. A server found
/// stopped is reported (replay: the database and `replay_tail`) and started again on its port, so
/// that the lines after it are judged on their own. Returns whether one had stopped.
async fn ensure_alive(s: &mut Session, ctx: &mut Ctx, what: &str, replay_tail: &[String], wait: bool) -> bool {
    let Some(live) = ctx.live.as_mut() else { return false };
    if wait {
        for _ in 0..60 {
            if live.tasks.iter().any(tokio::task::JoinHandle::is_finished) {
                break;
            }
            tokio::time::sleep(Duration::from_millis(5)).await;
        }
    }
    let mut any = false;
    for which in 0..live.tasks.len().min(2) {
        if !live.tasks[which].is_finished() {
            continue;
        }
        any = true;
        let ret = live.exits[which].lock().ok().and_then(|g| g.clone()).unwrap_or_else(|| "the task panicked".to_string());
        let (sig, name, addr) = if which == 0 { ("server-stopped", "tcp::start_server", live.tcp) } else { ("http-server-stopped", "http::start_server", live.http) };
        s.tally(&format!("oracle:{sig}"));
        if STOPS.fetch_add(1, Ordering::Relaxed) < 8 {
            let mut replay = ctx.prelude.clone();
            replay.extend_from_slice(replay_tail);
            let ret: String = ret.chars().take(300).collect();
            wedge(s, sig, &format!("{what}: {name} has returned {ret} — its listener is gone, every later client is refused"), &replay);
        }
        // start it again so that the following lines meet a server
        let (h, e) = spawn_server(which, addr, live.state.clone());
        live.tasks[which] = h;
        live.exits[which] = e;
        wait_port(addr).await;
    }
    any
}

/// O after a line that touched the TCP listener: a fresh client (another connection) sending a
/// well-formed request is answered within 3 s (`server-wedged`), and the accept loop has not
/// returned (`server-stopped`)
async fn probe_after(s: &mut Session, ctx: &mut Ctx, what: &str, line: &str) {
    let tail = [line.to_string()];
    match probe_ok(ctx).await {
        Ok(()) => {
            ensure_alive(s, ctx, what, &tail, false).await;
        }
        Err(e) => {
            let what = format!("{what} the probe client failed ({e})");
            if !ensure_alive(s, ctx, &what, &tail, true).await {
                wedge(s, "server-wedged", &what, &case_replay(ctx, line));
            }
        }
    }
}

/// the HTTP listener answers a fresh client (raw GET of a product it has) within 3 s
async fn probe_http_ok(ctx: &Ctx) -> Result<(), String> {
    let live = ctx.live.as_ref().ok_or("no server")?;
    let Some(p) = ctx.recs.iter().map(|r| r.product.clone()).find(|p| addressable_http(p)) else { return Ok(()) };
    match tokio::time::timeout(Duration::from_secs(3), raw_http(live.http, &format!("/{p}/cdns"))).await {
        Ok(Ok((200, b))) if b.starts_with(b"Name!STRING:0") => Ok(()),
        Ok(Ok((code, b))) => Err(format!("http probe got status {code}, {} bytes", b.len())),
        Ok(Err(e)) => Err(e),
        Err(_) => Err("http probe timed out".into()),
    }
}

/// `reply:<len>:<first 16 bytes>` / `closed` — what is compared for a connection of a schedule
/// (the reply text itself carries the wall clock and is tied by the `conn`/`cmd` lines)
fn canon_reply(o: &[u8]) -> String {
    if o.is_empty() { "closed".to_string() } else { format!("reply:{}:{}", o.len(), hex(&o[..o.len().min(16)])) }
}

struct SchedConn {
    sock: Option<TcpStream>,
    sent: Vec<u8>,
    got: Vec<u8>,
    result: Option<String>,
    saw_timeout: bool,
    half_closed: bool,
}

impl SchedConn {
    /// read until the server closes the connection; `pending` when nothing ends it within 3 s
    async fn read_to_end(&mut self) -> String {
        if let Some(r) = &self.result {
            return r.clone();
        }
        let Some(k) = self.sock.as_mut() else { return "err:connect".into() };
        let mut buf = [0u8; 8192];
        let deadline = tokio::time::Instant::now() + Duration::from_secs(3);
        loop {
            match tokio::time::timeout_at(deadline, k.read(&mut buf)).await {
                Err(_) => return "pending".into(),
                Ok(Ok(0)) | Ok(Err(_)) => break, // closed (or reset after an error = closed)
                Ok(Ok(n)) => self.got.extend_from_slice(&buf[..n]),
            }
        }
        let r = canon_reply(&self.got);
        self.result = Some(r.clone());
        r
    }
}

/// the connections of a schedule that are open without a complete line, e.g. `#0:0 bytes sent`
fn held_now(conns: &std::collections::BTreeMap<usize, SchedConn>) -> String {
    let v: Vec<String> = conns
        .iter()
        .filter(|(_, c)| c.result.is_none() && !c.sent.contains(&10) && !c.half_closed)
        .map(|(i, c)| format!("#{i}:{} bytes sent", c.sent.len()))
        .collect();
    v.join(", ")
}

fn case_replay(ctx: &Ctx, line: &str) -> Vec<String> {
    let mut v = ctx.prelude.clone();
    v.push(line.to_string());
    v
}

/// O for one end-to-end query
#[allow(clippy::too_many_arguments)]
fn oracle_query(
    s: &mut Session, ctx: &Ctx, line: &str, tr: &str, p: &str, ep: &str,
    res: &Result<BpsvDocument, String>, panicked: bool, window: (u64, u64),
) {
    let addressable = if tr == "http" { addressable_http(p) } else { addressable_tcp(p) };
    let known_ep = matches!(ep, "versions" | "cdns" | "bgdl");
    let rec = newest(&ctx.recs, p);
    if !addressable || !known_ep || rec.is_none() {
        s.tally("oracle:request-not-answerable");
        if panicked {
            s.oracle_fail("client-panic-unanswerable", &format!("client panicked on {tr} {p:?} {ep}"), &case_replay(ctx, line));
        } else if let Ok(d) = res {
            // an unknown product / endpoint must not be answered with data
            if rec.is_none() || !known_ep {
                s.oracle_fail("answered-unknown", &format!("{tr} {p:?} {ep} answered with {} rows", d.row_count()), &case_replay(ctx, line));
            }
        }
        return;
    }
    let r = rec.expect("checked");
    let want = expected_rows(ctx, r, ep);
    let fields: Vec<String> = want[0][1..].to_vec();
    let verdict: Result<(), String> = if panicked {
        Err("client panicked".into())
    } else {
        match res {
            Err(e) => Err(format!("client error {e}")),
            Ok(d) => {
                let got: Vec<Vec<String>> = d.rows().iter().map(|x| x.raw_values().to_vec()).collect();
                if got != want {
                    Err(format!("rows differ: got {} rows, first {:?}, want {:?}", got.len(), got.first(), want.first()))
                } else if !d.sequence_number().is_some_and(|n| window.0 <= n as u64 && n as u64 <= window.1) {
                    Err(format!("sequence number {:?} is not the server's", d.sequence_number()))
                } else if ep != "cdns"
                    && !d.rows().iter().all(|x| x.get(4).and_then(BpsvValue::as_dec) == r.build.parse::<i64>().ok())
                {
                    Err("typed BuildId differs from the record's build".into())
                } else {
                    Ok(())
                }
            }
        }
    };
    match verdict {
        Ok(()) => s.tally("oracle:query-ok"),
        Err(msg) => {
            let class = if panicked {
                "client-panic-slice512".to_string()
            } else if let Some(c) = dirty_class(&fields, ep, Some(r)) {
                format!("dirty-{c}")
            } else if tr != "http" && lookalike(&fields) {
                "dirty-mime-lookalike".to_string()
            } else if tr == "v1" && fields.iter().any(|f| f.contains("--RibbitBoundary")) {
                "dirty-boundary".to_string()
            } else {
                format!("clean-{ep}-{tr}")
            };
            s.tally(&format!("oracle:{class}"));
            s.oracle_fail(&class, &format!("{tr} product {p:?} {ep}: {msg}"), &case_replay(ctx, line));
        }
    }
}

/// one request line; around every line that touches a socket: O `server-stopped` (the accept
/// loops have not returned — before it, so that a stop is never blamed on the wrong line, and
/// after it)
async fn run_line(s: &mut Session, ctx: &mut Ctx, line: &str) {
    let op = line.split(' ').next().unwrap_or("");
    let net = matches!(op, "conn" | "hold" | "storm" | "sched" | "http" | "client" | "clientx" | "clientsum");
    if net && ctx.live.is_some() {
        let mut tail: Vec<String> = ctx.last_net.iter().cloned().collect();
        tail.push(line.to_string());
        ensure_alive(s, ctx, "found before this line was sent (stopped by the line before it, or on its own)", &tail, false).await;
    }
    run_line_inner(s, ctx, line).await;
    if net && ctx.live.is_some() {
        ensure_alive(s, ctx, "after this line", &[line.to_string()], false).await;
        ctx.last_net = Some(line.to_string());
    }
}

async fn run_line_inner(s: &mut Session, ctx: &mut Ctx, line: &str) {
    let toks: Vec<&str> = line.split(' ').collect();
    s.tally(&format!("op:{}", toks[0]));
    match toks.as_slice() {
        ["begin", sq, h, p] => {
            let (Some(h), Some(p)) = (h.strip_prefix("hosts=").and_then(unhx), p.strip_prefix("path=").and_then(unhx)) else {
                s.line(line, "bad-op");
                return;
            };
            if *sq != format!("seqn={SEQN_S}") {
                s.line(line, "bad-op");
                return;
            }
            *ctx = Ctx { hosts: h, path: p, ..Default::default() };
            ctx.prelude.push(line.to_string());
            s.line(line, "ok");
        }
        ["rec", rest @ ..] => match parse_rec(rest) {
            Some(r) => {
                let resp = match r.validate() {
                    Ok(()) => "ok".to_string(),
                    Err(DatabaseError::InvalidField { field, .. }) => format!("err:{field}"),
                    Err(e) => format!("err:other:{e}"),
                };
                ctx.recs.push(r);
                ctx.prelude.push(line.to_string());
                s.line(line, &resp);
            }
            None => s.line(line, "bad-op"),
        },
        ["load", _] => {
            let dir = tempfile::tempdir().expect("tempdir");
            let file = dir.path().join("builds.json");
            std::fs::write(&file, serde_json::to_string(&ctx.recs).expect("json")).expect("write json");
            let tcp = free_port();
            let http = free_port();
            let cfg = ServerConfig {
                http_bind: http, tcp_bind: tcp, builds: file, cdn_hosts: ctx.hosts.clone(), cdn_path: ctx.path.clone(),
                tls_cert: None, tls_key: None,
            };
            match AppState::new(&cfg) {
                Ok(st) => {
                    let state = Arc::new(st);
                    let order: Vec<String> = state.database().products().iter().map(|p| hx(p)).collect();
                    let (tcp, t1, e1) = start_listening(s, 0, tcp, &state).await;
                    let (http, t2, e2) = start_listening(s, 1, http, &state).await;
                    let req = format!("load {}", order.join(","));
                    let resp = format!("ok products={} total={}", order.len(), state.database().total_builds());
                    // O (`index-products-differ`): the index lists exactly the distinct product
                    // strings of the records, byte for byte (no two of them share an entry, none
                    // is renamed), and counts every record
                    let mut have: Vec<String> = state.database().products().iter().map(|p| (*p).to_string()).collect();
                    have.sort();
                    let want = distinct_products(&ctx.recs);
                    if have != want || state.database().total_builds() != ctx.recs.len() {
                        let mut replay = ctx.prelude.clone();
                        replay.push(req.clone());
                        s.oracle_fail(
                            "index-products-differ",
                            &format!(
                                "the loaded database lists products {have:?} ({} builds), the records' product strings are {want:?} ({} records)",
                                state.database().total_builds(), ctx.recs.len()
                            ),
                            &replay,
                        );
                    }
                    ctx.live = Some(Live {
                        state, tcp, http, tasks: vec![t1, t2], exits: vec![e1, e2],
                        ribbit: RibbitClient::new(format!("{tcp}")).expect("ribbit client"),
                        tact: TactClient::new(format!("http://{http}"), false).expect("tact client"),
                        _dir: dir,
                    });
                    ctx.prelude.push(req.clone());
                    s.line(&req, &resp);
                }
                Err(e) => {
                    let resp = match e {
                        ServerError::Database(DatabaseError::InvalidField { field, .. }) => format!("err:{field}"),
                        ServerError::Database(DatabaseError::EmptyDatabase) => "err:empty".to_string(),
                        other => format!("err:other:{other}"),
                    };
                    ctx.prelude.push("load -".into());
                    s.line("load -", &resp);
                }
            }
        }
        ["latest", p] => {
            let (Some(live), Some(p)) = (ctx.live.as_ref(), unhx(p)) else {
                s.line(line, "bad-op");
                return;
            };
            let got = live.state.database().latest_build(&p).map(|r| r.id);
            let resp = got.map_or("none".to_string(), |i| i.to_string());
            s.line(line, &resp);
            // O: newest by build_time, first among equals
            let want = newest(&ctx.recs, &p).map(|r| r.id);
            if got != want {
                s.oracle_fail("latest-not-newest", &format!("latest_build({p:?}) = {got:?}, newest record is {want:?}"), &case_replay(ctx, line));
            }
            s.case(got.map(|_| line));
        }
        ["cmd", _, c] => {
            let (Some(live), Some(c)) = (ctx.live.as_ref(), unhx(c)) else {
                s.line(line, "bad-op");
                return;
            };
            let st = live.state.clone();
            let c2 = c.clone();
            let r = catch(std::panic::AssertUnwindSafe(move || cascette_ribbit::tcp::handlers::handle_command(&c2, &st)));
            let (sq, resp) = match r {
                Ok(Ok(t)) => (seqn_of(t.as_bytes()), format!("ok {}", hx(&t))),
                Ok(Err(_)) => (0, "err".to_string()),
                Err(_) => {
                    s.oracle_fail("server-panic", &format!("handle_command panicked on {c:?}"), &case_replay(ctx, line));
                    (0, "panic".to_string())
                }
            };
            s.line(&format!("cmd {sq} {}", hx(&c)), &resp);
            s.case(if resp.starts_with("ok") { Some(line) } else { None });
        }
        ["conn", _, b] => {
            let (Some(live), Some(b)) = (ctx.live.as_ref(), unhex(b)) else {
                s.line(line, "bad-op");
                return;
            };
            let r = raw_tcp(live.tcp, &b, true).await;
            let (sq, resp) = match &r {
                Ok(o) if o.is_empty() => (0, "closed".to_string()),
                Ok(o) => (seqn_of(o), format!("ok {}", hex(o))),
                Err(e) => (0, format!("err:{e}")),
            };
            let req = format!("conn {sq} {}", hex(&b));
            s.line(&req, &resp);
            if r.is_err() {
                s.oracle_fail("server-no-close", "connection neither answered nor closed within 8 s", &case_replay(ctx, &req));
            }
            probe_after(s, ctx, &format!("after a request of {} bytes ({:?})", b.len(), String::from_utf8_lossy(&b[..b.len().min(60)])), &req).await;
            s.case(Some(&req));
        }
        ["hold", b] | ["hold", b, _] => {
            // `n` connections (default 8) that never terminate their request line — `-`: that
            // never send a byte — opened on the TCP and on the HTTP listener BEFORE the probing
            // clients connect and kept open: both servers must go on answering others
            let n = match toks.get(2) {
                None => Some(8usize),
                Some(x) => x.parse::<usize>().ok(),
            };
            let (Some(live), Some(b), Some(n)) = (ctx.live.as_ref(), unhex(b), n) else {
                s.line(line, "bad-op");
                return;
            };
            if b.contains(&10) {
                s.line(line, "bad-op");
                return;
            }
            let n = n.min(1024);
            let mut socks = vec![];
            for addr in [live.tcp, live.http] {
                for _ in 0..n {
                    if let Ok(mut k) = TcpStream::connect(addr).await {
                        if !b.is_empty() {
                            let _ = k.write_all(&b).await;
                            let _ = k.flush().await;
                        }
                        socks.push(k);
                    }
                }
            }
            s.tally(if b.is_empty() { "hold:zero-bytes" } else { "hold:open-line" });
            let ok = probe_ok(ctx).await;
            let okh = probe_http_ok(ctx).await;
            s.line(line, "pending");
            let what = if b.is_empty() { "connections that have sent nothing at all".to_string() } else { format!("unterminated requests of {} bytes", b.len()) };
            let tail = [line.to_string()];
            if let Err(e) = ok {
                let w = format!("with {n} {what} open (opened before it) the probe client failed: {e}");
                if !ensure_alive(s, ctx, &w, &tail, true).await {
                    wedge(s, "server-wedged", &w, &case_replay(ctx, line));
                }
            }
            if let Err(e) = okh {
                let w = format!("with {n} {what} open on the HTTP listener (opened before it) the HTTP probe client failed: {e}");
                if !ensure_alive(s, ctx, &w, &tail, true).await {
                    wedge(s, "http-server-wedged", &w, &case_replay(ctx, line));
                }
            }
            // the held sockets were open during the probes (none was closed by the server for
            // being silent: that takes the 10 s read timeout)
            drop(socks);
            s.case(Some(line));
        }
        ["storm", n, reqs] => {
            // several clients at once: every request is answered as if it were alone
            let (Some(live), Ok(n)) = (ctx.live.as_ref(), n.parse::<usize>()) else {
                s.line(line, "bad-op");
                return;
            };
            let reqs: Option<Vec<Vec<u8>>> = reqs.split(',').map(unhex).collect();
            let Some(reqs) = reqs else {
                s.line(line, "bad-op");
                return;
            };
            let mut hs = vec![];
            for k in 0..n.max(1) {
                for (i, b) in reqs.iter().enumerate() {
                    let (addr, b) = (live.tcp, b.clone());
                    hs.push((k, i, tokio::spawn(async move { raw_tcp(addr, &b, true).await })));
                }
            }
            let mut per_req: Vec<Option<String>> = vec![None; reqs.len()];
            let mut consistent = true;
            for (_, i, h) in hs {
                let o = match h.await {
                    Ok(Ok(o)) if o.is_empty() => "closed".to_string(),
                    Ok(Ok(o)) => format!("reply:{}", o.len()),
                    _ => "failed".to_string(),
                };
                match &per_req[i] {
                    None => per_req[i] = Some(o),
                    Some(prev) => consistent &= *prev == o,
                }
            }
            let resp: Vec<String> = per_req.into_iter().map(|x| x.unwrap_or_default()).collect();
            s.line(line, &resp.join(","));
            if !consistent || resp.iter().any(|x| x == "failed") {
                s.oracle_fail("storm-inconsistent", &format!("concurrent identical requests were answered differently: {resp:?}"), &case_replay(ctx, line));
            }
            probe_after(s, ctx, "after a storm", line).await;
            s.case(Some(line));
        }
        ["sched", evs] => {
            // an interleaving of socket events over several connections (the model: srvRun);
            // `o<i>` opens connection i and sends nothing (every other event on a connection not
            // seen before opens it first); `r<i>` reads connection i until the server closes it
            // (3 s → `pending`)
            let Some(live) = ctx.live.as_ref() else {
                s.line(line, "bad-op");
                return;
            };
            let addr = live.tcp;
            let mut conns: std::collections::BTreeMap<usize, SchedConn> = std::collections::BTreeMap::new();
            let mut results: Vec<String> = vec![];
            let mut bad = false;
            let mut timed = false;
            let mut unanswered: Vec<(usize, usize, String)> = vec![];
            if evs.starts_with('o') {
                s.tally("sched:silent-connection-opened-first");
            }
            for tok in evs.split(',') {
                if tok == "T" {
                    // longer than the server's 10 s read timeout
                    tokio::time::sleep(Duration::from_millis(11_000)).await;
                    timed = true;
                    for c in conns.values_mut() {
                        c.saw_timeout = true;
                    }
                    continue;
                }
                let (kind, rest) = tok.split_at(tok.len().min(1));
                let (idx, payload) = match rest.split_once(':') {
                    Some((a, b)) => (a, Some(b)),
                    None => (rest, None),
                };
                let Ok(i) = idx.parse::<usize>() else {
                    bad = true;
                    break;
                };
                let ok_shape = match kind {
                    "d" => payload.and_then(unhex).is_some(),
                    "e" | "r" | "o" => payload.is_none(),
                    _ => false,
                };
                if !ok_shape {
                    bad = true;
                    break;
                }
                if !conns.contains_key(&i) {
                    let sock = TcpStream::connect(addr).await.ok();
                    conns.insert(i, SchedConn { sock, sent: vec![], got: vec![], result: None, saw_timeout: false, half_closed: false });
                }
                let c = conns.get_mut(&i).expect("inserted");
                match kind {
                    "d" => {
                        let b = payload.and_then(unhex).expect("checked");
                        if c.result.is_none() {
                            c.sent.extend_from_slice(&b);
                        }
                        if let Some(k) = c.sock.as_mut() {
                            let _ = k.write_all(&b).await;
                            let _ = k.flush().await;
                        }
                    }
                    "e" => {
                        if let Some(k) = c.sock.as_mut() {
                            let _ = k.shutdown().await;
                        }
                        c.half_closed = true;
                    }
                    "o" => {} // connected above; stays silent
                    _ => {
                        let r = c.read_to_end().await;
                        let (complete, n) = (c.sent.contains(&10) || c.half_closed, c.sent.len());
                        if r == "pending" && complete {
                            unanswered.push((i, n, held_now(&conns)));
                        }
                        results.push(r);
                    }
                }
            }
            if bad {
                s.line(line, "bad-op");
                return;
            }
            let resp = if results.is_empty() { "-".to_string() } else { results.join(",") };
            s.line(line, &resp);
            // who is holding a connection open without a complete line (for the messages)
            let held = held_now(&conns);
            let zero_held = conns.values().any(|c| c.result.is_none() && c.sent.is_empty() && !c.half_closed);
            if zero_held {
                s.tally("sched:zero-byte-neighbour-open-at-end");
            }
            // O: a complete request line (or a half-closed one) is answered or closed, whatever
            // the neighbours do
            for (i, n, held_then) in &unanswered {
                wedge(
                    s,
                    "conn-unanswered",
                    &format!("connection {i} of the schedule sent its request ({n} bytes, line complete or half-closed) and was neither answered nor closed within 3 s; open at that moment without a line end: [{held_then}]"),
                    &case_replay(ctx, line),
                );
            }
            // O: the server goes on answering while the unterminated connections are still open
            probe_after(s, ctx, &format!("with the schedule's connections open (held without a line end: [{held}])"), line).await;
            // O (isolation): every answered connection got what its own bytes get alone
            for (i, c) in &conns {
                let Some(got) = &c.result else { continue };
                if c.saw_timeout && timed {
                    continue; // closed by the read timeout: a lone replay with a half-close differs by design
                }
                let mut alone = match raw_tcp(addr, &c.sent, true).await {
                    Ok(o) => canon_reply(&o),
                    Err(e) => format!("err:{e}"),
                };
                if alone.starts_with("err:") || alone != *got {
                    // nobody listening? then that is the finding (reported once, with this line),
                    // and this connection's bytes are tried again on the restarted server
                    let w = format!("while connection {i}'s {} bytes were sent alone (answered {alone})", c.sent.len());
                    if ensure_alive(s, ctx, &w, &[line.to_string()], true).await {
                        alone = match raw_tcp(addr, &c.sent, true).await {
                            Ok(o) => canon_reply(&o),
                            Err(e) => format!("err:{e}"),
                        };
                    }
                }
                if &alone != got {
                    s.oracle_fail(
                        "conn-not-isolated",
                        &format!("connection {i} of the schedule was answered {got}, its {} bytes alone are answered {alone}", c.sent.len()),
                        &case_replay(ctx, line),
                    );
                } else {
                    s.tally("oracle:conn-isolated-ok");
                }
            }
            drop(conns);
            s.case(if resp.contains("reply:") { Some(line) } else { None });
        }
        ["http", _, p] => {
            let (Some(live), Some(p)) = (ctx.live.as_ref(), unhx(p)) else {
                s.line(line, "bad-op");
                return;
            };
            let (sq, resp) = match raw_http(live.http, &p).await {
                Ok((200, body)) => (seqn_of(&body), format!("200 {}", hex(&body))),
                Ok((code, _)) => (0, code.to_string()),
                Err(e) => (0, format!("err:{e}")),
            };
            s.line(&format!("http {sq} {}", hx(&p)), &resp);
            if !resp.starts_with("200") {
                // O: a path that is not answered leaves the HTTP server answering other clients
                if let Err(e) = probe_http_ok(ctx).await {
                    let w = format!("after GET {p:?} (answered {resp}) the HTTP probe client failed: {e}");
                    if !ensure_alive(s, ctx, &w, &[line.to_string()], true).await {
                        wedge(s, "http-server-wedged", &w, &case_replay(ctx, line));
                    }
                }
            }
            s.case(if resp.starts_with("200") { Some(line) } else { None });
        }
        ["parse", t] => {
            let Some(b) = unhex(t) else {
                s.line(line, "bad-op");
                return;
            };
            let b2 = b.clone();
            let r = catch(std::panic::AssertUnwindSafe(move || <BpsvDocument as CascFormat>::parse(&b2).map_err(|e| e.to_string())));
            let resp = match r {
                Ok(Ok(d)) => show_doc(&d, None, false),
                Ok(Err(e)) => bpsv_class(&e),
                Err(_) => "panic".to_string(),
            };
            s.line(line, &resp);
            s.case(if resp.starts_with("ok") { Some(line) } else { None });
        }
        ["client", tr, p, ep] | ["clientx", tr, p, ep] => {
            let (Some(live), Some(p)) = (ctx.live.as_ref(), unhx(p)) else {
                s.line(line, "bad-op");
                return;
            };
            let t0 = now_s();
            let endpoint = format!("{}/products/{p}/{ep}", if *tr == "v2" { "v2" } else { "v1" });
            // the client may panic (slice at byte 512); run it in its own task to observe that
            let res: Result<Result<BpsvDocument, String>, ()> = match *tr {
                "v1" | "v2" => {
                    let c = RibbitClient::new(format!("{}", live.tcp)).expect("client");
                    let _ = &live.ribbit;
                    tokio::spawn(async move { c.query(&endpoint).await.map_err(|e| e.to_string()) }).await.map_err(|_| ())
                }
                "http" => {
                    let r = live.tact.query(&endpoint).await.map_err(|e| e.to_string());
                    Ok(r)
                }
                _ => {
                    s.line(line, "bad-op");
                    return;
                }
            };
            let t1 = now_s();
            let (flat, panicked) = match res {
                Ok(r) => (r, false),
                Err(()) => (Err("panic".to_string()), true),
            };
            let resp = if toks[0] == "clientx" {
                "skip".to_string()
            } else if panicked {
                "panic".to_string()
            } else {
                match &flat {
                    Ok(d) => show_doc(d, Some((t0, t1)), false),
                    Err(e) => bpsv_class(e),
                }
            };
            s.line(line, &resp);
            oracle_query(s, ctx, line, tr, &p, ep, &flat, panicked, (t0, t1));
            let key = format!("{line} {:?}", newest(&ctx.recs, &p));
            s.case(if flat.is_ok() { Some(&key) } else { None });
        }
        ["clientsum", _] | ["clientsum"] => {
            let Some(live) = ctx.live.as_ref() else {
                s.line(line, "bad-op");
                return;
            };
            let t0 = now_s();
            let c = RibbitClient::new(format!("{}", live.tcp)).expect("client");
            let res = tokio::spawn(async move { c.query("v1/summary").await.map_err(|e| e.to_string()) }).await;
            let t1 = now_s();
            let (flat, panicked) = match res {
                Ok(r) => (r, false),
                Err(_) => (Err("panic".to_string()), true),
            };
            let resp = if panicked {
                "panic".to_string()
            } else {
                match &flat {
                    Ok(d) => show_doc(d, Some((t0, t1)), true),
                    Err(e) => bpsv_class(e),
                }
            };
            s.line("clientsum", &resp);
            // O: one row per product, in the server's order
            let order: Vec<String> = live.state.database().products().iter().map(|p| (*p).to_string()).collect();
            // … and the names are the records' product strings, byte for byte (computed from the
            // records, not from the server's index)
            let mut listed = order.clone();
            listed.sort();
            let names_ok = listed == distinct_products(&ctx.recs);
            let ok = names_ok && match &flat {
                Ok(d) => {
                    d.row_count() == order.len()
                        && d.rows().iter().zip(&order).all(|(r, p)| {
                            r.raw_values()[0] == *p && r.raw_values()[1].parse::<u64>().is_ok_and(|n| t0 <= n && n <= t1)
                        })
                }
                Err(_) => false,
            };
            if ok {
                s.tally("oracle:summary-ok");
            } else {
                let class = if panicked {
                    "client-panic-slice512".to_string()
                } else if !names_ok {
                    "summary-not-db-products".to_string()
                } else if let Some(c) = dirty_class(&order, "summary", None) {
                    format!("dirty-{c}")
                } else if order.iter().any(|p| p.starts_with('#')) {
                    "dirty-summary-hash".to_string()
                } else if order.iter().any(|p| p.trim_start() != p) {
                    "dirty-edge-blank".to_string()
                } else if lookalike(&order) {
                    "dirty-mime-lookalike".to_string()
                } else {
                    "clean-summary-v1".to_string()
                };
                s.tally(&format!("oracle:{class}"));
                let msg = match &flat {
                    _ if !names_ok => format!("the server's summary is built from products {order:?}, the records' product strings are {:?}", distinct_products(&ctx.recs)),
                    Ok(d) => format!("summary has {} rows for {} products {:?}", d.row_count(), order.len(), order),
                    Err(e) => format!("summary: client error {e}"),
                };
                s.oracle_fail(&class, &msg, &case_replay(ctx, "clientsum"));
            }
            s.case(if flat.is_ok() { Some("clientsum") } else { None });
        }
        _ => s.line(line, "bad-op"),
    }
}

// ---------------------------------------------------------------- generators

fn hash32(rng: &mut Rng) -> String {
    let mut h = hex::encode(rng.bytes(16));
    if rng.chance(1, 6) {
        h = h.to_uppercase();
    }
    h
}

const DIRTY_BITS: [&str; 22] = [
    "|", "\n", "\r\n", " ", "\t", "\u{a0}", "\u{3000}", "#", "## seqn = 7", "## seqn = x", "\n--RibbitBoundary--\n",
    "--RibbitBoundary", "Content-Type: multipart/mixed", "Checksum: ", "!", ":", "=", "\r", "é", "ü", "\u{1F600}", "\n\n",
];

fn gen_text(rng: &mut Rng, clean: bool) -> String {
    let base = ["1.13.2.32600", "11.0.7.58187", "0.1", "a b", "wow", "x", "Checksum: abc", "é1", "1.0.0-beta+meta", "v=1:2!3"];
    let mut s = (*rng.pick(&base)).to_string();
    if clean {
        return s;
    }
    for _ in 0..rng.range(1, 3) {
        let bit = *rng.pick(&DIRTY_BITS);
        match rng.below(3) {
            0 => s = format!("{bit}{s}"),
            1 => s = format!("{s}{bit}"),
            _ => {
                let cut = s.char_indices().map(|(i, _)| i).nth(rng.below(s.chars().count() as u64 + 1) as usize).unwrap_or(s.len());
                s.insert_str(cut, bit);
            }
        }
    }
    if rng.chance(1, 12) {
        // long multi-byte run: moves byte 512 of the reply inside a character
        s.push_str(&"a".repeat(rng.below(2) as usize));
        s.push_str(&"ü".repeat(300));
    }
    s
}

fn gen_build(rng: &mut Rng, clean: bool) -> String {
    if clean || rng.chance(1, 2) {
        let c = ["1", "32600", "58187", "007", "0", "9223372036854775807", "+5", "-7", "-9223372036854775808"];
        (*rng.pick(&c)).to_string()
    } else {
        let d = ["abc", "12a", " 5", "5 ", "５", "9223372036854775808", "99999999999999999999", "+", "-", "1|2", "1\n2", "1_000", "0x10", "1.5"];
        (*rng.pick(&d)).to_string()
    }
}

fn gen_keyring(rng: &mut Rng, clean: bool) -> Option<String> {
    match rng.below(if clean { 3 } else { 8 }) {
        0 => None,
        1 => Some(hash32(rng)),
        2 => Some(String::new()),
        3 => Some("abc".into()),
        4 => Some("zz".into()),
        5 => Some("é".into()),
        6 => Some("ab|cd".into()),
        _ => Some(" ab".into()),
    }
}

fn gen_product(rng: &mut Rng, clean: bool) -> String {
    if clean || rng.chance(2, 3) {
        let c = ["wow", "wow_classic", "wowt", "d3", "pro", "agent", "w3", "s2", "bna", "hero"];
        (*rng.pick(&c)).to_string()
    } else {
        let d = ["a/b", " lead", "trail ", "#hash", "## seqn = 9", "p q", "ü", "p|q", "p\nq", "\u{a0}x", "versions", "wow/versions", "Content-Type: multipart/mixed"];
        (*rng.pick(&d)).to_string()
    }
}

fn gen_time(rng: &mut Rng) -> String {
    let c = [
        "2024-01-01T00:00:00+00:00", "2024-06-01T00:00:00+00:00", "2019-11-21T18:33:35+00:00", "2024-01-01T00:00:00+00:00",
        "T:", "T:z", "T:é", "9T:", "10T:", "2024-01-01T00:00:00Z", "z:T", "~T:",
    ];
    (*rng.pick(&c)).to_string()
}

fn gen_record(rng: &mut Rng, id: u64, product: String, clean: bool) -> BuildRecord {
    let dirty_field = if clean { 99 } else { rng.below(5) };
    let mut r = BuildRecord {
        id,
        product,
        version: gen_text(rng, dirty_field != 0),
        build: gen_build(rng, dirty_field != 1),
        build_config: hash32(rng),
        cdn_config: hash32(rng),
        keyring: gen_keyring(rng, dirty_field != 2),
        product_config: if rng.chance(1, 2) { Some(hash32(rng)) } else { None },
        build_time: gen_time(rng),
        encoding_ekey: hash32(rng),
        root_ekey: hash32(rng),
        install_ekey: hash32(rng),
        download_ekey: hash32(rng),
        cdn_path: match rng.below(if dirty_field == 3 { 8 } else { 3 }) {
            0 | 1 => None,
            2 => Some("tpr/wow_x".into()),
            3 => Some(String::new()),
            4 => Some(" x ".into()),
            5 => Some("a|b".into()),
            6 => Some("x\u{3000}".into()),
            _ => Some("a\nb".into()),
        },
    };
    if dirty_field == 4 {
        // records the validator must reject
        let bad_hash = |rng: &mut Rng| -> String {
            match rng.below(5) {
                0 => "0123".into(),
                1 => "g".repeat(32),
                2 => format!("{}é", "a".repeat(30)),
                3 => String::new(),
                _ => "0".repeat(33),
            }
        };
        match rng.below(11) {
            0 => r.product = String::new(),
            1 => r.version = String::new(),
            2 => r.build = String::new(),
            3 => r.build_config = bad_hash(rng),
            4 => r.cdn_config = bad_hash(rng),
            5 => r.product_config = Some(bad_hash(rng)),
            6 => r.encoding_ekey = bad_hash(rng),
            7 => r.root_ekey = bad_hash(rng),
            8 => r.install_ekey = bad_hash(rng),
            9 => r.download_ekey = bad_hash(rng),
            _ => r.build_time = (*rng.pick(&["2024-01-01", "12:00", "", "t:"])).to_string(),
        }
    }
    r
}

fn malformed_requests(rng: &mut Rng, products: &[String]) -> Vec<Vec<u8>> {
    let p = products.first().cloned().unwrap_or_else(|| "wow".into());
    let mut v: Vec<Vec<u8>> = vec![
        b"\r\n".to_vec(),
        b"".to_vec(),
        b"\n".to_vec(),
        b"v1/summary".to_vec(),
        b"  v1/summary  \r\n".to_vec(),
        b"v1/summary/x\r\n".to_vec(),
        b"v2/summary\r\n".to_vec(),
        b"v3/products/wow/versions\r\n".to_vec(),
        format!("v1/products/{p}\r\n").into_bytes(),
        format!("v1/products/{p}/versions/extra\r\n").into_bytes(),
        format!("v1/product/{p}/versions\r\n").into_bytes(),
        format!("V1/products/{p}/versions\r\n").into_bytes(),
        format!("v2/products/{p}/certs\r\n").into_bytes(),
        format!("v2/products/{p}/versions\nv2/products/{p}/cdns\n").into_bytes(),
        format!("v2/products/{p}/cdns").into_bytes(),
        format!("\u{a0}v2/products/{p}/cdns\u{3000}\r\n").into_bytes(),
        b"v1/products/nosuch/versions\r\n".to_vec(),
        b"v1/products//versions\r\n".to_vec(),
        b"\xff\xfe\xfd\r\n".to_vec(),
        b"v1/products/\xc3\x28/versions\r\n".to_vec(),
        b"GET / HTTP/1.1\r\n\r\n".to_vec(),
        vec![0u8; 64],
    ];
    let mut big = vec![b'A'; 1 << 20];
    big.extend_from_slice(b"\r\n");
    v.push(big);
    let mut junk = rng.bytes(200);
    junk.push(b'\n');
    v.push(junk);
    v
}

/// one schedule: several connections with their own scripts, merged in a random order that keeps
/// each connection's own order. `pending_read`: also read a connection whose line is still open.
fn gen_sched(rng: &mut Rng, products: &[String], pending_read: bool, with_timeout: bool) -> String {
    let good: Vec<String> = products.iter().filter(|p| addressable_tcp(p)).cloned().collect();
    let nconn = rng.range(3, 6) as usize;
    let mut scripts: Vec<Vec<String>> = vec![];
    let split = |rng: &mut Rng, b: &[u8]| -> Vec<Vec<u8>> {
        // 1..3 non-empty segments
        let mut cuts: Vec<usize> = (0..rng.below(3)).map(|_| rng.below(b.len() as u64 + 1) as usize).collect();
        cuts.sort_unstable();
        let mut out = vec![];
        let mut last = 0;
        for c in cuts {
            if c > last {
                out.push(b[last..c].to_vec());
                last = c;
            }
        }
        if last < b.len() || out.is_empty() {
            out.push(b[last..].to_vec());
        }
        out.into_iter().filter(|x| !x.is_empty()).collect()
    };
    for i in 0..nconn {
        let mut sc = vec![];
        let kind = if i == 0 { 4 } else if i == 1 { 0 } else { rng.below(7) };
        let line: Vec<u8> = match kind {
            0 | 5 | 6 if !good.is_empty() => {
                let p = rng.pick(&good).clone();
                let v = *rng.pick(&["v1", "v2"]);
                let ep = *rng.pick(&["versions", "cdns", "bgdl"]);
                format!("{v}/products/{p}/{ep}").into_bytes()
            }
            0 | 5 | 6 => b"v1/summary".to_vec(),
            1 => (*rng.pick(&[&b"v3/x"[..], &b"\xff\xfe"[..], &b"v1/products/nosuch/versions"[..], &b""[..], &b"v2/products/wow"[..], &b"  v1/summary  "[..]])).to_vec(),
            2 => b"v1/summary".to_vec(),
            3 => vec![],
            _ => (*rng.pick(&[&b"v1/products/wow/versions"[..], &b"v2/prod"[..], &b"\xff"[..], &b"GET / HTTP/1.1\r"[..]])).to_vec(),
        };
        match kind {
            // a terminated line, in segments; sometimes a half-close too; then read
            0 | 1 | 5 | 6 => {
                let mut b = line.clone();
                b.extend_from_slice(*rng.pick(&[&b"\r\n"[..], &b"\n"[..], &b"\r\nv2/products/wow/cdns\r\n"[..]]));
                for seg in split(rng, &b) {
                    sc.push(format!("d{i}:{}", hex(&seg)));
                }
                if rng.chance(1, 3) {
                    sc.push(format!("e{i}"));
                }
                sc.push(format!("r{i}"));
                if rng.chance(1, 4) {
                    sc.push(format!("d{i}:{}", hex(b"v2/products/wow/cdns\r\n")));
                    sc.push(format!("r{i}"));
                }
            }
            // no line end: the half-close ends the line
            2 => {
                for seg in split(rng, &line) {
                    sc.push(format!("d{i}:{}", hex(&seg)));
                }
                sc.push(format!("e{i}"));
                sc.push(format!("r{i}"));
            }
            // nothing at all (accepted, silent while the merge puts others in between), then a
            // half-close
            3 => {
                sc.push(format!("o{i}"));
                sc.push(format!("e{i}"));
                sc.push(format!("r{i}"));
            }
            // held open: a line that is never terminated
            _ => {
                for seg in split(rng, &line) {
                    sc.push(format!("d{i}:{}", hex(&seg)));
                }
                if pending_read && i == 0 {
                    // still pending while others are served; completed and read at the end
                    sc.push(format!("r{i}"));
                    sc.push(format!("d{i}:{}", hex(b"\n")));
                    sc.push(format!("r{i}"));
                }
            }
        }
        scripts.push(sc);
    }
    // random merge
    let mut pos = vec![0usize; scripts.len()];
    let mut out: Vec<String> = vec![];
    loop {
        let live: Vec<usize> = (0..scripts.len()).filter(|&k| pos[k] < scripts[k].len()).collect();
        if live.is_empty() {
            break;
        }
        let k = *rng.pick(&live);
        out.push(scripts[k][pos[k]].clone());
        pos[k] += 1;
    }
    if with_timeout {
        // one more connection holds an open line across the server's read timeout, and a
        // connection opened after it is served
        let h = scripts.len();
        out.insert(0, format!("d{h}:{}", hex(b"v1/products/wow/versions")));
        // and one that never sends a byte: closed by the timeout, no reply
        out.insert(0, format!("o{}", h + 2));
        out.push("T".into());
        out.push(format!("r{h}"));
        out.push(format!("r{}", h + 2));
        out.push(format!("d{}:{}", h + 1, hex(b"v1/summary\r\n")));
        out.push(format!("r{}", h + 1));
    }
    format!("sched {}", out.join(","))
}

/// what a connection can hold without ever ending its line — the boundary family around "has
/// sent nothing yet": zero bytes, the first 1, 2, 3, 4 bytes of a request, all but its last byte,
/// the whole line without its end, and first bytes of other protocols / blanks / non-UTF-8.
fn held_family(line: &[u8]) -> Vec<Vec<u8>> {
    let mut v: Vec<Vec<u8>> = vec![];
    for n in [1usize, 2, 3, 4, line.len().saturating_sub(1), line.len()] {
        v.push(line[..n.min(line.len())].to_vec());
    }
    for f in [&b"\r"[..], b" ", b"\x16", b"\x16\x03\x01", b"GET", b"GET / HTTP/1.1\r", b"\xff", b"\x00", b"PO"] {
        v.push(f.to_vec());
    }
    v
}

/// a schedule whose FIRST events open the held connections — `v` even: connection 0 has sent
/// nothing at all (`o0`), `v` odd: member `v/2` of `held_family` — and only then lets the probing
/// clients connect, send complete requests and read their answers; at the end connection 0
/// completes its own line and must be answered too (or half-closes, or just stays open).
fn gen_sched_held_first(rng: &mut Rng, products: &[String], v: usize) -> String {
    let good: Vec<String> = products.iter().filter(|p| addressable_tcp(p)).cloned().collect();
    let request = |rng: &mut Rng| -> Vec<u8> {
        if good.is_empty() || rng.chance(1, 6) {
            return b"v1/summary".to_vec();
        }
        let p = rng.pick(&good).clone();
        format!("{}/products/{p}/{}", *rng.pick(&["v1", "v2"]), *rng.pick(&["versions", "cdns", "bgdl"])).into_bytes()
    };
    let own = request(rng);
    let fam = held_family(&own);
    let mut out: Vec<String> = vec![];
    let mut held: Vec<Vec<u8>> = vec![if v % 2 == 0 { vec![] } else { fam[(v / 2) % fam.len()].clone() }];
    // up to two more held neighbours, any member of the family or silent
    for _ in 0..rng.below(3) {
        held.push(if rng.chance(1, 2) { vec![] } else { rng.pick(&fam).clone() });
    }
    for (i, h) in held.iter().enumerate() {
        out.push(if h.is_empty() { format!("o{i}") } else { format!("d{i}:{}", hex(h)) });
    }
    // the probing clients: complete lines, each read to its end; merged in a random order
    let np = rng.range(2, 3) as usize;
    let mut scripts: Vec<Vec<String>> = vec![];
    for k in 0..np {
        let i = held.len() + k;
        let mut b = if k + 1 == np && rng.chance(1, 2) {
            (*rng.pick(&[&b"v1/products/nosuch/versions"[..], b"v3/x", b"", b"\xff\xfe", b"GET / HTTP/1.1"])).to_vec()
        } else {
            request(rng)
        };
        b.extend_from_slice(*rng.pick(&[&b"\r\n"[..], b"\n"]));
        let mut sc = vec![];
        if rng.chance(1, 3) {
            sc.push(format!("o{i}")); // connects, is silent for a while itself, then asks
        }
        let cut = rng.below(b.len() as u64) as usize;
        if cut > 0 && rng.chance(1, 2) {
            sc.push(format!("d{i}:{}", hex(&b[..cut])));
            sc.push(format!("d{i}:{}", hex(&b[cut..])));
        } else {
            sc.push(format!("d{i}:{}", hex(&b)));
        }
        if rng.chance(1, 3) {
            sc.push(format!("e{i}"));
        }
        sc.push(format!("r{i}"));
        scripts.push(sc);
    }
    let mut pos = vec![0usize; scripts.len()];
    loop {
        let live: Vec<usize> = (0..scripts.len()).filter(|&k| pos[k] < scripts[k].len()).collect();
        if live.is_empty() {
            break;
        }
        let k = *rng.pick(&live);
        out.push(scripts[k][pos[k]].clone());
        pos[k] += 1;
    }
    // connection 0 afterwards
    match rng.below(4) {
        // the rest of its own line (for a prefix of it) / a whole line (otherwise), then the end
        0 | 1 => {
            let rest: Vec<u8> = if own.starts_with(&held[0]) { own[held[0].len()..].to_vec() } else { own.clone() };
            let mut rest = rest;
            rest.extend_from_slice(b"\r\n");
            out.push(format!("d0:{}", hex(&rest)));
            out.push("r0".into());
        }
        2 => {
            out.push("e0".into());
            out.push("r0".into());
        }
        _ => {}
    }
    format!("sched {}", out.join(","))
}

/// one character of each UTF-8 width above 1: 2 bytes, 3 bytes, 4 bytes
const MULTIBYTE: [&str; 3] = ["\u{e9}", "\u{20ac}", "\u{1F600}"];

/// `text` with `c` inserted at byte offset `k` (`text` is ASCII up to there)
fn insert_at(text: &str, k: usize, c: &str) -> String {
    let k = k.min(text.len());
    format!("{}{c}{}", &text[..k], &text[k..])
}

/// Request lines (without line end) that are VALID UTF-8 and carry one multi-byte character —
/// 2, 3 and 4 bytes wide — starting at every byte offset 0..=8, so that every small byte offset
/// 1..=11 falls inside a character in some member:
///  * `line`:     inserted into the well-formed `{ver}/products/{p}/versions` (offset in the line:
///                the version prefix, the separators, the word `products`),
///  * `short`:    the first k bytes of that line and then the character, nothing after it (lines
///                shorter than any fixed prefix length, ending in a wide character),
///  * `product`:  inserted at offset 0..=8 of the product name,
///  * `endpoint`: inserted at offset 0..=8 of the endpoint name (8 = after its last byte),
/// each for v1 and v2; and `far` (below): at the powers of two up to 1024. None is a well-formed request for something the database has (with the
/// character removed most are), so each must be closed without a reply — and nothing else.
/// `p`: an ASCII product name without '/', `long`: one of at least 8 bytes.
fn utf8_boundary_family(p: &str, long: &str) -> Vec<(String, Vec<u8>)> {
    let mut v = vec![];
    for ver in ["v1", "v2"] {
        let base = format!("{ver}/products/{p}/versions");
        for (w, c) in MULTIBYTE.iter().enumerate() {
            for k in 0..=8usize {
                v.push((format!("line:{ver}:w{}:k{k}", w + 2), insert_at(&base, k, c).into_bytes()));
                v.push((format!("short:{ver}:w{}:k{k}", w + 2), format!("{}{c}", &base[..k]).into_bytes()));
                v.push((format!("product:{ver}:w{}:k{k}", w + 2), format!("{ver}/products/{}/cdns", insert_at(long, k, c)).into_bytes()));
                v.push((format!("endpoint:{ver}:w{}:k{k}", w + 2), format!("{ver}/products/{p}/{}", insert_at("versions", k, c)).into_bytes()));
            }
        }
    }
    // `far` / `farp`: the character starts 2, 1, 0 bytes before a power of two from 16 to 1024 of
    // the line / of the product name (a long product name made of `a`s in front of it), so that
    // those byte offsets fall inside it too
    for (w, c) in MULTIBYTE.iter().enumerate() {
        for e in 4..=10u32 {
            for back in 0..=2usize {
                let k = (1usize << e) - back;
                v.push((format!("far:v1:w{}:k{k}", w + 2), format!("v1/products/{}{c}/versions", "a".repeat(k - 12)).into_bytes()));
                // … and the same offsets counted from the start of the product name
                v.push((format!("farp:v2:w{}:k{k}", w + 2), format!("v2/products/{}{c}b/cdns", "a".repeat(k)).into_bytes()));
            }
        }
    }
    v
}

/// the ASCII product names the family is built around: one the database has if it has an ASCII
/// one (the members are then near misses of an answerable request), and one of >= 8 bytes
fn family_products(products: &[String]) -> (String, String) {
    let ascii: Vec<&String> = products.iter().filter(|p| addressable_tcp(p) && p.is_ascii()).collect();
    let p = ascii.first().map_or_else(|| "wow".to_string(), |p| (*p).clone());
    let long = ascii.iter().find(|p| p.len() >= 8).map_or_else(|| "wow_classic".to_string(), |p| (*p).clone());
    (p, long)
}

/// A schedule around members `from..from+n` of `utf8_boundary_family`: connection 0 is in the
/// middle of a well-formed request when they arrive (it completes it at the end and must be
/// answered), every member travels on a connection of its own — whole, or cut at any byte, also
/// inside the wide character; terminated by CRLF / LF, or left open and ended by a half-close —
/// merged at random with clients that send well-formed requests, and one more well-formed client
/// connects after all of them.
fn gen_sched_utf8(rng: &mut Rng, products: &[String], from: usize, n: usize) -> String {
    let (p, long) = family_products(products);
    let fam = utf8_boundary_family(&p, &long);
    let good: Vec<String> = products.iter().filter(|p| addressable_tcp(p)).cloned().collect();
    let request = |rng: &mut Rng| -> Vec<u8> {
        if good.is_empty() || rng.chance(1, 6) {
            return b"v1/summary".to_vec();
        }
        let p = rng.pick(&good).clone();
        format!("{}/products/{p}/{}", *rng.pick(&["v1", "v2"]), *rng.pick(&["versions", "cdns", "bgdl"])).into_bytes()
    };
    let own = request(rng);
    let own_cut = rng.range(1, own.len() as u64 - 1) as usize;
    let mut out = vec![format!("d0:{}", hex(&own[..own_cut]))];
    let mut scripts: Vec<Vec<String>> = vec![];
    let mut next = 1usize;
    for t in 0..n {
        let (_, m) = &fam[(from + t) % fam.len()];
        let i = next;
        next += 1;
        let mut sc = vec![];
        let ending = rng.below(4);
        let mut b = m.clone();
        match ending {
            0 | 1 => b.extend_from_slice(b"\r\n"),
            2 => b.push(b'\n'),
            _ => {}
        }
        // any byte position, also inside the character
        let cut = rng.range(1, m.len() as u64 - 1) as usize;
        if rng.chance(1, 2) {
            sc.push(format!("d{i}:{}", hex(&b[..cut])));
            sc.push(format!("d{i}:{}", hex(&b[cut..])));
        } else {
            sc.push(format!("d{i}:{}", hex(&b)));
        }
        if ending == 3 || rng.chance(1, 4) {
            sc.push(format!("e{i}"));
        }
        sc.push(format!("r{i}"));
        scripts.push(sc);
        if t % 2 == 0 {
            // a client with a well-formed request beside it
            let i = next;
            next += 1;
            let mut b = request(rng);
            b.extend_from_slice(*rng.pick(&[&b"\r\n"[..], b"\n"]));
            scripts.push(vec![format!("d{i}:{}", hex(&b)), format!("r{i}")]);
        }
    }
    let mut pos = vec![0usize; scripts.len()];
    loop {
        let live: Vec<usize> = (0..scripts.len()).filter(|&k| pos[k] < scripts[k].len()).collect();
        if live.is_empty() {
            break;
        }
        let k = *rng.pick(&live);
        out.push(scripts[k][pos[k]].clone());
        pos[k] += 1;
    }
    // a client that connects after all of them
    let mut b = request(rng);
    b.extend_from_slice(b"\r\n");
    out.push(format!("d{next}:{}", hex(&b)));
    out.push(format!("r{next}"));
    // and the one that was mid-request all along
    let mut rest = own[own_cut..].to_vec();
    rest.extend_from_slice(b"\r\n");
    out.push(format!("d0:{}", hex(&rest)));
    out.push("r0".into());
    format!("sched {}", out.join(","))
}

// ---------------------------------------------------------------- product keys that are near one another

/// ASCII letters of `s` with the case of the letter at char position `at` flipped
fn flip_case_at(s: &str, at: usize) -> String {
    s.chars()
        .enumerate()
        .map(|(i, c)| if i != at { c } else if c.is_ascii_lowercase() { c.to_ascii_uppercase() } else { c.to_ascii_lowercase() })
        .collect()
}

/// The boundary family around one product string: strings that are DIFFERENT products (the
/// validator accepts every non-empty string, the index is keyed by the exact bytes) but equal to
/// `base`, or to one another, under some plausible normalisation of the key — letter case (ASCII
/// and beyond), blanks / control bytes at the ends, separator spelling, one character more or
/// less (prefix / extension), Unicode composition and width. `(kind, string, in_db)`: `in_db` =
/// may be put into a database without making the v1/summary row unreadable for a known reason
/// (a leading blank is lost by the reader: finding dirty-edge-blank). Neighbouring entries of the
/// list are the pairs most likely to collide with each other (upper/lower, é/É/e+accent …).
fn key_neighbours(base: &str) -> Vec<(&'static str, String, bool)> {
    let letters: Vec<usize> = base.chars().enumerate().filter(|(_, c)| c.is_ascii_alphabetic()).map(|(i, _)| i).collect();
    let first = letters.first().copied().unwrap_or(0);
    let last = letters.last().copied().unwrap_or(0);
    let sep = if base.contains('_') { base.replace('_', "-") } else if base.contains('-') { base.replace('-', "_") } else { format!("{base}-") };
    let mut chars: Vec<char> = base.chars().collect();
    let dropped: String = if chars.len() > 1 { chars[..chars.len() - 1].iter().collect() } else { format!("{base}{base}") };
    // full-width form of the first character (NFKC folds it back)
    if let Some(c) = chars.first_mut() {
        if c.is_ascii_graphic() {
            *c = char::from_u32(*c as u32 - 0x21 + 0xff01).unwrap_or(*c);
        }
    }
    let wide: String = chars.into_iter().collect();
    let all: Vec<(&'static str, String, bool)> = vec![
        ("upper", base.to_ascii_uppercase(), true),
        ("lower", base.to_ascii_lowercase(), true),
        ("flip-first", flip_case_at(base, first), true),
        ("flip-last", flip_case_at(base, last), true),
        ("trail-space", format!("{base} "), true),
        ("lead-space", format!(" {base}"), false),
        ("trail-tab", format!("{base}\t"), true),
        ("trail-nul", format!("{base}\0"), true),
        ("drop-last", dropped, true),
        ("append-letter", format!("{base}t"), true),
        ("append-underscore", format!("{base}_"), true),
        ("separator", sep, true),
        ("append-dot", format!("{base}."), true),
        ("accent-lower", format!("{base}\u{e9}"), true),
        ("accent-upper", format!("{base}\u{c9}"), true),
        ("accent-decomposed", format!("{base}e\u{301}"), true),
        ("kelvin-k", format!("{base}\u{212a}"), true),
        ("ascii-k", format!("{base}k"), true),
        ("full-width", wide, true),
    ];
    let mut out: Vec<(&'static str, String, bool)> = vec![];
    for (k, q, d) in all {
        if q != base && !q.is_empty() && !out.iter().any(|(_, x, _)| *x == q) {
            out.push((k, q, d));
        }
    }
    out
}

/// realistic product codes, several with capitals (so that folding either way moves them)
const KEY_BASES: [&str; 8] = ["wow_beta", "WoW_Beta", "Agent", "wow_classic_era", "BNA", "d3", "hsb-x", "Pro"];

const KEY_TIMES: [&str; 7] = [
    "2019-11-21T18:33:35+00:00", "2021-02-03T04:05:06+00:00", "2022-12-31T23:59:59+00:00", "2023-03-03T03:03:03+00:00",
    "2024-01-01T00:00:00+00:00", "2024-06-01T00:00:00+00:00", "2025-01-01T00:00:00+00:00",
];

/// the lines that ask for product `q` in every way the server can be asked: the index itself,
/// handle_command on both protocol versions, the real clients on the three transports, the raw
/// HTTP route. `eps`: the endpoints to use.
fn ask_everywhere(lines: &mut Vec<String>, q: &str, eps: &[&str]) {
    lines.push(format!("latest {}", hx(q)));
    for ep in eps {
        for v in ["v1", "v2"] {
            lines.push(format!("cmd 0 {}", hx(&format!("{v}/products/{q}/{ep}"))));
        }
        for tr in ["v1", "v2", "http"] {
            let opaque = tr == "http" && !addressable_http(q);
            // a URL cannot carry these at all: the URL parser of the client drops tab / CR / LF
            // and takes '#', '?', '/', '\\' as delimiters, so the request that leaves the client
            // names another product — not a request for `q` (URL syntax: outside the HTTP claim)
            if opaque && q.contains(['\t', '\n', '\r', '#', '?', '/', '\\']) {
                continue;
            }
            lines.push(format!("client{} {tr} {} {ep}", if opaque { "x" } else { "" }, hx(q)));
        }
        if addressable_http(q) {
            lines.push(format!("http 0 {}", hx(&format!("/{q}/{ep}"))));
        }
    }
}

/// A database built around product keys that are near one another (`key_neighbours`): the base
/// product and two members of its family side by side — database `idx` takes members `idx`,
/// `idx + 1` of those that may stand in a database, so consecutive databases walk every
/// neighbouring pair whatever the seed — each with one or two clean records of its own, the
/// globally newest record going to each of the three in turn. Then every product of the database
/// and EVERY other member of the family (absent from it) is asked for on all endpoints and
/// transports: a product of the database must read back as its own newest record, an absent
/// neighbour must get an error / closed connection. All record strings are clean, so that a wrong
/// answer cannot be mistaken for one of the known dirty-string findings.
fn gen_case_keys(rng: &mut Rng, idx: usize) -> Vec<String> {
    let mut lines = vec![];
    let hosts = (*rng.pick(&["cdn.test.com", "a.example b.example", "cdn.arctium.tools"])).to_string();
    let path = (*rng.pick(&["tpr/wow", "test/path"])).to_string();
    lines.push(format!("begin seqn={SEQN_S} hosts={} path={}", hx(&hosts), hx(&path)));
    let base = KEY_BASES[(idx / 3) % KEY_BASES.len()].to_string();
    let fam = key_neighbours(&base);
    let eligible: Vec<&String> = fam.iter().filter(|(_, _, d)| *d).map(|(_, q, _)| q).collect();
    let n1 = eligible[idx % eligible.len()].clone();
    let n2 = eligible[(idx + 1) % eligible.len()].clone();
    let mut products = vec![base.clone(), n1];
    if !products.contains(&n2) {
        products.push(n2);
    }
    // sometimes a product from elsewhere as well
    if rng.chance(1, 3) {
        products.push("wowt".into());
    }
    // times: all distinct; the newest one goes to product `idx % 3`, the others are dealt at random
    let mut times: Vec<&str> = KEY_TIMES.to_vec();
    let newest_t = times.pop().expect("non-empty");
    for i in (1..times.len()).rev() {
        times.swap(i, rng.below(i as u64 + 1) as usize);
    }
    let holder = idx % products.len().min(3);
    let mut recs: Vec<BuildRecord> = vec![];
    let mut order: Vec<usize> = (0..products.len()).collect();
    if rng.chance(1, 2) {
        order.reverse();
    }
    for &k in &order {
        let n = if k == holder { 1 } else { rng.range(1, 2) as usize };
        for _ in 0..n {
            let id = recs.len() as u64 + 1;
            let mut r = gen_record(rng, id, products[k].clone(), true);
            r.build_time = times.pop().unwrap_or("2018-01-01T00:00:00+00:00").to_string();
            // tell the records apart in every reply: version, build and cdn path carry the id
            r.version = format!("{}.{id}", r.version.replace(' ', "."));
            r.build = format!("{}", 50_000 + id * 1111);
            r.cdn_path = if rng.chance(1, 4) { None } else { Some(format!("tpr/p{id}")) };
            recs.push(r);
        }
    }
    let mut r = gen_record(rng, recs.len() as u64 + 1, products[holder].clone(), true);
    r.build_time = newest_t.to_string();
    r.build = "65000".into();
    r.cdn_path = Some("tpr/newest".into());
    let at = rng.below(recs.len() as u64 + 1) as usize;
    recs.insert(at, r);
    for r in &recs {
        lines.push(rec_line(r));
    }
    lines.push("load ?".into());
    for p in &products {
        ask_everywhere(&mut lines, p, &["versions", "cdns", "bgdl"]);
    }
    lines.push("clientsum".into());
    // the absent members of the family: one endpoint each (walking), the first of them all three
    for (j, (_, q, _)) in fam.iter().filter(|(_, q, _)| !products.contains(q)).enumerate() {
        if j == 0 {
            ask_everywhere(&mut lines, q, &["versions", "cdns", "bgdl"]);
        } else {
            ask_everywhere(&mut lines, q, &[["versions", "cdns", "bgdl"][(j + idx) % 3]]);
        }
    }
    // the same neighbours from several clients at once, beside requests the database answers
    let mut mix: Vec<String> = vec![];
    for (_, q, _) in fam.iter().take(6) {
        mix.push(hex(format!("v2/products/{q}/versions\r\n").as_bytes()));
    }
    for p in &products {
        mix.push(hex(format!("v1/products/{p}/versions\r\n").as_bytes()));
    }
    lines.push(format!("storm 2 {}", mix.join(",")));
    lines
}

/// for a database of the general generator: a few members (walking with `idx`) of the key family
/// of one of ITS products that the database does not have, asked for everywhere — they must not
/// be answered with that product's (or anybody's) rows
fn near_miss_requests(rng: &mut Rng, products: &[String], idx: usize) -> Vec<String> {
    let mut lines = vec![];
    let Some(p) = products.iter().find(|p| addressable_tcp(p) && p.is_ascii()) else { return lines };
    let fam = key_neighbours(p);
    for t in 0..3usize {
        let (_, q, _) = &fam[(idx * 3 + t) % fam.len()];
        if products.contains(q) {
            continue;
        }
        ask_everywhere(&mut lines, q, &[*rng.pick(&["versions", "cdns", "bgdl"])]);
    }
    lines
}

/// `%XX` for every byte
fn pct(c: &str) -> String {
    c.bytes().map(|b| format!("%{b:02X}")).collect()
}

fn gen_case(rng: &mut Rng, idx: usize, thorough: bool, seed: u64) -> Vec<String> {
    let mut lines = vec![];
    let hosts = (*rng.pick(&["cdn.test.com", "a.example b.example", "  lead.example  x", "", "   ", "h|x", "cdn.arctium.tools", "é.example"])).to_string();
    let path = (*rng.pick(&["tpr/wow", "test/path", "x ", "", "a|b", "tpr/wow"])).to_string();
    lines.push(format!("begin seqn={SEQN_S} hosts={} path={}", hx(&hosts), hx(&path)));
    // every third database is entirely clean; the others mix in excluded strings
    let clean_db = idx % 3 == 0;
    let nprod = rng.range(1, 3) as usize;
    let mut products: Vec<String> = vec![];
    while products.len() < nprod {
        let p = gen_product(rng, clean_db);
        if !products.contains(&p) {
            products.push(p);
        }
    }
    let nrec = rng.range(1, 6) as usize;
    let mut recs = vec![];
    for i in 0..nrec {
        let p = products[if i < nprod { i } else { rng.below(nprod as u64) as usize }].clone();
        let clean = clean_db || rng.chance(1, 2);
        recs.push(gen_record(rng, (i + 1) as u64, p, clean));
    }
    if idx % 17 == 5 {
        recs.clear(); // the empty database
    }
    for r in &recs {
        lines.push(rec_line(r));
    }
    lines.push("load ?".into());
    let mut asked = products.clone();
    asked.push("nosuch".into());
    for p in &asked {
        lines.push(format!("latest {}", hx(p)));
    }
    for p in &asked {
        for ep in ["versions", "cdns", "bgdl", "certs"] {
            if ep == "certs" && !rng.chance(1, 4) {
                continue;
            }
            for v in ["v1", "v2"] {
                lines.push(format!("cmd 0 {}", hx(&format!("{v}/products/{p}/{ep}"))));
            }
        }
    }
    lines.push(format!("cmd 0 {}", hx("v1/summary")));
    for c in ["v2/summary", "v1/", "v1", "", "v1/products", "v2/products/wow", "v1/products/wow/versions/x", "v1/summary ", "V1/summary", "v1/prod/wow/cdns"] {
        if rng.chance(1, 2) {
            lines.push(format!("cmd 0 {}", hx(c)));
        }
    }
    for p in &asked {
        for ep in ["versions", "cdns", "bgdl"] {
            for tr in ["v1", "v2", "http"] {
                // run-only corner (URL syntax of reqwest/axum): still judged by the oracle, not
                // compared with the model
                let opaque = tr == "http" && !addressable_http(p);
                lines.push(format!("client{} {tr} {} {ep}", if opaque { "x" } else { "" }, hx(p)));
            }
        }
    }
    lines.push("clientsum".into());
    // raw HTTP routing
    for p in asked.iter().filter(|p| addressable_http(p)) {
        for path in [format!("/{p}/versions"), format!("/{p}/cdns"), format!("/{p}/bgdl"), format!("/{p}/certs"), format!("/{p}"), format!("/{p}/versions/"), format!("/x/{p}/versions"), "//versions".to_string(), "/".to_string()] {
            if rng.chance(1, 2) {
                lines.push(format!("http 0 {}", hx(&path)));
            }
        }
    }
    // malformed / hostile request lines, alone and from several clients at once
    if idx % 4 == 1 || thorough {
        let bad = malformed_requests(rng, &products);
        for b in &bad {
            if b.len() < 4096 || idx % 8 == 1 {
                lines.push(format!("conn 0 {}", hex(b)));
            }
        }
        lines.push(format!("hold {}", hex(b"v1/products/wow/versions")));
        lines.push(format!("hold {}", hex(&[0xff, 0xfe])));
        let mut mix: Vec<String> = bad.iter().filter(|b| b.len() < 4096 && !b.is_empty()).map(|b| hex(b)).collect();
        for p in products.iter().filter(|p| addressable_tcp(p)) {
            mix.push(hex(format!("v2/products/{p}/cdns\r\n").as_bytes()));
            mix.push(hex(format!("v1/products/{p}/cdns\r\n").as_bytes()));
        }
        lines.push(format!("storm 4 {}", mix.join(",")));
    }
    // the additions below draw from their own stream (one per database), so the cases above are
    // the same as before they existed
    let rng = &mut Rng::new(seed.wrapping_mul(0x9e37_79b9_7f4a_7c15) ^ (idx as u64 + 0x5ced));
    // interleaved connections (isolation): every third database, all in thorough
    if idx % 3 == 1 || thorough {
        for k in 0..2 {
            let pending_read = k == 0 && (idx == 4 || (thorough && idx % 16 == 4));
            let with_timeout = thorough && k == 1 && (idx == 10 || idx == 200);
            lines.push(gen_sched(rng, &products, pending_read, with_timeout));
        }
    }
    // a few more raw HTTP paths outside the table
    for p in asked.iter().filter(|p| addressable_http(p)).take(1) {
        for path in [format!("/{p}/Versions"), format!("/{p}//cdns"), format!("//{p}/cdns"), format!("/{p}/cdns/x"), "/versions".to_string()] {
            if rng.chance(1, 2) {
                lines.push(format!("http 0 {}", hx(&path)));
            }
        }
    }
    // again a stream of its own: connections that are opened FIRST and hold nothing / a prefix of
    // a line while the clients that connect after them are served. Every database gets one such
    // schedule; the database index walks the family (even: zero bytes), so the quick tier's 36
    // databases cover every member whatever the seed.
    let rng = &mut Rng::new(seed.wrapping_mul(0xd6e8_feb8_6659_fd93) ^ (idx as u64 + 0x51e7));
    lines.push(gen_sched_held_first(rng, &products, idx));
    match idx % 4 {
        // silent connections (zero bytes) on both listeners, few and many
        1 => {
            lines.push("hold -".into());
            lines.push(format!("hold - {}", *rng.pick(&[1usize, 2, 33, 100, 200])));
        }
        // many open lines
        3 => {
            let fam = held_family(b"v1/summary");
            lines.push(format!("hold {} {}", hex(rng.pick(&fam[..]).as_slice()), *rng.pick(&[1usize, 16, 65, 150])));
        }
        _ => {}
    }
    // once more a stream of its own: valid UTF-8 request lines with a wide character at small byte
    // offsets. Every database: one schedule over the next slice of the family (the quick tier's
    // 36 databases walk the whole family whatever the seed). Databases 0, 9, 18, 27, …: the whole
    // family, every member alone on a connection followed by a well-formed probe from another
    // client (`conn`) and through handle_command (`cmd`), a storm of members and well-formed
    // requests, held prefixes that end inside a character, the real clients afterwards, and the
    // HTTP analogue (percent-encoded, as a URL carries it).
    let rng = &mut Rng::new(seed.wrapping_mul(0xa24b_aed4_963e_e407) ^ (idx as u64 + 0x07f8));
    let (fp, flong) = family_products(&products);
    let fam = utf8_boundary_family(&fp, &flong);
    let per = fam.len().div_ceil(36);
    if idx % 9 == 0 {
        for (k, (_, m)) in fam.iter().enumerate() {
            let mut b = m.clone();
            match (k + idx / 9) % 5 {
                0 | 1 | 2 => b.extend_from_slice(b"\r\n"),
                3 => b.push(b'\n'),
                _ => {} // no line end: the half-close ends the line
            }
            lines.push(format!("conn 0 {}", hex(&b)));
        }
        for (_, m) in &fam {
            lines.push(format!("cmd 0 {}", hex(m)));
        }
        // blanks around a member: the offsets in the line and in the trimmed command differ
        for (_, m) in fam.iter().filter(|(t, _)| t.starts_with("line:v1:") || t.starts_with("short:v2:")) {
            let mut b = b"  ".to_vec();
            b.extend_from_slice(m);
            b.extend_from_slice(b"\t\r\n");
            lines.push(format!("conn 0 {}", hex(&b)));
        }
        // several clients at once: members whose character lies across byte 1..=5, and
        // well-formed requests
        let mut mix: Vec<String> = fam
            .iter()
            .filter(|(t, _)| (t.starts_with("line:") || t.starts_with("short:")) && ["k0", "k1", "k2", "k3", "k4"].iter().any(|k| t.ends_with(k)))
            .map(|(_, m)| {
                let mut b = m.clone();
                b.extend_from_slice(b"\r\n");
                hex(&b)
            })
            .collect();
        for p in products.iter().filter(|p| addressable_tcp(p)) {
            mix.push(hex(format!("v2/products/{p}/cdns\r\n").as_bytes()));
            mix.push(hex(format!("v1/products/{p}/versions\r\n").as_bytes()));
        }
        mix.push(hex(b"v1/summary\r\n"));
        lines.push(format!("storm 2 {}", mix.join(",")));
        // open lines that stop inside a character (first 1, 2, 3 bytes of a 4-byte one after a
        // prefix of 0..=3 bytes)
        for pre in 0..=3usize {
            for part in 1..=3usize {
                let mut b = b"v1/p"[..pre].to_vec();
                b.extend_from_slice(&MULTIBYTE[2].as_bytes()[..part]);
                lines.push(format!("hold {} 2", hex(&b)));
            }
        }
        // the real clients still read the database's rows
        for p in products.iter().filter(|p| addressable_tcp(p)) {
            for tr in ["v1", "v2"] {
                lines.push(format!("client {tr} {} {}", hx(p), *rng.pick(&["versions", "cdns", "bgdl"])));
            }
        }
        lines.push("clientsum".into());
        // HTTP: the same characters percent-encoded in the product and in the endpoint segment
        let hp = asked.iter().find(|p| addressable_http(p)).cloned().unwrap_or_else(|| "wow".into());
        let hlong = if hp.len() >= 8 { hp.clone() } else { "wow_classic".to_string() };
        for c in MULTIBYTE {
            for k in 0..=8usize {
                lines.push(format!("http 0 {}", hx(&format!("/{}/versions", insert_at(&hlong, k, &pct(c))))));
                lines.push(format!("http 0 {}", hx(&format!("/{hp}/{}", insert_at("versions", k, &pct(c))))));
            }
        }
    }
    lines.push(gen_sched_utf8(rng, &products, (idx % 36) * per, per));
    // and one more: requests for products the database does NOT have but that differ from one it
    // has only by letter case / a blank / a separator / one character / Unicode form
    let rng = &mut Rng::new(seed.wrapping_mul(0xc2b2_ae3d_27d4_eb4f) ^ (idx as u64 + 0x6b65));
    lines.extend(near_miss_requests(rng, &products, idx));
    lines
}

/// texts for the BPSV reader alone: server-shaped documents with edits
fn gen_parse_lines(rng: &mut Rng, n: usize) -> Vec<String> {
    let mut v = vec![];
    let headers = [
        "Region!STRING:0|BuildConfig!HEX:16|BuildId!DEC:4", "A!string:0|B!hex:1|C!dec:+4", "A!STRING:0", "A|B", "A!STRING", "A!FOO:1", "A!STRING:x",
        "A!B!STRING:0", "A!STRING:0:1", "", " A!STRING:0|B!DEC:4 ", "A!STRING:-1", "A!DEC:99999999999999999999999",
    ];
    let rows = [
        "us|abcd|12", "eu|ABCD|-5", "|", "||", "x", "a|b|c|d", " us|ab|1 ", "us|abc|1", "us|zz|1", "us|é|1", "us|ab|x", "us|ab|+7", "us|ab|9223372036854775808",
        "us|ab|-9223372036854775808", "## seqn = 5", "## seqn=6", "## seqn: 7", "## seqn 8", "## seqn", "## seqn = ", "## seqn = x", "## seqn = 4294967296",
        "## seqn = 4294967295", "##seqn = 3", "# comment", "#", "", "   ", "\t## seqn = 9", "## seqn = 1 = 2", "## seqn : 3 = 4", "## seqn=+5", "us|ab|1\r", "\u{3000}us|ab|2\u{a0}",
        "## seqnx = 5", "## seqn = -1",
    ];
    for _ in 0..n {
        let mut t = String::new();
        if !rng.chance(1, 20) {
            let hn = if rng.chance(2, 3) { 3 } else { headers.len() };
            t.push_str(*rng.pick(&headers[..hn]));
        }
        for _ in 0..rng.below(6) {
            t.push_str(if rng.chance(1, 8) { "\r\n" } else { "\n" });
            t.push_str(*rng.pick(&rows));
        }
        if rng.chance(1, 3) {
            t.push('\n');
        }
        v.push(format!("parse {}", hx(&t)));
    }
    v.push(format!("parse {}", hex(&[0xff, 0x21])));
    v
}

async fn run_case(s: &mut Session, lines: &[String]) {
    let mut ctx = Ctx::default();
    for l in lines {
        run_line(s, &mut ctx, l).await;
    }
}

fn main() {
    let args = Args::parse();
    // panics inside the client are an observable here; keep them quiet
    quiet_panics();
    let rt = tokio::runtime::Builder::new_multi_thread().worker_threads(6).enable_all().build().expect("runtime");
    let mut s = Session::new(&args.out);
    s.rule = "one case = one end-to-end query / command / request line against a generated database; non-trivial = the server produced a reply that the client parsed (or, for raw lines, any reply); distinct = request text together with the newest record it concerns".into();
    rt.block_on(async {
        if let Some(f) = &args.replay {
            let lines = read_case(f);
            run_case(&mut s, &lines).await;
            return;
        }
        let mut rng = Rng::new(args.seed);
        let ndb = if args.thorough() { 400 } else { 36 };
        for i in 0..ndb {
            if WEDGES.load(Ordering::Relaxed) >= 4 {
                // every further one costs several 3 s waits; the ones found are all reported
                s.tally("stopped-early:server-does-not-answer");
                break;
            }
            let lines = gen_case(&mut rng, i, args.thorough(), args.seed);
            run_case(&mut s, &lines).await;
        }
        // databases of products whose keys are near one another (a stream of its own)
        let mut krng = Rng::new(args.seed.wrapping_mul(0x2545_f491_4f6c_dd1d) ^ 0x6b65_7973);
        let nkey = if args.thorough() { 240 } else { 24 };
        for i in 0..nkey {
            if WEDGES.load(Ordering::Relaxed) >= 4 {
                break;
            }
            // the quick tier starts its walk at a seed-dependent place and still makes a full
            // round over the neighbouring pairs
            let lines = gen_case_keys(&mut krng, i + (args.seed as usize % 8) * 3);
            s.tally("case:key-neighbour-database");
            run_case(&mut s, &lines).await;
        }
        let mut ctx = Ctx::default();
        for l in gen_parse_lines(&mut rng, if args.thorough() { 6000 } else { 600 }) {
            run_line(&mut s, &mut ctx, &l).await;
        }
    });
    s.extra.insert("seqn_symbol".into(), serde_json::json!("T = the server's wall-clock sequence number (model runs with a fixed one)"));
    s.finish();
}
